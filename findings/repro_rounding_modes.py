"""C02: concrete folding ignores the rounding mode; the solver honours it.
Each line prints the folded value and the value Z3 gives for the same operation on the same operands."""
import claripy
from claripy.fp import RM, FSORT_DOUBLE, FSORT_FLOAT

x = claripy.FPS("x", FSORT_DOUBLE)
y = claripy.FPS("y", FSORT_DOUBLE)
b = claripy.BVS("b", 64)


def solved(expr, *eqs):
    s = claripy.SolverCacheless()
    for e in eqs:
        s.add(e)
    return s.eval(expr, 1)[0]


one, tiny = claripy.FPV(1.0, FSORT_DOUBLE), claripy.FPV(2.0**-60, FSORT_DOUBLE)
P, N, Z = RM.RM_TowardsPositiveInf, RM.RM_TowardsNegativeInf, RM.RM_TowardsZero
rows = [
    ("fpAdd", claripy.fpAdd(P, one, tiny), solved(claripy.fpAdd(P, x, y), x == one, y == tiny)),
    ("fpSub", claripy.fpSub(N, one, tiny), solved(claripy.fpSub(N, x, y), x == one, y == tiny)),
    ("fpMul", claripy.fpMul(P, claripy.FPV(1.1, FSORT_DOUBLE), claripy.FPV(1.1, FSORT_DOUBLE)),
     solved(claripy.fpMul(P, x, y), x == claripy.FPV(1.1, FSORT_DOUBLE), y == claripy.FPV(1.1, FSORT_DOUBLE))),
    ("fpDiv", claripy.fpDiv(P, one, claripy.FPV(3.0, FSORT_DOUBLE)),
     solved(claripy.fpDiv(P, x, y), x == one, y == claripy.FPV(3.0, FSORT_DOUBLE))),
    ("fpSqrt", claripy.fpSqrt(Z, claripy.FPV(2.0, FSORT_DOUBLE)), solved(claripy.fpSqrt(Z, x), x == claripy.FPV(2.0, FSORT_DOUBLE))),
    ("fpToFPUnsigned", claripy.fpToFPUnsigned(P, claripy.BVV(2**53 + 1, 64), FSORT_DOUBLE),
     solved(claripy.fpToFPUnsigned(P, b, FSORT_DOUBLE), b == claripy.BVV(2**53 + 1, 64))),
    ("fpToFP(rm,bv,sort)", claripy.fpToFP(P, claripy.BVV(2**53 + 1, 64), FSORT_DOUBLE),
     solved(claripy.fpToFP(P, b, FSORT_DOUBLE), b == claripy.BVV(2**53 + 1, 64))),
    ("fpToFP(rm,fp,sort)", claripy.fpToFP(Z, claripy.FPV(1.1, FSORT_DOUBLE), FSORT_FLOAT),
     solved(claripy.fpToFP(Z, x, FSORT_FLOAT), x == claripy.FPV(1.1, FSORT_DOUBLE))),
]
bad = 0
for name, folded, sol in rows:
    fv = folded.args[0]
    ok = fv == sol
    bad += not ok
    print(f"{name:22} folded={fv.hex():26} solver={sol.hex():26} {'same' if ok else 'DIFFERENT'}")
raise SystemExit(1 if bad else 0)
