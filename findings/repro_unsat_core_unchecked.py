#!/venv/bin/python
"""C16: unsat_core() of a tracked, unsatisfiable solver must be a non-empty unsatisfiable subset.
Before fix (see known_findings.json) it returned () whenever the cached answer 'unsat' was served without a check
on the native solver the frontend currently holds: after pickling, after downsize(), and on a branch."""
import pickle
import sys

import claripy

x = claripy.BVS("x", 8)
bad = 0


def check(tag, s):
    global bad
    core = tuple(s.unsat_core())
    ok = bool(core) and not claripy.Solver().satisfiable(extra_constraints=core)
    print(f"{tag:28s} satisfiable={s.satisfiable()} core={core} {'ok' if ok else 'EMPTY/INVALID CORE'}")
    bad += not ok


for cls in (claripy.Solver, claripy.SolverHybrid, claripy.SolverComposite):
    def fresh():
        s = cls(track=True)
        s.add(x * x == 3)  # no square is 3 mod 256: only Z3 finds out
        s.add(x > 5)
        assert not s.satisfiable()
        return s

    n = cls.__name__
    check(n + " direct", fresh())
    check(n + " pickled", pickle.loads(pickle.dumps(fresh())))
    s = fresh()
    s.downsize()
    check(n + " downsized", s)
    check(n + " branch", fresh().branch())
sys.exit(1 if bad else 0)
