"""C06: annotations enter the structural hash through Python's hash(); colliding hashes conflate two ASTs."""
import claripy
a = claripy.SI(name="v", bits=8, lower_bound=-1, upper_bound=5, stride=1, explicit_name=True)
b = claripy.SI(name="v", bits=8, lower_bound=-2, upper_bound=5, stride=1, explicit_name=True)
print("same object:", a is b, "| annotations of the second request:", b.annotations)
r1 = claripy.BVS("p", 8, explicit_name=True).annotate(claripy.annotation.RegionAnnotation("r", -1))
r2 = claripy.BVS("p", 8, explicit_name=True).annotate(claripy.annotation.RegionAnnotation("r", -2))
print("region: same object:", r1 is r2, "| base of the second:", r2.annotations[0].region_base_addr)
raise SystemExit(1 if (a is b or r1 is r2) else 0)
