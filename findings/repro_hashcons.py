"""
Violations of C06 on the UNMODIFIED tree.  Each part prints what it saw; exit status 1 if any part fails.

  A. pickle round trip of a dead AST changes its annotations (order, duplicates, cleared child annotations come back)
  B. two threads building the same expression get two live objects
  C. claripy.simplify() swaps an annotated leaf for a same-named leaf with other annotation contents
"""

from __future__ import annotations

import gc
import os
import pickle
import sys
import threading

sys.path.insert(0, os.path.dirname(os.path.abspath(__file__)))

import claripy  # noqa: E402
from claripy.annotation import Annotation  # noqa: E402


class Tag(Annotation):
    """eliminatable, not relocatable: the plainest annotation there is"""

    def __init__(self, v):
        self.v = v

    def __hash__(self):
        return hash(("Tag", self.v))

    def __eq__(self, o):
        return type(o) is type(self) and o.v == self.v

    def __repr__(self):
        return f"{type(self).__name__}({self.v})"


class Taint(Tag):
    eliminatable = False
    relocatable = True

    def __hash__(self):
        return hash(("Taint", self.v))


def part_a():
    rc = 0
    x = claripy.BVS("x", 32, explicit_name=True)
    y = claripy.BVS("y", 32, explicit_name=True)

    # A1: order of the annotation tuple
    for i in range(50):
        e = x.annotate(Tag(i), Tag(i + 1), Tag(i + 2))
        want, blob = tuple(e.annotations), pickle.dumps(e, -1)
        del e
        gc.collect()
        back = pickle.loads(blob)
        again = x.annotate(Tag(i), Tag(i + 1), Tag(i + 2))
        if tuple(back.annotations) != want or back is not again:
            print(f"A1: pickled {want}, unpickled {back.annotations}; same object as the rebuilt expression: {back is again}")
            rc = 1
            break

    # A2: duplicates
    e = x.annotate(Tag(7), Tag(7))
    blob = pickle.dumps(e, -1)
    del e
    gc.collect()
    back = pickle.loads(blob)
    if len(back.annotations) != 2:
        print("A2: pickled (Tag(7), Tag(7)), unpickled", back.annotations)
        rc = 1

    # A3: a relocatable annotation of a child that was cleared from the parent
    bare = (x.annotate(Taint(1)) + y).clear_annotations()
    assert bare.annotations == ()
    blob = pickle.dumps(bare, -1)
    del bare
    gc.collect()
    back = pickle.loads(blob)
    if back.annotations != ():
        print("A3: pickled a sum with annotations (), unpickled", back.annotations)
        rc = 1
    return rc


def part_b():
    x = claripy.BVS("x", 32, explicit_name=True)
    y = claripy.BVS("y", 32, explicit_name=True)
    old = sys.getswitchinterval()
    sys.setswitchinterval(1e-6)  # only makes it quick; with the default 5 ms it is a handful in 20000
    try:
        for rnd in range(20):  # a race: give it a few rounds
            res = [[], []]
            bar = threading.Barrier(2)

            def work(k, rnd=rnd, res=res, bar=bar):
                bar.wait()
                for i in range(5000):
                    res[k].append((x + i) * (y ^ (i + rnd)))

            ts = [threading.Thread(target=work, args=(k,)) for k in range(2)]
            for t in ts:
                t.start()
            for t in ts:
                t.join()
            dups = [(a, b) for a, b in zip(*res, strict=True) if a is not b]
            if dups:
                a, b = dups[0]
                print(
                    f"B: round {rnd}: {len(dups)} of 5000 expressions exist twice, e.g. {a} "
                    f"(ids {id(a):#x} / {id(b):#x}, equal hash: {a.hash() == b.hash()})"
                )
                return 1
    finally:
        sys.setswitchinterval(old)
    return 0


def part_c():
    y = claripy.BVS("y", 32, explicit_name=True)
    narrow = claripy.SI(name="v", bits=32, lower_bound=0, upper_bound=5, stride=1, explicit_name=True)
    wide = claripy.SI(name="v", bits=32, lower_bound=0, upper_bound=9, stride=1, explicit_name=True)
    assert narrow is not wide
    claripy.simplify((narrow + y) - y + 1)  # history: the narrow one went through Z3 first
    e = (wide + y) - y + 1
    s = claripy.simplify(e)
    leaves = [l for l in s.leaf_asts() if l.op == "BVS"]
    if any(l is not wide for l in leaves):
        print("C: simplify(", e, ") =", s, "over the leaf annotated", leaves[0].annotations, "instead of", wide.annotations)
        vsa = claripy.backends.vsa
        print("   VSA max of v + 1:", vsa.max(wide + 1), " of the simplification of v + y - y + 1:", vsa.max(s))
        return 1
    return 0


if __name__ == "__main__":
    rc = part_a() | part_b() | part_c()
    print("C06 violated on this tree" if rc else "nothing found")
    sys.exit(rc)
