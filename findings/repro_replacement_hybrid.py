"""Reproducers for violations of property C13 that are present in the UNMODIFIED tree.

Run:  cd /tmp/wt_C13 && PYTHONPATH=/tmp/wt_C13 /venv/bin/python preexisting_C13.py
Exits 1 and lists the findings that reproduce; exits 0 if none does.
The oracle is Z3 through a fresh cache-less solver (claripy.SolverCacheless) over the same constraints.
"""
import sys

import claripy
from claripy.errors import UnsatError

x = claripy.BVS("x", 8)
y = claripy.BVS("y", 8)
found = []


def outcome(f):
    try:
        r = f()
        return sorted(r) if isinstance(r, (tuple, list, set)) else r
    except UnsatError:
        return "UnsatError"
    except Exception as e:  # pylint:disable=broad-except
        return f"raises {type(e).__name__}"


def oracle(constraints):
    s = claripy.SolverCacheless()
    s.add(constraints)
    return s


# F1  exact, SolverReplacement default: a divisor that the learned replacement turns into 0
cons = [x == 3]
e = 5 // (x - 3)
s = claripy.SolverReplacement()
s.add(cons)
for name, q in (("eval", lambda z: z.eval(e, 2)), ("max", lambda z: z.max(e)), ("solution 255", lambda z: z.solution(e, 255))):
    got, want = outcome(lambda: q(s)), outcome(lambda: q(oracle(cons)))
    if got != want:
        found.append(f"F1 SolverReplacement, x == 3, {name} of 5 // (x - 3): {got}; Z3: {want}")

# F2  exact, SolverHybrid: add() of a legal constraint raises
for c in ((x << 9) == 0, claripy.ULT(x << 12, 3)):
    h = claripy.SolverHybrid()
    got = outcome(lambda: (h.add(c), h.satisfiable())[1])
    want = outcome(lambda: oracle([c]).satisfiable())
    if got != want:
        found.append(f"F2 SolverHybrid.add({c}): {got}; plain solver: satisfiable {want}")

# F3  approximate mode excludes the values of a division by zero (Z3: x / 0 == all ones, x % 0 == x)
cons = [claripy.ULE(x, 3)]
h = claripy.SolverHybrid()
h.add(cons)
exact = set(oracle(cons).eval(12 // x, 300))
approx = h.eval(12 // x, 300, exact=False)
if not exact <= set(approx):
    found.append(
        f"F3 SolverHybrid, x <= 3, eval(12 // x, exact=False) = {sorted(approx)} leaves out {sorted(exact - set(approx))}; "
        f"max(exact=False) = {h.max(12 // x, exact=False)}, solution(255, exact=False) = {h.solution(12 // x, 255, exact=False)}"
    )
h = claripy.SolverHybrid()
h.add(x == 3)
approx = outcome(lambda: h.eval(5 // (x - 3), 2, exact=False))
if approx != [255]:
    found.append(f"F3 SolverHybrid, x == 3, eval(5 // (x - 3), 2, exact=False) = {approx}; Z3: [255]")
v = claripy.SolverVSA()
approx = outcome(lambda: v.eval(12 // y, 300))
if isinstance(approx, list) and len(approx) < 300 and 255 not in approx:
    found.append(f"F3 SolverVSA, no constraints, eval(12 // y) = {approx} leaves out 255 (y == 0)")

# F4  exact, SolverReplacement default: answers in an unsatisfiable state
cons = [x == 5, x == 6]
s = claripy.SolverReplacement()
s.add(cons)
p = claripy.Solver()
p.add(cons)
for name, q in (("eval(x, 1)", lambda z: z.eval(x, 1)), ("max(x)", lambda z: z.max(x)), ("solution(x, 5)", lambda z: z.solution(x, 5))):
    got, want = outcome(lambda: q(s)), outcome(lambda: q(p))
    if got != want:
        found.append(f"F4 SolverReplacement, x == 5, x == 6 (unsat), {name}: {got}; plain Solver: {want}")

# F5  exact, SolverHybrid (and plain Solver: the cause is in the model cache): a repeated query changes its answer
cons = [x == 3]
h = claripy.SolverHybrid()
h.add(cons)
first = outcome(lambda: h.eval(e, 2))
second = outcome(lambda: h.eval(e, 2))
mx = outcome(lambda: h.max(e))
sat = outcome(lambda: h.satisfiable())
want = outcome(lambda: oracle(cons).eval(e, 2))
if (first, second, sat) != (want, want, True):
    found.append(
        f"F5 SolverHybrid (exact), x == 3: eval(5 // (x - 3), 2) = {first}, again = {second}, then max = {mx}, "
        f"satisfiable() = {sat}; Z3: {want} every time, max 255, satisfiable"
    )

# F6  exact, SolverHybrid (and plain Solver: the cause is ModelCacheMixin.split): a shard with one `var == const`
#     constraint, split off a solver that has no cached model, answers eval(var) with an empty tuple
h = claripy.SolverHybrid()
h.add(x == 5)
h.add(y == 7)
for shard in h.split():
    (var,) = [v for v in (x, y) if v.variables <= shard.variables]
    got = outcome(lambda: shard.eval(var, 10))
    want = outcome(lambda: oracle(shard.constraints).eval(var, 10))
    if got != want:
        found.append(
            f"F6 SolverHybrid(x == 5, y == 7).split(), shard {shard.constraints}: eval({var.args[0]}, 10) = {got}, "
            f"max = {outcome(lambda: shard.max(var))}; Z3: {want}"
        )

# F7  approximate mode: an unsigned inequality over a difference with a non-constant subtrahend
w = claripy.BVS("w", 8)
wa = w.annotate(claripy.annotation.StridedIntervalAnnotation(1, 250, 255))
for label, cons_h, cons_z in (
    ("x - w <u 5", [claripy.ULT(x - w, 5)], [claripy.ULT(x - w, 5)]),
    ("x - w >u 250", [claripy.UGT(x - w, 250)], [claripy.UGT(x - w, 250)]),
    ("w >= 250 (w annotated [250, 255]), x - w <u 5", [claripy.UGE(w, 250), claripy.ULT(x - wa, 5)], [claripy.UGE(w, 250), claripy.ULT(x - w, 5)]),
):
    h = claripy.SolverHybrid()
    h.add(cons_h)
    exact = set(oracle(cons_z).eval(x, 300))
    approx = h.eval(x, 300, exact=False)
    if len(approx) < 300 and not exact <= set(approx):
        found.append(
            f"F7 SolverHybrid, {label}: eval(x, exact=False) has {len(approx)} values and leaves out "
            f"{sorted(exact - set(approx))}; max(exact=False) = {h.max(x, exact=False)}, min(exact=False) = {h.min(x, exact=False)}"
        )

if found:
    print("C13 is violated on this tree:")
    for f in found:
        print("  -", f)
    sys.exit(1)
print("nothing reproduced")
sys.exit(0)
