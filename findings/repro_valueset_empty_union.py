"""ValueSet.union / widen with a plain (region-less) operand on a value set without regions lost the operand
(repaired by bd50fad).  Exit 1 while the defect is present."""
import sys

from claripy.backends.backend_vsa.strided_interval import StridedInterval
from claripy.backends.backend_vsa.valueset import ValueSet

five = StridedInterval(bits=8, stride=0, lower_bound=5, upper_bound=5)
bad = 0
for op in ("union", "widen"):
    r = getattr(ValueSet.empty(8), op)(five)
    print(op, r, r.eval(5), r.cardinality)
    if 5 not in r.eval(5):
        bad = 1
sys.exit(bad)
