import logging; logging.disable(logging.CRITICAL)
import itertools, sys
from claripy.backends.backend_vsa.strided_interval import StridedInterval as SI
def every(W):
    M=1<<W
    for lb in range(M):
        yield SI(bits=W, stride=0, lower_bound=lb, upper_bound=lb)
        for st in range(1, M):
            for n in range(1, (M - 1) // st + 1):
                yield SI(bits=W, stride=st, lower_bound=lb, upper_bound=(lb + n * st) % M)
res={}
for W in (3,4):
    M=1<<W
    S=list(every(W))
    for a in S:
        va=set(a.eval(M+2))
        for k in range(0,W):
            for nm,f,g in (("lshr", lambda x,k: x._rshift_logical(k), lambda v,k: v>>k), ("ashr", lambda x,k: x._rshift_arithmetic(k), lambda v,k: ((v - (M if v>=M//2 else 0))>>k) % M)):
                try: r=set(f(a,k).eval(M+2))
                except RecursionError:
                    res.setdefault(nm+"-recursion",[0,0,str(a)])[0]+=1; continue
                want={g(v,k) for v in va}
                t=res.setdefault(nm,[0,0,None]); t[1]+=1
                if not want<=r:
                    t[0]+=1
                    if t[2] is None: t[2]=(str(a),k,sorted(r),sorted(want-r))
    if W==3:
        for a,b in itertools.product(S,S):
            vb=set(b.eval(M+2))
            if 0 in vb: continue
            try: r=set((a % b).eval(M+2))
            except ZeroDivisionError:
                res.setdefault('mod-zerodiv',[0,0,(str(a),str(b))])[0]+=1; continue
            want={x%y for x in a.eval(M+2) for y in vb}
            t=res.setdefault("mod",[0,0,None]); t[1]+=1
            if not want<=r:
                t[0]+=1
                if t[2] is None: t[2]=(str(a),str(b),sorted(r),sorted(want-r))
for k,v in res.items(): print(k, "unsound", v[0], "of", v[1], "first:", v[2])
import sys; sys.exit(1 if any(v[0] for v in res.values()) else 0)
