"""Solver-level face of the same race: SolverVSA (and through it SolverHybrid) answers with a KeyError when
several threads, each on its own solver, evaluate a shared expression that contains an If.
Exits 1 when the defect is present, 0 when absent."""
import sys, threading, claripy

sys.setswitchinterval(1e-6)
x = claripy.BVS("x", 8, explicit_name=True)
e = claripy.If(claripy.ULT(x, 4), claripy.BVV(1, 8), claripy.BVV(2, 8)) + 1

alone = claripy.SolverVSA().max(e)  # the answer when run alone
errors = []
stop = threading.Event()


def worker():
    try:
        for _ in range(30000):
            if stop.is_set():
                return
            s = claripy.SolverVSA()  # this thread's own solver
            assert s.max(e) == alone
    except BaseException as ex:  # noqa: BLE001
        errors.append(repr(ex))
        stop.set()


threads = [threading.Thread(target=worker) for _ in range(4)]
[t.start() for t in threads]
[t.join() for t in threads]
if errors:
    print("DEFECT: SolverVSA.max answered", errors[0], "instead of", alone)
    sys.exit(1)
print("ok")
sys.exit(0)
