"""C08: BV.identical is decided in the VSA domain, where x+1 and x+2 are both TOP."""
import claripy
x = claripy.BVS("x", 8)
print("(x+1).identical(x+2):", (x + 1).identical(x + 2))
raise SystemExit(1 if (x + 1).identical(x + 2) else 0)
