import logging; logging.disable(logging.CRITICAL)
import itertools
from claripy.backends.backend_vsa.strided_interval import StridedInterval as SI
def every(W):
    M=1<<W
    for lb in range(M):
        yield SI(bits=W, stride=0, lower_bound=lb, upper_bound=lb)
        for st in range(1, M):
            for n in range(1, (M - 1) // st + 1):
                yield SI(bits=W, stride=st, lower_bound=lb, upper_bound=(lb + n * st) % M)
res={"const-meet":[0,0,None],"meet":[0,0,None],"solution":[0,0,None]}
for W in (3,4):
    M=1<<W
    S=list(every(W))
    for a in S:
        va=set(a.eval(M+2))
        for v in range(M):
            r=a.solution(v); t=res["solution"]; t[1]+=1
            if r != (v in va):
                t[0]+=1; t[2]=t[2] or (str(a),v,r)
    if W==3:
        for a,b in itertools.product(S,S):
            va,vb=set(a.eval(M+2)),set(b.eval(M+2))
            try: r=set(a.intersection(b).eval(M+2))
            except Exception as e:
                res.setdefault("meet-exc:"+type(e).__name__,[0,0,(str(a),str(b))])[0]+=1; continue
            k="const-meet" if (a.is_integer or b.is_integer) else "meet"
            t=res[k]; t[1]+=1
            if not (va&vb)<=r:
                t[0]+=1; t[2]=t[2] or (str(a),str(b),sorted(r),sorted((va&vb)-r))
for k,v in res.items(): print(k,"wrong",v[0],"of",v[1],"first",v[2])
import sys; sys.exit(1 if any(v[0] for v in res.values()) else 0)
