"""Reproducers for violations of property C01 that the ORIGINAL (unmodified) tree already has.

Every case builds an expression through claripy's public operators and an independent Z3 term from the same
operation sequence, and asks Z3 whether they can differ.  The counter-model is then re-checked by plain Python
integer arithmetic, so the verdict does not rest on Z3 alone.

Exit status: 1 if any case differs (expected on the unmodified tree), 0 if none does.
"""
import sys

import z3

import claripy

BZ = claripy.backends.z3
ctx = BZ._context
W = 8
M = (1 << W) - 1


def sym(name, w=W):
    return claripy.BVS(name, w, explicit_name=True), z3.BitVec(name, w, ctx=ctx)


def differs(c, z):
    s = z3.Solver(ctx=ctx)
    s.add(BZ.convert(c) != z)
    if s.check() == z3.sat:
        return s.model()
    return None


found = []

# ---------------------------------------------------------------------------------------------------------------
# 1. bitwise_xor_simplifier_minmax: the "signed max/min" idiom is recognised without checking that the inner
#    xor  u = s ^ q  has exactly two operands.  With a third operand k (which the flattening of ^ puts into the
#    same node) the idiom is still "recognised" and k is dropped.
# ---------------------------------------------------------------------------------------------------------------
(q, zq), (r, zr), (k, zk) = sym("q"), sym("r"), sym("k")


def idiom(q, r, k):
    s = q - r
    t = q ^ r
    u = (s ^ q) ^ k  # flattened by claripy into one 3-operand xor node
    v = u & t
    w = v ^ s
    x = w >> (W - 1)
    y = x & t
    return q ^ y


c1 = idiom(q, r, k)
m = differs(c1, idiom(zq, zr, zk))
if m is not None:
    qv, rv, kv = (m.eval(v, model_completion=True).as_long() for v in (zq, zr, zk))

    def py_idiom(q, r, k):
        s = (q - r) & M
        t = q ^ r
        u = s ^ q ^ k
        v = u & t
        w = v ^ s
        x = M if w & 0x80 else 0  # arithmetic shift by W-1
        y = x & t
        return q ^ y

    sq = qv - 256 if qv & 0x80 else qv
    sr = rv - 256 if rv & 0x80 else rv
    claripy_says = rv if sq <= sr else qv  # what <if q <=s r then r else q> evaluates to
    found.append(
        f"[1] minmax idiom with a 3-operand xor: built {c1}; at q={qv} r={rv} k={kv} the written tree is "
        f"{py_idiom(qv, rv, kv)} but the built tree is {claripy_says}"
    )

# ---------------------------------------------------------------------------------------------------------------
# 2. eq_simplifier / ne_simplifier:  (m & x ...) ^ m == 0  ->  (x & m) != 0  for single-bit m assumes the inner
#    __and__ has two operands.  (m & x) & y is flattened to one 3-operand node (m, x, y); the rewrite keeps
#    args[1] & args[0] and drops y.
# ---------------------------------------------------------------------------------------------------------------
(x, zx), (y, zy) = sym("x"), sym("y")
for mask in (2, 0x80):
    for name, c, z in (
        ("==", ((mask & x) & y) ^ mask == 0, ((mask & zx) & zy) ^ mask == 0),
        ("!=", ((mask & x) & y) ^ mask != 0, ((mask & zx) & zy) ^ mask != 0),
    ):
        m = differs(c, z)
        if m is not None:
            xv, yv = (m.eval(v, model_completion=True).as_long() for v in (zx, zy))
            lhs = ((mask & xv) & yv) ^ mask
            written = (lhs == 0) if name == "==" else (lhs != 0)
            found.append(
                f"[2] (({mask} & x) & y) ^ {mask} {name} 0 built as {c}; at x={xv} y={yv} the written tree is "
                f"{written}, the built one {not written}"
            )

# ---------------------------------------------------------------------------------------------------------------
# 3. ite_dict: with four or more entries the table is split with an UNSIGNED  i <= split_val  on the keys sorted
#    as Python ints, while the leaves compare  i == key  modulo 2**width.  A negative key (accepted, and working,
#    in the linear form used for < 4 entries) ends up in the wrong half and becomes unreachable.
# ---------------------------------------------------------------------------------------------------------------
(i, zi) = sym("i")
table = {-1: 9, 0: 10, 1: 11, 2: 12}
c3 = claripy.ite_dict(i, {kk: claripy.BVV(vv, W) for kk, vv in table.items()}, claripy.BVV(99, W))
ref = z3.BitVecVal(99, W, ctx=ctx)
for kk, vv in reversed(list(table.items())):
    ref = z3.If(zi == z3.BitVecVal(kk, W, ctx=ctx), z3.BitVecVal(vv, W, ctx=ctx), ref, ctx=ctx)
m = differs(c3, ref)
small = {-1: 9, 0: 10, 1: 11}
c3s = claripy.ite_dict(i, {kk: claripy.BVV(vv, W) for kk, vv in small.items()}, claripy.BVV(99, W))
refs = z3.BitVecVal(99, W, ctx=ctx)
for kk, vv in reversed(list(small.items())):
    refs = z3.If(zi == z3.BitVecVal(kk, W, ctx=ctx), z3.BitVecVal(vv, W, ctx=ctx), refs, ctx=ctx)
if m is not None and differs(c3s, refs) is None:
    iv = m.eval(zi, model_completion=True).as_long()
    found.append(
        f"[3] ite_dict(i, {table}, 99) at i={iv}: entry for -1 is unreachable (result 99, expected 9); the same key "
        f"works in the 3-entry table.  built: {c3}"
    )

# ---------------------------------------------------------------------------------------------------------------
# 4. (robustness) BV.get_bytes with a request that runs past the low end: the negative slice bound is taken as
#    "counted from the top" by __getitem__, so a differently sized, unrelated slice comes back instead of an error.
# ---------------------------------------------------------------------------------------------------------------
x32, _ = sym("x32", 32)
try:
    g = x32.get_bytes(1, 5)
    if g.length != 40:
        found.append(f"[4] x32.get_bytes(1, 5) silently returns {g} ({g.length} bits) instead of 40 bits / an error")
except Exception:  # pylint:disable=broad-except
    pass

if found:
    print(f"{len(found)} pre-existing violations:")
    for f in found:
        print("  " + f)
    sys.exit(1)
print("ok")
