"""Pre-existing C02 violations on the UNMODIFIED tree: eager folding ignores the rounding mode and rounds 64-bit
integers twice on the way to single precision.  Each line: claripy's folded constant vs Z3's value of the same term.
Exits 1 if any differ (it does on the unmodified tree)."""
import struct, sys
import z3, claripy
from claripy.fp import RM, FSORT_DOUBLE, FSORT_FLOAT

ctx = claripy.backends.z3.convert(claripy.FPV(1.0, FSORT_DOUBLE)).ctx
D = lambda v: claripy.FPV(v, FSORT_DOUBLE)
zD = lambda v: z3.FPVal(v, z3.Float64(ctx))
bad = 0

def cmp(label, folded, ref):
    global bad
    assert folded.op == "FPV", folded
    ref = z3.simplify(ref)
    same = z3.simplify(claripy.backends.z3.convert(folded) == ref)  # SMT `=`
    if not z3.is_true(same):
        bad += 1
        print(f"DIFF {label}: claripy folds to {folded.args[0]!r}, Z3 says {ref}")
    else:
        print(f"same {label}")

mx = 1.7976931348623157e308
n = (1 << 62) + (1 << 38) + 1
cmp("fpAdd(RTP, 1.0, 2**-60)", claripy.fpAdd(RM.RM_TowardsPositiveInf, D(1.0), D(2.0**-60)), z3.fpAdd(z3.RTP(ctx), zD(1.0), zD(2.0**-60)))
cmp("fpAdd(RTZ, max, max)", claripy.fpAdd(RM.RM_TowardsZero, D(mx), D(mx)), z3.fpAdd(z3.RTZ(ctx), zD(mx), zD(mx)))
cmp("fpSub(RTN, 1.0, 1.0)", claripy.fpSub(RM.RM_TowardsNegativeInf, D(1.0), D(1.0)), z3.fpSub(z3.RTN(ctx), zD(1.0), zD(1.0)))
cmp("fpToFP(RTZ, 0.1 double, FLOAT)", claripy.fpToFP(RM.RM_TowardsZero, D(0.1), FSORT_FLOAT), z3.fpToFP(z3.RTZ(ctx), zD(0.1), z3.Float32(ctx)))
cmp("fpToFP(RNE, sbv64 2**62+2**38+1, FLOAT)", claripy.fpToFP(RM.RM_NearestTiesEven, claripy.BVV(n, 64), FSORT_FLOAT), z3.fpToFP(z3.RNE(ctx), z3.BitVecVal(n, 64, ctx), z3.Float32(ctx)))
cmp("fpToFPUnsigned(RNE, ubv64 2**62+2**38+1, FLOAT)", claripy.fpToFPUnsigned(RM.RM_NearestTiesEven, claripy.BVV(n, 64), FSORT_FLOAT), z3.fpToFPUnsigned(z3.RNE(ctx), z3.BitVecVal(n, 64, ctx), z3.Float32(ctx)))
sys.exit(1 if bad else 0)
