"""constraint_to_si cut off satisfying assignments of *signed* comparisons (and one equality) over zero / sign
extension, concatenation with zeros, slices and left shifts (C25); fixed by 5fa1312, b38d897, 0043cd3.
Exit 1 if any of them is reported unsatisfiable again."""
import logging
import sys

logging.disable(logging.CRITICAL)
import claripy

x = claripy.SI(name="x", bits=4, stride=1, lower_bound=0, upper_bound=7)
y = claripy.BVS("y", 4)
cases = [
    ("ZeroExt(2, y) >s 7   (y = 8)", claripy.SGT(claripy.ZeroExt(2, y), claripy.BVV(7, 6))),
    ("0 .. y <s 8          (y = 0)", claripy.SLT(claripy.Concat(claripy.BVV(0, 2), y), claripy.BVV(8, 6))),
    ("x[2:0] <s 0          (x = 4)", claripy.SLT(x[2:0], claripy.BVV(0, 3))),
    ("(x << 1) <s 0        (x = 4)", claripy.SLT(x << 1, claripy.BVV(0, 4))),
    ("(x << 1) == 8        (x = 4)", (x << 1) == claripy.BVV(8, 4)),
    ("SignExt(2, x) <s 8   (any x)", claripy.SLT(claripy.SignExt(2, x), claripy.BVV(8, 6))),
]
bad = 0
for name, c in cases:
    sat, _ = claripy.backends.vsa.constraint_to_si(c)
    print(f"{name}: reported {'satisfiable' if sat else 'UNSATISFIABLE'}")
    bad += not sat
sys.exit(1 if bad else 0)
