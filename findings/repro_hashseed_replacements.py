"""Pre-existing: hash-keyed solver state (replacement map) is pickled by AST hash, but AST hashes of FP
expressions depend on PYTHONHASHSEED (FSort.__hash__ / RM enum hash go through str hashing)."""
import os, pickle, subprocess, sys
import claripy

def answers(s, f):
    return [s.eval(f, 3), s.is_true(claripy.fpEQ(f, claripy.FPV(2.5, claripy.FSORT_DOUBLE)))]

if "--child" in sys.argv:
    s, f = pickle.loads(sys.stdin.buffer.read())
    print(repr(answers(s, f)), f.hash())
    sys.exit(0)

f = claripy.FPS("f", claripy.FSORT_DOUBLE, explicit_name=True)
s = claripy.SolverReplacement(claripy.Solver())
s.add_replacement(f, claripy.FPV(2.5, claripy.FSORT_DOUBLE))
want = repr(answers(s, f))
print("parent:", want, f.hash())
blob = pickle.dumps((s, f))
print("in-process:", repr(answers(*pickle.loads(blob))))
bad = 0
for seed in ("0", "1", "2"):
    r = subprocess.run([sys.executable, __file__, "--child"], input=blob, capture_output=True,
                       env=dict(os.environ, PYTHONHASHSEED=seed))
    out = r.stdout.decode().strip()
    print("seed", seed, ":", out, r.stderr.decode()[-300:])
    bad += not out.startswith(want)
sys.exit(1 if bad else 0)
