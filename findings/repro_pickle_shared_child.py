"""Pre-existing (unmodified tree): two SolverComposite objects that share children copy-on-write
(one is a branch of the other) and are pickled in ONE pickle (as the solvers of two states would be)
come back both *owning* the shared child: CompositeFrontend.__setstate__ sets
_owned_solvers = WeakSet(self._solver_list).  An add() on one of them then mutates the child in place,
and the other one changes its answers."""
import pickle
import sys

import claripy

x = claripy.BVS("x", 8)
s1 = claripy.SolverComposite()
s1.add(x > 3)
s2 = s1.branch()

a, b = pickle.loads(pickle.dumps((s1, s2)))
assert a._solver_list[0] is b._solver_list[0]  # shared, as before the pickle

s1.add(x < 2)
a.add(x < 2)

want = (s1.satisfiable(), s2.satisfiable(), sorted(s2.eval(x, 300)) == list(range(4, 256)))
try:
    got = (a.satisfiable(), b.satisfiable(), sorted(b.eval(x, 300)) == list(range(4, 256)))
except claripy.errors.UnsatError:
    got = (a.satisfiable(), b.satisfiable(), "UnsatError")
print("originals :", want)
print("unpickled :", got)
print("constraints the untouched copy holds for x:", len(b._solver_list[0].constraints))
sys.exit(0 if want == got else 1)
