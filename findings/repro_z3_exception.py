"""Pre-existing C17 violation on the unmodified tree: when Z3 reports a resource limit by *raising* Z3Exception from
Solver.check (it does so for "max. memory exceeded" under check-with-assumptions), satisfiable-style operations let the
raw z3.Z3Exception escape instead of raising a claripy error.  eval/batch_eval are fine (their backend entry points are
wrapped by @condom); _satisfiable/_solution are not wrapped.

Part 1 is a real run (Solver(max_memory=30) on a factoring problem, in a child process because Z3's memory limit is
process-wide).  Part 2 is deterministic: Solver.check is made to raise the same exception once.

exit 0: property holds; exit 1: violated.
"""
from __future__ import annotations

import subprocess
import sys

REAL = r'''
import claripy
w = 64
s = claripy.Solver(max_memory=30, timeout=20000)
x = claripy.BVS("x", w); y = claripy.BVS("y", w)
p = 0xfffffffb * 0xffffffef
s.add([x.zero_extend(w) * y.zero_extend(w) == claripy.BVV(p, 2 * w), claripy.UGT(x, 1), claripy.UGT(y, 1), claripy.ULE(x, y)])
try:
    print("returned", s.solution(x, 0xffffffef))
except claripy.ClaripyError as e:
    print("claripy error", type(e).__name__, e)
except Exception as e:
    print("FOREIGN", type(e).__module__ + "." + type(e).__name__, e)
'''

problems = []

if "--no-real" not in sys.argv:
    out = subprocess.run([sys.executable, "-c", REAL], capture_output=True, text=True, timeout=300).stdout.strip()
    print("real run, Solver(max_memory=30).solution(x, v):", out)
    if out.startswith("FOREIGN"):
        problems.append("real memory limit: solution() raised " + out[len("FOREIGN "):])

import z3  # noqa: E402

import claripy  # noqa: E402

_real_check = z3.Solver.check
_fail = [False]


def _check(self, *assumptions):
    if _fail[0]:
        _fail[0] = False
        raise z3.Z3Exception(b"max. memory exceeded")
    return _real_check(self, *assumptions)


z3.Solver.check = _check

for kind in (claripy.Solver, claripy.SolverCacheless, claripy.SolverComposite, claripy.SolverHybrid):
    for op in ("satisfiable", "solution", "min", "max", "eval", "batch_eval", "unsat_core"):
        x = claripy.BVS("x", 8)
        s = kind()
        s.add([claripy.ULT(x, 5)])
        _fail[0] = True
        try:
            if op == "satisfiable":
                r = s.satisfiable()
            elif op == "solution":
                r = s.solution(x, 3)
            elif op == "min":
                r = s.min(x)
            elif op == "max":
                r = s.max(x)
            elif op == "eval":
                r = s.eval(x, 10)
            elif op == "batch_eval":
                r = s.batch_eval([x], 10)
            else:
                r = s.unsat_core()
            if not _fail[0]:
                problems.append(f"{kind.__name__}.{op} returned {r!r} although Z3 gave up")
        except claripy.ClaripyError:
            pass
        except z3.Z3Exception as e:
            problems.append(f"{kind.__name__}.{op} raised z3.Z3Exception({e}) - not a claripy error")
        _fail[0] = False
        # later answers are still right
        if sorted(s.eval(x, 10)) != [0, 1, 2, 3, 4] or s.max(x) != 4:
            problems.append(f"{kind.__name__}: wrong answers after a failed {op}")

if problems:
    print("C17 VIOLATED (unmodified tree):")
    for p in problems:
        print("  ", p)
    sys.exit(1)
print("C17 holds")
sys.exit(0)
