import logging; logging.disable(logging.CRITICAL)
import random, math
from claripy.backends.backend_vsa.strided_interval import StridedInterval as SI
rnd=random.Random(1)
def true_min_common(l1,s1,u1,l2,s2,u2):
    # smallest v >= max(l1,l2) with v≡l1 (s1), v≡l2 (s2), v<=min(u1,u2)
    g=math.gcd(s1,s2)
    if (l2-l1)%g: return None
    # solve l1 + i*s1 ≡ l2 (mod s2)
    m=s2//g
    i0=((l2-l1)//g*pow(s1//g,-1,m))%m if m>1 else 0
    v=l1+i0*s1
    L=s1//g*s2
    lo=max(l1,l2)
    if v<lo: v+=((lo-v+L-1)//L)*L
    return v if v<=min(u1,u2) else None
bad=tot=0; ex=None
for W in (16,32,48,64):
    for _ in range(3000):
        s1=rnd.randrange(1,1<<(W//2)); s2=rnd.randrange(1,1<<(W//2))
        l1=rnd.randrange(0,1<<(W-2)); l2=rnd.randrange(0,1<<(W-2))
        n1=rnd.randrange(1,((1<<W)-1-l1)//s1+1); n2=rnd.randrange(1,((1<<W)-1-l2)//s2+1)
        a=SI(bits=W,stride=s1,lower_bound=l1,upper_bound=l1+n1*s1); b=SI(bits=W,stride=s2,lower_bound=l2,upper_bound=l2+n2*s2)
        want=true_min_common(l1,s1,l1+n1*s1,l2,s2,l2+n2*s2)
        try: got=SI._minimal_common_integer(a,b)
        except Exception as e: got=("EXC",type(e).__name__)
        tot+=1
        if got!=want:
            bad+=1
            if ex is None or W<ex[0]: ex=(W,str(a),str(b),got,want)
    print(W, "wrong so far", bad, "of", tot)
print(ex)
import sys; sys.exit(1 if bad else 0)
