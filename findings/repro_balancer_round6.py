#!/usr/bin/env python
"""
C25: violations that the ORIGINAL (unmodified) tree already shows.  Exit status 1 when at least one of the listed
constraints is mishandled, 0 otherwise.  Every satisfying assignment is enumerated by brute force.
"""

import itertools
import logging
import sys

import claripy

logging.disable(logging.CRITICAL)


def concrete(e, env):
    r = claripy.replace_dict(e, {k.hash(): claripy.BVV(v, len(k)) for k, v in env.items()})
    if isinstance(r, claripy.ast.Bool):
        return claripy.backends.concrete.is_true(r)
    return claripy.backends.concrete.eval(r, 1)[0]


def violations(c, variables):
    sat, repl = claripy.backends.vsa.constraint_to_si(c)
    bounds = [(old, set(claripy.backends.vsa.eval(new, 1 << len(new)))) for old, new in repl]
    n_sat = 0
    out = []
    for vals in itertools.product(*[range(1 << len(v)) for v in variables]):
        env = dict(zip(variables, vals, strict=True))
        if not concrete(c, env):
            continue
        n_sat += 1
        if not sat:
            if not out:
                out.append(f"reported UNSAT, but e.g. {env} satisfies it")
            continue
        for old, allowed in bounds:
            v = concrete(old, env)
            if v not in allowed and not any(o.startswith(f"bound for {old} ") for o in out):
                out.append(
                    f"bound for {old} is {sorted(allowed)[:3]}..{sorted(allowed)[-3:]} ({len(allowed)} values), "
                    f"but {env} satisfies the constraint and gives it the value {v}"
                )
    return n_sat, out


def main():
    x = claripy.BVS("x", 8, explicit_name=True)
    y = claripy.BVS("y", 8, explicit_name=True)
    u = claripy.BVS("u", 4, explicit_name=True)
    w = claripy.BVS("w", 4, explicit_name=True)
    cases = [
        # (A) a constant moved across a strict comparison lands on the extreme value: "never true" is concluded
        ("A1", claripy.UGT(x + 1, 0), [x]),
        ("A2", claripy.ULT(x + 8, 8), [x]),
        ("A3", claripy.UGT(x - 7, 248), [x]),
        ("A4", claripy.SGT(x - 7, 120), [x]),
        ("A5", claripy.ULT(1 - x, 1), [x]),
        # (B) the range assumption (e >= 0 / e <= max) of the outer comparison is balanced through + and - on its own
        ("B1", claripy.ULE(claripy.ZeroExt(8, x) + 1, 100), [x]),
        ("B2", claripy.ULE(claripy.ZeroExt(8, x + 8), 1000), [x]),
        ("B3", claripy.UGT(claripy.ZeroExt(8, x - 8), 1), [x]),
        ("B4", claripy.ULT(x[2:0] - 3, 6), [x]),
        ("B5", claripy.UGE((x + 1)[2:0], 0) if claripy.UGE((x + 1)[2:0], 0).symbolic else claripy.UGE((x + 1)[2:0], 1), [x]),
        # (C) two variables: x - y > 0 is rewritten to x > y
        ("C1", claripy.UGT(u - w, 0), [u, w]),
        # (D) _balance_extract drops an Extract with low > 0 when only the bits above it are known to be zero
        ("D1", claripy.ULE(claripy.LShR(x, 5)[2:1], 1), [x]),
    ]
    failed = 0
    for name, c, vs in cases:
        n_sat, out = violations(c, vs)
        status = "VIOLATION" if out else "ok"
        print(f"[{name}] {c}: {n_sat} satisfying assignments -> {status}")
        for o in out:
            print("        ", o)
        failed += bool(out)

    # what it means for the solvers: the approximate side of a hybrid solver loses feasible values
    s = claripy.SolverHybrid()
    s.add(claripy.ULE(claripy.ZeroExt(8, x + 8), 1000))  # true for every x
    approx = sorted(s.eval(x, 300, exact=False))
    exact = sorted(s.eval(x, 300))
    print(f"[H1] SolverHybrid + (0#8 .. x + 8) <= 1000: exact eval gives {len(exact)} values, exact=False gives {approx}")
    failed += set(exact) - set(approx) != set()

    print(f"{failed} failing cases")
    return 1 if failed else 0


if __name__ == "__main__":
    sys.exit(main())
