"""least_upper_bound of three or more distinct constants lost operands before the fix (C21/C24: the join is not an
over-approximation).  Exit 1 if any operand is missing from the join."""
import itertools
import sys

from claripy.backends.backend_vsa.strided_interval import StridedInterval as SI


def mk(v, w=8):
    return SI(bits=w, stride=0, lower_bound=v, upper_bound=v)


bad = 0
for a, b, c in itertools.product(range(0, 256, 7), range(1, 256, 5), range(2, 256, 11)):
    if len({a, b, c}) < 3:
        continue
    r = SI.least_upper_bound(mk(a), mk(b), mk(c))
    vals = set(r.eval(1000))
    for v in (a, b, c):
        if v not in vals:
            bad += 1
            if bad < 5:
                print("UNSOUND join of", a, b, c, "->", r, "does not contain", v)
print("unsound joins:", bad)
sys.exit(1 if bad else 0)
