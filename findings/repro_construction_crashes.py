"""
C04 violations of the UNMODIFIED tree (see PREEXISTING.md).

Every case builds one well-typed expression through public constructors/operators.  C04 allows an expression or
a claripy error for division by zero / byte-reversal of a non-byte width / an unsupported float sort.  Anything
else that comes out is reported.  Exit status 1 if at least one case violates C04, 0 otherwise.
"""

from __future__ import annotations

import sys

import claripy
from claripy.errors import ClaripyError, ClaripyZeroDivisionError
from claripy.fp import FSORT_DOUBLE, RM


def deep_chain(depth):
    x = claripy.BVS("x", 32)
    y = x
    for i in range(depth):
        y = ~(y & claripy.BVV(0xFFFF00FF | (i << 8), 32))  # every level is kept: different masks, '~' in between
    return y


CASES = {
    # 1. the empty strided interval ESI(n) is a BVV whose value is None; the eager concrete fold computes with it
    "ESI(32) + 1": lambda: claripy.ESI(32) + 1,
    "~ESI(32)": lambda: ~claripy.ESI(32),
    "ESI(32) < 1": lambda: claripy.ESI(32) < 1,
    "ESI(32)[7:0]": lambda: claripy.ESI(32)[7:0],
    "Concat(ESI(8), ESI(8))": lambda: claripy.Concat(claripy.ESI(8), claripy.ESI(8)),
    "(x & ESI(32)) == 5": lambda: (claripy.BVS("x", 32) & claripy.ESI(32)) == 5,
    # 2. integer -> float conversion of a constant beyond the double range: float(int) overflows
    "fpToFPUnsigned(RNE, BVV(2**1024, 1025), DOUBLE)": lambda: claripy.fpToFPUnsigned(
        RM.RM_NearestTiesEven, claripy.BVV(1 << 1024, 1025), FSORT_DOUBLE
    ),
    "BVV(2**1030, 1040).val_to_fp(DOUBLE)": lambda: claripy.BVV(1 << 1030, 1040).val_to_fp(FSORT_DOUBLE),
    # 3. str.to_int of a long digit string: int() refuses more than 4300 digits since Python 3.11
    "StrToInt('1' * 4301)": lambda: claripy.StrToInt(claripy.StringV("1" * 4301)),
    # 4. a string constant with a lone surrogate (a code point Z3 strings can hold and models can return)
    "StringV(chr(0xD800))": lambda: claripy.StringV(chr(0xD800)),
    # 5. Extract distributes over ~ and & recursively: a 200-level chain exhausts the Python stack
    "deep_chain(200)[7:0]": lambda: deep_chain(200)[7:0],
    # 6. Or() without operands (And() gives True, Concat() gives the empty bitvector)
    "Or()": lambda: claripy.Or(),
}


def allowed(ex: BaseException) -> bool:
    if isinstance(ex, ClaripyZeroDivisionError):
        return True
    if isinstance(ex, ClaripyError):
        msg = str(ex)
        return "reverse" in msg or "float sort" in msg or "FSort" in msg
    return False


def main() -> int:
    violations = 0
    for label, build in CASES.items():
        try:
            r = build()
        except BaseException as ex:  # pylint:disable=broad-except
            if allowed(ex):
                print(f"ok    {label}: documented error {type(ex).__name__}")
                continue
            violations += 1
            print(f"FAIL  {label}: raised {type(ex).__name__}: {str(ex)[:90]}")
            continue
        print(f"ok    {label}: {str(r)[:70]}")
    print(f"{violations} of {len(CASES)} cases violate C04")
    return 1 if violations else 0


if __name__ == "__main__":
    sys.exit(main())
