"""Reproducer for violations of C10 on the ORIGINAL tree: the VSA-backed solvers (SolverVSA, SolverHybrid with
exact=False, SolverReplacement over SolverVSA) claim truth values that do not hold.
Exits 1 when a violation is observed, 0 otherwise."""

import sys

import claripy


def oracle(e):
    """(valid, unsatisfiable) according to Z3, through a fresh cacheless solver."""
    s = claripy.SolverCacheless()
    return not s.satisfiable(extra_constraints=(claripy.Not(e),)), not s.satisfiable(extra_constraints=(e,))


x = claripy.BVS("x", 4)
y = claripy.BVS("y", 4)
zero = claripy.BVV(0, 4)

cases = {
    # A. == / != between two Booleans: BoolResult.__eq__ compares the abstract values structurally
    "A1 (x <= 3) == (y <= 3)": claripy.ULE(x, 3) == claripy.ULE(y, 3),
    "A2 (x <= 3) != (y <= 3)": claripy.ULE(x, 3) != claripy.ULE(y, 3),
    "A3 (x == y) == (x != y)": (x == y) == (x != y),
    "A4 (x != y) != False": (x != y) != claripy.false(),
    "A5 (x == 0) == True": (x == 0) == claripy.true(),
    # B. division by zero: Z3 (and so every model of a solver) has x / 0 == 0b1111 and x % 0 == x
    "B1 x / 0 != 15": x // zero != 15,
    "B2 y % 0 != y": (y % zero) != y,
    "B3 x % y == 15": x % y == 15,
}

bad = 0
for name, e in cases.items():
    valid, unsat = oracle(e)
    for sname, s, kw in (
        ("SolverVSA", claripy.SolverVSA(), {}),
        ("SolverHybrid(exact=False)", claripy.SolverHybrid(), {"exact": False}),
        ("SolverReplacement(SolverVSA)", claripy.SolverReplacement(claripy.SolverVSA()), {}),
    ):
        t, f = s.is_true(e, **kw), s.is_false(e, **kw)
        if (t and not valid) or (f and not unsat):
            bad += 1
            print(f"VIOLATION {name:26} {sname:30} is_true={t!s:5} is_false={f!s:5} but valid={valid} unsat={unsat}")
    # the exact solver, for comparison
    h = claripy.SolverHybrid()
    assert not (h.is_true(e) and not valid) and not (h.is_false(e) and not unsat)

print(f"{bad} wrong truth value(s)")
sys.exit(1 if bad else 0)
