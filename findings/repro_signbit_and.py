"""x & sign-bit over strided intervals must contain every member-wise result (C21); exhaustive at 2..4 bits."""
import itertools, sys
from claripy.backends.backend_vsa.strided_interval import StridedInterval as SI
def every(W):
    M=1<<W
    for lb in range(M):
        yield SI(bits=W, stride=0, lower_bound=lb, upper_bound=lb)
        for st in range(1, M):
            for n in range(1, (M - 1) // st + 1):
                yield SI(bits=W, stride=st, lower_bound=lb, upper_bound=(lb + n * st) % M)
tot=bad=0
for W in (2,3,4):
    M=1<<W
    S=list(every(W))
    sign=SI(bits=W,stride=0,lower_bound=M>>1,upper_bound=M>>1)
    for b in S:
        for x,y in ((sign,b),(b,sign)):
            r=set(x.bitwise_and(y).eval(M+2)); tot+=1
            want={v & (M>>1) for v in b.eval(M+2)}
            if not want<=r:
                bad+=1
                if bad<6: print("UNSOUND", x,"&",y,"->",sorted(r),"missing",sorted(want-r))
print("signbit-and unsound:",bad,"of",tot)
sys.exit(1 if bad else 0)
