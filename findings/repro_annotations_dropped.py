"""C07: shortcut paths that drop a sub-expression carrying a non-eliminatable, non-relocatable annotation."""
import claripy


class Keep(claripy.Annotation):
    eliminatable = False
    relocatable = False

    def __init__(self, n):
        self.n = n

    def __repr__(self):
        return f"Keep({self.n})"


def annos(e):
    out = set()
    todo = [e]
    while todo:
        a = todo.pop()
        if isinstance(a, claripy.ast.Base):
            out |= {x for x in a.annotations if isinstance(x, Keep)}
            todo += list(a.args)
    return out


x = claripy.BVS("x", 8)
y = claripy.BVS("y", 8)
c = claripy.BoolS("c")
k = claripy.BVS("k", 8).annotate(Keep("k"))
ck = claripy.BoolS("ck").annotate(Keep("ck"))
cases = {
    "If(true, x, k)": lambda: claripy.If(claripy.true(), x, k),
    "If(false, k, x)": lambda: claripy.If(claripy.false(), k, x),
    "If(ck, x, x)": lambda: claripy.If(ck, x, x),
    "If(c, If(c, x, k), y)": lambda: claripy.If(c, claripy.If(c, x, k), y),
    "If(c, If(!c, k, x), y)": lambda: claripy.If(c, claripy.If(claripy.Not(c), k, x), y),
    "If(c, y, If(c, k, x))": lambda: claripy.If(c, y, claripy.If(c, k, x)),
    "If(c, y, If(!c, x, k))": lambda: claripy.If(c, y, claripy.If(claripy.Not(c), x, k)),
    "excavate_ite(x & ones_k)": lambda: claripy.excavate_ite(x & claripy.BVV(0xFF, 8).annotate(Keep("k"))),
}
bad = 0
for name, build in cases.items():
    e = build()
    lost = not annos(e)
    bad += lost
    print(f"{name:28} -> {e}   annotation {'LOST' if lost else 'kept'}")
raise SystemExit(1 if bad else 0)
