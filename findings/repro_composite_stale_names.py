"""Reproducers for violations of C12 that the ORIGINAL (unmodified) tree already has.

Each check builds a SolverComposite by a short history, asks it something, and compares with a fresh
monolithic claripy.Solver holding the same constraints.  Exit status 1 if any check disagrees.
"""
import sys

import claripy

W = 8
failures = []


def ref_sat(cons):
    s = claripy.Solver()
    s.add(cons)
    return s.satisfiable()


def check(name, ok, detail):
    print(("ok   " if ok else "FAIL ") + name + ("" if ok else ": " + detail))
    if not ok:
        failures.append(name)


# 1. merge() forgets that a common child was never checked ------------------------------------------------------------
x, y = claripy.BVS("x", W), claripy.BVS("y", W)
s = claripy.SolverComposite()
s.add(x * x == 3)  # unsatisfiable (3 is not a square mod 256), nobody has asked yet
b = s.branch()
_, m = s.merge([b], [y == 0, y == 1])
want = ref_sat([claripy.Or(claripy.And(y == 0, x * x == 3), claripy.And(y == 1, x * x == 3))])
got = m.satisfiable()
check("merge keeps pending checks of common children", got == want, f"merged.satisfiable()={got}, monolithic={want}")

# 2. combine() drops the concrete-False flag ---------------------------------------------------------------------------
x, y = claripy.BVS("x", W), claripy.BVS("y", W)
s = claripy.SolverComposite()
s.add(x > 3)
s.add(claripy.false())
o = claripy.SolverComposite()
o.add(y > 3)
got = s.combine([o]).satisfiable()
m1, m2 = claripy.Solver(), claripy.Solver()
m1.add(x > 3)
m1.add(claripy.false())
m2.add(y > 3)
want = m1.combine([m2]).satisfiable()
check("combine keeps a concrete False", got == want, f"combined.satisfiable()={got}, monolithic={want}")

# 3. merge() of alternatives that are all unsatisfiable by a variable-free False -------------------------------------
x, y = claripy.BVS("x", W), claripy.BVS("y", W)
s = claripy.SolverComposite()
s.add(x > 3)
s.add(claripy.false())
b = s.branch()
_, m = s.merge([b], [y == 0, y == 1])
got = m.satisfiable()
check("merge of two unsat (concrete False) alternatives is unsat", got is False, f"merged.satisfiable()={got}, constraints={m.constraints}")

# 3b. same, the False being in a child (a constraint that simplified to False) ----------------------------------------
x, y = claripy.BVS("x", W), claripy.BVS("y", W)
s = claripy.SolverComposite()
s.add(claripy.SLT(x, x))
s.simplify()
b = s.branch()
b.add(y > 3)  # so that the child is not common to both
s.add(y > 4)
import pickle

b = pickle.loads(pickle.dumps(b))  # no common children at all
_, m = s.merge([b], [y == 5, y == 6])
got = m.satisfiable()
check("merge of two alternatives with a False child is unsat", got is False, f"merged.satisfiable()={got}, constraints={m.constraints}")


# 4. merge() rebuilds the name->child map from child.variables: a stale name steals a variable ---------------------
def attempt(i):
    v0, v2, v4, mm = (claripy.BVS(f"{n}{i}", 3, explicit_name=True) for n in ("a", "b", "c", "m"))
    s = claripy.SolverComposite()
    s.add(claripy.UGT(v0, 1))
    s.add(claripy.SGE(v2 & v4, claripy.BVV(4, 3)))  # always true (4 is the least signed value), child {b, c}
    s.simplify()  # ... becomes True, the child still lists b and c as its variables
    s.add(claripy.SLT(v0 & v2, 0))  # children {a} and {b, c} combine into a new {a, b}; c still maps to the old one
    b = s.branch()
    _, mg = s.merge([b], [mm == 0, mm == 1])
    return sorted(mg.eval(v2, 8))


bad = None
for i in range(40):
    junk = [object() for _ in range(i * 7)]  # perturb addresses: the order in question is a set of id()s
    r = attempt(i)
    if r != [4, 5, 6, 7]:
        bad = (i, r)
        break
check("merge keeps the name->child map (stale variable names)", bad is None, f"attempt {bad and bad[0]}: merged.eval(b, 8) = {bad and bad[1]}, expected [4, 5, 6, 7]")



# 5. no merge, no branch: a superseded child that is still reachable through a stale name is split again by
#    simplify() (eval(e, n > 1) simplifies first) and its pieces take the names back from the current child ----------
def attempt5(i):
    x, y, u, w = (claripy.BVS(f"{n}{i}", 3, explicit_name=True) for n in ("x", "y", "u", "w"))
    s = claripy.SolverComposite()
    s.add(claripy.SGE(x & u & w, claripy.BVV(4, 3)))  # always true; makes one child A = {x, u, w}
    s.simplify()  # ... it becomes True, A keeps listing x, u, w
    s.add(claripy.UGT(x, 2))  # goes to A
    s.add(claripy.UGT(u, 3))  # goes to A (A would now split in two, and is not simplified)
    s.add(claripy.ULT(y, 3))  # child Y
    s.add(x != y)  # A and Y combine into B = {x, u, y}; the name w still maps to A
    s.add(claripy.ULT(x, 5))  # goes to B only
    mono = claripy.Solver()
    mono.add(s.constraints)
    want = sorted(mono.eval(x, 8))
    assert want == [3, 4], want
    return sorted(s.eval(x, 8))


bad = None
for i in range(30):
    r = attempt5(i)
    if r != [3, 4]:
        bad = (i, r)
        break
check("a superseded child is not split again over the current one (add/simplify/eval only)", bad is None, f"attempt {bad and bad[0]}: eval(x, 8) = {bad and bad[1]}, expected [3, 4]")

# 6. the cache of combined children (CompositedCacheMixin) keeps an entry whose transitive closure has changed: a child
#    that still lists a name it no longer constrains is taken from the cache and stored again, and takes that name
#    away from the child that does constrain it (deterministic) ---------------------------------------------------------
x, y, z = (claripy.BVS(n, 3, explicit_name=True) for n in ("x6", "y6", "z6"))
s = claripy.SolverComposite()
s.add(claripy.SGE(x & y, claripy.BVV(4, 3)))  # always true; child A = {x, y}
s.simplify()  # ... becomes True; A keeps listing x and y
s.eval(x, 1)  # caches {x} -> A
s.add(claripy.UGT(z, 1))  # child Z
s.add(claripy.UGT(y, z))  # A and Z combine into B = {y, z}; x still maps to A; the cache entry {x} -> A survives
s.add(claripy.ULT(x, 3))  # A from the cache, copied, stored under x AND y
mono = claripy.Solver()
mono.add(s.constraints)
want = sorted(mono.eval(y, 8))
got = sorted(s.eval(y, 8))
check("a name is not taken away from the child that constrains it (stale cache entry)", got == want, f"eval(y, 8) = {got}, monolithic {want}; satisfiable(y == 0) = {s.satisfiable(extra_constraints=[y == 0])}")

# 7. satisfiable(), pickle round trip, eval(x, 2): the piece [x == 1] split off by simplify() is marked exhausted by the
#    trivial-model shortcut but split() replaces its models by the (empty, after unpickling) models of the parent -----
x, y = claripy.BVS("x7", 8, explicit_name=True), claripy.BVS("y7", 8, explicit_name=True)
c = claripy.Not(claripy.Or(x != 1, claripy.ULE(y, 2)))  # simplifies to x == 1 && y > 2
s = claripy.SolverComposite()
s.add(c)
assert s.satisfiable()
s = pickle.loads(pickle.dumps(s))
mono = claripy.Solver()
mono.add(c)
mono = pickle.loads(pickle.dumps(mono))
want = mono.eval(x, 2)
try:
    got = s.eval(x, 2)
except Exception as ex:  # noqa: BLE001
    got = f"{type(ex).__name__}({ex})"
try:
    got2 = s.max(x)
except Exception as ex:  # noqa: BLE001
    got2 = f"{type(ex).__name__}({ex})"
check("eval after satisfiable() and a pickle round trip", got == want and got2 == 1, f"eval(x, 2) = {got}, then max(x) = {got2}; monolithic {want} and 1")

sys.exit(1 if failures else 0)

