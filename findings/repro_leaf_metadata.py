"""Reproducers for C05 violations that are present in the UNMODIFIED tree.  exit 1 = violation shown."""
import sys

import claripy


class E(claripy.Annotation):
    """a plain (eliminatable, non-relocatable) annotation"""


bad = 0

# 1. a symbol that comes out of Extract-over-bitwise-op simplification with no variables, reported concrete
z = claripy.BVS("z", 8)
w = claripy.BVS("w", 8)
y = claripy.BVS("y", 8).annotate(E())  # the un-annotated y is not kept alive by anybody
val = claripy.Concat(z, claripy.BVV(0, 8)) | claripy.Concat(w, y)
r = val[7:0]
print("1:", r, "op", r.op, "variables", set(r.variables), "symbolic", r.symbolic)
if r.op == "BVS" and (not r.variables or not r.symbolic):
    print("   VIOLATION: a BVS node with an empty variable set that is reported concrete")
    s = claripy.Solver()
    s.add(r == 3)
    print("   solver.variables after adding r == 3:", s.variables)
    bad = 1

# 2. replace() with a replacement of another width keeps the parent's stale width
x8 = claripy.BVS("x8", 8)
y8 = claripy.BVS("y8", 8)
z16 = claripy.BVS("z16", 16)
c = claripy.replace(claripy.Concat(x8, y8), x8, z16)
zw = claripy.backends.z3.convert(c).size()
print("2:", c, "reports width", c.length, "- its Z3 term has width", zw)
if c.length != zw:
    print("   VIOLATION: stale width copied by Bits.make_like")
    bad = 1

sys.exit(bad)
