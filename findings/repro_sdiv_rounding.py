"""StridedInterval.sdiv rounds mixed-sign quotients towards minus infinity (Python //) although signed bit-vector
division rounds towards zero: the largest quotient is missing whenever the division is not exact (C21).
Exit 1 while it reproduces."""
import logging
import sys

logging.disable(logging.CRITICAL)
import claripy
from claripy.backends.backend_vsa.strided_interval import StridedInterval as SI

a = SI(bits=4, stride=2, lower_bound=3, upper_bound=9)  # {3, 5, 7, 9}; 9 is -7
b = SI(bits=4, stride=2, lower_bound=1, upper_bound=3)  # {1, 3}
r = a.sdiv(b)
vals = set(r.eval(40))
x, y = claripy.BVV(9, 4), claripy.BVV(3, 4)
q = claripy.backends.concrete.convert(claripy.SDiv(x, y)).value
print(f"{a} sdiv {b} = {r}; the concrete backend gives SDiv(9, 3) = {q} at 4 bits (-7 / 3 = -2 = 0xe); contained: {q in vals}")
sys.exit(0 if q in vals else 1)
