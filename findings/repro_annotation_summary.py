"""Reproducers for C07 violations present in the UNMODIFIED tree (exit 1 = violated)."""
import sys

import claripy


class Plain(claripy.Annotation):
    pass


class NonElim(claripy.Annotation):
    eliminatable = False
    relocatable = False

    def __repr__(self):
        return "<NonElim>"


class Reloc(claripy.Annotation):
    eliminatable = False
    relocatable = True

    def __repr__(self):
        return "<Reloc>"


def reachable(e):
    s = set(e.annotations)
    for c in e.children_asts():
        s |= set(c.annotations)
    return s


bad = []

# P1: (re-)annotating an inner node forgets the non-eliminatable annotations inherited from its children
b = NonElim()
x = claripy.BVS("x", 32).annotate(b)
y = x + 1
assert y._uneliminatable_annotations == {b}
ya = y.annotate(Plain())
if b not in ya._uneliminatable_annotations:
    bad.append(f"P1a: (x<B> + 1).annotate(Plain)._uneliminatable_annotations == {set(ya._uneliminatable_annotations)}")
z = ya ^ ya
if b not in reachable(z):
    bad.append(f"P1b: ya ^ ya was rewritten to {z!r}; <NonElim> on x is gone (y ^ y without the extra annotation is kept: {y ^ y!r})")

# P2: Extract of one whole part of an annotated Concat skips annotation handling altogether
for anno in (NonElim(), Reloc()):
    c = claripy.Concat(claripy.BVS("p", 8), claripy.BVS("q", 8)).annotate(anno)
    e = c[7:0]
    if anno not in reachable(e):
        bad.append(f"P2: Concat(p, q).annotate({anno!r})[7:0] was rewritten to {e!r} with annotations {e.annotations}")
    e2 = c[6:0]  # not a whole part: goes through _handle_annotations
    if anno not in reachable(e2):
        bad.append(f"P2': Concat(p, q).annotate({anno!r})[6:0] -> {e2!r} with annotations {e2.annotations}")

for line in bad:
    print(line)
sys.exit(1 if bad else 0)
