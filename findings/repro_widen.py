"""StridedInterval.widen does not contain its operands (C22).  Three separate mechanisms, all in the same routine:
  1. both bounds widened: lower() answers on the signed line, upper() on the unsigned one, the pair spans more than
     2**w values and is reduced to an arc that contains neither operand:  5 widen [0, 10]  ->  [0x80000000, 0xffffffff]
  2. the stride ignores the phase of the second operand:  0 widen <4>2[1, 3]  ->  <4>2[0, 14]   (1 and 3 are lost)
  3. a single moved bound lands past the other one on the circle:  [9, 10] widen [1, 10]  ->  [8, 10]
Exit 1 while any of them reproduces."""
import itertools
import sys

import claripy
from claripy.backends.backend_vsa.strided_interval import StridedInterval as SI

bad = 0
w = claripy.backends.vsa.convert(claripy.widen(claripy.BVV(5, 32), claripy.SI(bits=32, stride=1, lower_bound=0, upper_bound=10)))
print("5 widen [0,10] =", w, "contains 5:", w.solution(5), "contains 0:", w.solution(0))
bad += not (w.solution(5) and w.solution(0))

W, M = 4, 16


def every():
    for lb in range(M):
        yield SI(bits=W, stride=0, lower_bound=lb, upper_bound=lb)
        for st in range(1, M):
            for n in range(1, (M - 1) // st + 1):
                yield SI(bits=W, stride=st, lower_bound=lb, upper_bound=(lb + n * st) % M)


S = list(every())
unsound = total = 0
for a, b in itertools.product(S, S):
    va, vb = set(a.eval(M + 2)), set(b.eval(M + 2))
    if not va <= vb:
        continue  # the usual calling convention: old.widen(old U new)
    total += 1
    r = set(a.widen(b).eval(M + 2))
    if not vb <= r:
        unsound += 1
print(f"4 bits, a subset of b: {unsound} of {total} widenings do not contain b")
sys.exit(1 if bad or unsound else 0)
