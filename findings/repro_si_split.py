import logging; logging.disable(logging.CRITICAL)
from claripy.backends.backend_vsa.strided_interval import StridedInterval as SI
def every(W):
    M=1<<W
    for lb in range(M):
        yield SI(bits=W, stride=0, lower_bound=lb, upper_bound=lb)
        for st in range(1, M):
            for n in range(1, (M - 1) // st + 1):
                yield SI(bits=W, stride=st, lower_bound=lb, upper_bound=(lb + n * st) % M)
bad={"n":0,"s":0,"p":0}; tot=0; first={}
for W in (2,3,4,5):
    M=1<<W
    for a in every(W):
        va=set(a.eval(M+2)); tot+=1
        for k,f in (("n",a._nsplit),("s",a._ssplit),("p",a._psplit)):
            try: ps=f()
            except RecursionError: bad[k]+=1; first.setdefault(k,(str(a),"recursion")); continue
            u=set()
            for p in ps: u|=set(p.eval(M+2))
            ok = u==va
            for p in ps:
                vals=sorted(p.eval(M+2))
                if k in ("n","p") and any(v<M//2 for v in vals) and any(v>=M//2 for v in vals) and p.lower_bound<=M//2-1 and not (p.lower_bound<=p.upper_bound and p.upper_bound<M//2): 
                    # piece contains both halves: must not cross north pole going upward from lb
                    walk=[(p.lower_bound+i*max(p.stride,1))%M for i in range(len(vals))]
                    cross=any(walk[i]<M//2<=walk[i+1] for i in range(len(walk)-1))
                    ok = ok and not cross
            if not ok:
                bad[k]+=1; first.setdefault(k,(str(a),[str(p) for p in ps]))
print(bad, tot, first)
import sys; sys.exit(1 if any(bad.values()) else 0)
