"""Four rewrites of simplifications.py that were identities only under a side condition nobody checked (C01).
Exit 1 if any of them still changes the value of the expression."""
import sys

import claripy

s = claripy.Solver()
bad = 0


def value(e, *cs):
    return s.eval(e, 1, extra_constraints=list(cs))[0]


x = claripy.BVS("x", 8)
e = (x << 255) << 1
v = value(e, x == 1)
print("(x << 255) << 1 at 8 bits with x = 1:", e, "->", v, "(expected 0)")
bad += v != 0

y = claripy.BVS("y", 8)
e = ((y & 3) ^ 3) == 0
v = value(e, y == 1)
print("((y & 3) ^ 3) == 0 with y = 1:", e, "->", v, "(expected False)")
bad += v is not False

c = claripy.BoolS("c")
e = ~claripy.If(c, claripy.BVV(1, 8), claripy.BVV(0, 8))
v = value(e, c)
print("~If(c, 1, 0) at 8 bits with c:", e, "->", hex(v), "(expected 0xfe)")
bad += v != 0xFE

A = claripy.BVS("A", 64)
e = ((A << 16) | claripy.LShR(A, 16)) & claripy.BVV(0xFFFF0000, 64)
v = value(e, A == 0x0000123400000000)
print("((A << 16) | LShR(A, 16)) & 0xffff0000 at 64 bits:", e, "->", hex(v), "(expected 0x12340000)")
bad += v != 0x12340000
sys.exit(1 if bad else 0)
