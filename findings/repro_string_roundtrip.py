"""C09: Solver.simplify() raises ClaripyError on string operators claripy itself built
(the Z3 kinds they translate to have no entry in op_map)."""
import claripy

s, t = claripy.StringS("s"), claripy.StringS("t")
A, B = claripy.StringV("a"), claripy.StringV("b")
tests = {
    "StrConcat": claripy.StrConcat(s, t) == claripy.StringV("ab"),
    "StrLen": claripy.StrLen(s) == 3,
    "StrContains": claripy.StrContains(s, A),
    "StrIndexOf": claripy.StrIndexOf(s, A, claripy.BVV(0, 64)) == 1,
    "StrPrefixOf": claripy.StrPrefixOf(A, s),
    "StrSuffixOf": claripy.StrSuffixOf(A, s),
    "StrReplace": claripy.StrReplace(s, A, B) == B,
    "StrSubstr": claripy.StrSubstr(claripy.BVV(0, 64), claripy.BVV(1, 64), s) == B,
    "StrToInt": claripy.StrToInt(s) == 5,
    "IntToStr": claripy.IntToStr(claripy.BVS("i", 64)) == claripy.StringV("5"),
}
bad = 0
for k, e in tests.items():
    sol = claripy.Solver()
    sol.add(e)
    try:
        sol.simplify()
        print(k, "simplify ok")
    except claripy.errors.ClaripyError as ex:
        bad += 1
        print(k, type(ex).__name__, ex)
raise SystemExit(1 if bad else 0)
