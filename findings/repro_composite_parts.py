"""
Violations of property C15 (merge / combine / split have exactly their documented meaning) that the ORIGINAL,
unmodified code already shows.  Every case is independent; the script prints one line per case and exits 1 if any
case is violated (that is what happens on the unmodified tree), 0 if none is.

Run:  cd /tmp/wt_C15 && PYTHONPATH=/tmp/wt_C15 /venv/bin/python preexisting_C15.py
(the uncommitted seeded change in the worktree does not touch any of these paths; to run against a pristine export
 of HEAD use:  cp preexisting_C15.py orig/ && /venv/bin/python orig/preexisting_C15.py)
"""
from __future__ import annotations

import sys

import claripy

W = 4
x = claripy.BVS("x", W, explicit_name=True)
y = claripy.BVS("y", W, explicit_name=True)
z = claripy.BVS("z", W, explicit_name=True)
b = claripy.BVS("b", W, explicit_name=True)
m = claripy.BVS("m", 2, explicit_name=True)

RESULTS = []


def case(name):
    def deco(f):
        try:
            problem = f()
        except Exception as e:  # pylint:disable=broad-except
            problem = f"unexpected {type(e).__name__}: {e}"
        RESULTS.append((name, problem))
        print(("VIOLATED  " if problem else "ok        ") + name + (f"\n            {problem}" if problem else ""))
        return f

    return deco


def z3_sat(constraints):
    s = claripy.SolverCacheless()
    s.add(list(constraints))
    return s.satisfiable()


@case("P1 composite merge of solvers that are all unsatisfiable by a concrete False")
def _():
    s1, s2 = claripy.SolverComposite(), claripy.SolverComposite()
    s1.add(claripy.false())
    s2.add(claripy.false())
    assert not s1.satisfiable() and not s2.satisfiable()
    _, merged = s1.merge([s2], [m == 0, m == 1])
    # specification: (m==0 AND False) OR (m==1 AND False) has no model
    if merged.satisfiable():
        return f"merged solver is satisfiable, constraints={merged.constraints}, m in {sorted(merged.eval(m, 8))}"
    return None


@case("P2 composite merge whose disjunction is concretely False (all merge conditions False)")
def _():
    s1, s2 = claripy.SolverComposite(), claripy.SolverComposite()
    s1.add(x == 1)
    s2.add(y == 1)
    _, merged = s1.merge([s2], [claripy.false(), claripy.false()])
    ref = claripy.Solver()
    t = claripy.Solver()
    ref.add(x == 1)
    t.add(y == 1)
    _, ref_merged = ref.merge([t], [claripy.false(), claripy.false()])
    assert not ref_merged.satisfiable()  # Solver gets it right
    if merged.satisfiable():
        return f"merged SolverComposite is satisfiable with constraints={merged.constraints}; Solver's merge is unsat"
    return None


@case("P3 composite combine forgets a concrete False (the _unsat flag) of a combined solver")
def _():
    dead = claripy.SolverComposite()
    dead.add([x == 1, claripy.false()])
    live = claripy.SolverComposite()
    live.add(y == 2)
    assert not dead.satisfiable()
    problems = []
    for first, rest, label in ((dead, [live], "dead.combine([live])"), (live, [dead], "live.combine([dead])")):
        c = first.combine(rest)
        if c.satisfiable():
            problems.append(f"{label} is satisfiable, constraints={c.constraints}")
    return "; ".join(problems) or None


@case("P4 split() of a solver that was never solved: the part `v == const` answers eval(v) with no value at all")
def _():
    problems = []
    for cls in (claripy.Solver, claripy.solvers.SolverCompositeChild, claripy.SolverHybrid):
        s = cls()
        s.add([x == 5, y == 3])  # two at once: no trivial model is recorded for s itself
        for part in s.split():
            for v, want in ((x, 5), (y, 3)):
                if v.variables <= part.variables:
                    got = tuple(part.eval(v, 1))
                    if got != (want,):
                        problems.append(f"{cls.__name__}: part {part.constraints}: eval({v.args[0]}, 1) == {got!r}")
    return "; ".join(problems) or None


@case("P5 composite simplify() drops a variable -> stale child; split() parts share variables / repeat conjuncts")
def _():
    s = claripy.SolverComposite()
    s.add([x * 0 == y, claripy.ULT(z, y + 3)])  # simplifies to y == 0, z < 3: x disappears
    s.simplify()
    parts = s.split()
    seen, shared = set(), set()
    for p in parts:
        shared |= seen & set(p.variables)
        seen |= set(p.variables)
    conjuncts = [c for p in parts for c in p.constraints]
    twice = {str(c) for c in conjuncts if sum(1 for d in conjuncts if d is c) > 1}
    if shared or twice:
        return (
            f"{len(parts)} parts {[(sorted(p.variables), p.constraints) for p in parts]}: "
            f"variables in more than one part: {sorted(shared)}; conjuncts in more than one part: {sorted(twice)}"
        )
    return None


@case("P6 composite merge: an unsatisfiable child shared by all merged solvers is never checked in the result")
def _():
    base = claripy.SolverComposite()
    base.add([claripy.UGT(x, 5), claripy.ULT(x, 3)])  # unsat, but nobody asked yet
    s0, s1 = base.branch(), base.branch()
    s0.add(b == 1)
    s1.add(b == 2)
    _, merged = s0.merge([s1], [m == 0, m == 1])
    spec_sat = z3_sat([claripy.Or(claripy.And(m == 0, *s0.constraints), claripy.And(m == 1, *s1.constraints))])
    assert spec_sat is False
    got = merged.satisfiable()
    if got:
        extra = ""
        try:
            extra = f", eval(b) = {sorted(merged.eval(b, 4))}"
        except claripy.errors.UnsatError:
            extra = ", eval(b) raises UnsatError"
        return (
            f"merged.satisfiable() == True{extra}, although s0.satisfiable() == {s0.satisfiable()} and "
            f"s1.satisfiable() == {s1.satisfiable()} and Z3 says the specification has no model"
        )
    return None


@case("P7 reuse_z3_solver=True: a merged solver's answers change after one of its sources is queried")
def _():
    old = claripy.backends.z3.reuse_z3_solver
    claripy.backends.z3.reuse_z3_solver = True
    try:
        s1, s2 = claripy.SolverCacheless(), claripy.SolverCacheless()
        s1.add(claripy.UGT(x, 12))
        s2.add(claripy.ULT(x, 2))
        _, merged = s1.merge([s2], [m == 0, m == 1])
        first = sorted(merged.eval(x, 2**W + 1))
        assert first == [0, 1, 13, 14, 15], first
        s1.satisfiable()  # an unrelated query on a source
        try:
            second = sorted(merged.eval(x, 2**W + 1))
        except claripy.errors.UnsatError:
            second = "UnsatError"
        if second != first:
            return f"merged.eval(x) first {first}, after s1.satisfiable(): {second}"
        return None
    finally:
        claripy.backends.z3.reuse_z3_solver = old


def main():
    bad = [n for n, p in RESULTS if p]
    print(f"\n{len(bad)} of {len(RESULTS)} cases violated")
    return 1 if bad else 0


if __name__ == "__main__":
    sys.exit(main())
