import claripy
claripy.backends.z3.reuse_z3_solver = True
x=claripy.BVS('x',8)
a=claripy.SolverCacheless(); b=claripy.SolverCacheless()
a.add(x<3); b.add(x>10)
print(sorted(a.eval(x,5)))
print(sorted(b.eval(x,2)))
try: print(sorted(a.eval(x,5)), "want [0,1,2]")
except Exception as e: print(type(e).__name__, "want [0,1,2]")
