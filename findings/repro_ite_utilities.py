"""
Reproducers for C08 violations that exist on the UNMODIFIED tree (HEAD 84b5d85).
Every block prints FINDING ... when the original code misbehaves; the script exits 1 if any finding reproduces.
"""

from __future__ import annotations

import sys

import claripy
from claripy import BVS, BVV, FPV, FSORT_DOUBLE, BoolS, If, Solver, ite_cases, ite_dict

found = []


def finding(tag, text):
    found.append(tag)
    print(f"FINDING {tag}: {text}")


# ---------------------------------------------------------------------------------------------------------------
# P1  ite_dict with >= 4 keys of which some are negative Python ints: the split uses Python's signed order on the
#     keys (keys.sort(), c <= split_val) but the emitted test is the UNSIGNED i <= split_val (BV.__le__ is ULE).
#     With < 4 keys (linear path, i == c only) the same dict works.
W = 4
i = BVS("i", W, explicit_name=True)
d = {-2: 1, -1: 2, 0: 3, 1: 4}
e = ite_dict(i, d, BVV(9, W))
for v in range(1 << W):
    got = claripy.replace(e, i, BVV(v, W)).args[0]
    want = next((val for k, val in d.items() if k % (1 << W) == v), 9)
    if got != want:
        finding("P1", f"ite_dict(i, {d}, 9) -> {e}; at i={v} value {got}, table says {want}")
        break
small = {-2: 1, -1: 2, 0: 3}
es = ite_dict(i, small, BVV(9, W))
assert all(
    claripy.replace(es, i, BVV(v, W)).args[0] == next((val for k, val in small.items() if k % 16 == v), 9)
    for v in range(16)
), "the linear path handles negative keys"

# ---------------------------------------------------------------------------------------------------------------
# P2  ite_cases drops a case whose value is fpEQ to what follows: is_true(v == sofar) is IEEE equality, and
#     -0.0 == +0.0 although they are different values (different bit patterns, 1/x differs).
c = BoolS("c", explicit_name=True)
e = ite_cases([(c, FPV(-0.0, FSORT_DOUBLE))], FPV(0.0, FSORT_DOUBLE))
spec = If(c, FPV(-0.0, FSORT_DOUBLE), FPV(0.0, FSORT_DOUBLE))
if Solver().satisfiable(extra_constraints=[e.raw_to_bv() != spec.raw_to_bv()]):
    finding("P2", f"ite_cases([(c, -0.0)], +0.0) -> {e}; specification is {spec}")
e = ite_dict(BVS("k", 8), {1: FPV(-0.0, FSORT_DOUBLE)}, FPV(0.0, FSORT_DOUBLE))
if e.op == "FPV":
    finding("P2b", f"ite_dict(k, {{1: -0.0}}, +0.0) -> {e} (the key 1 is ignored)")

# ---------------------------------------------------------------------------------------------------------------
# P3  BV.identical answers through the VSA abstraction: everything that abstracts to the same interval is
#     "identical" (the x+1 / x+2 instance is quoted in the property text; these are further instances).
x, y = BVS("x", 8), BVS("y", 8)
for a, b, why in (
    (x, ~x, "x vs ~x"),
    (x * x, x * y, "x*x vs x*y (no injective renaming maps one to the other)"),
    (x & 15, y % 16, "x&15 vs y%16"),
):
    if a.identical(b):
        finding("P3", f"identical({why}) is True")

# ---------------------------------------------------------------------------------------------------------------
# P4  Base.identical (Bool, FP, String, and BV when VSA cannot convert) compares the canonicalize() var_maps with
#     ==. The maps are {hash: AST}; with equal keys and different values dict.__eq__ evaluates AST == AST and
#     bool() of that raises. It also answers False for a pure renaming (keys are the ORIGINAL hashes).
p, q = BoolS("p"), BoolS("q")
try:
    claripy.And(p, q).identical(claripy.And(q, p))
except claripy.errors.ClaripyOperationError as ex:
    finding("P4", f"And(p,q).identical(And(q,p)) raises ClaripyOperationError ({str(ex)[:40]}...)")
r1, r2 = BoolS("r"), BoolS("r")
if not claripy.Not(r1).identical(claripy.Not(r2)):
    finding("P4b", "Not(r1).identical(Not(r2)) is False although the two differ by a renaming only (docstring)")

# ---------------------------------------------------------------------------------------------------------------
# P5  canonicalize renames a symbol by building a fresh BVS/FPS/...: annotations on the leaf are lost. For a
#     strided-interval symbol the bounds ARE the annotation, so the canonical form means something else in VSA
#     (the balancer canonicalizes VSA expressions).
si = claripy.SI(bits=32, stride=1, lower_bound=10, upper_bound=20)
canon = si.canonicalize()[2]
m0, m1 = claripy.backends.vsa.convert(si), claripy.backends.vsa.convert(canon)
if not m0.identical(m1):
    finding("P5", f"canonicalize(SI[10,20]) -> {canon} annotations={canon.annotations}; VSA value {m0} became {m1}")

# ---------------------------------------------------------------------------------------------------------------
# P6  get_bytes past the end: (pos - size + 1) * 8 goes negative and BV.__getitem__ reads a negative bound as
#     "from the top", so a 5-byte read of a 4-byte value silently returns 1 byte.
a = BVV(0x12345678, 32)
try:
    r = a.get_bytes(0, 5)
    if r.length != 40:
        finding("P6", f"BVV(0x12345678,32).get_bytes(0, 5) -> {r} ({r.length} bits, documented size*8 = 40, no error)")
except Exception:  # noqa: BLE001
    pass
try:
    r = a.get_bytes(-1, 2)
    if r.length != 16:
        finding("P6b", f"get_bytes(-1, 2) -> {r} ({r.length} bits instead of 16 or an error)")
except Exception:  # noqa: BLE001
    pass

# ---------------------------------------------------------------------------------------------------------------
# P7  canonicalize(var_map) without the matching counter hands out canonical_0 again: two variables, one name.
u, v = BVS("u", 8), BVS("v", 8)
vm, ctr, _ = u.canonicalize()
_, _, both = (u - v).canonicalize(var_map=vm)  # counter not passed on
if both.op == "BVV" or len(both.variables) < 2:
    finding("P7", f"(u - v).canonicalize(var_map=<map of u>) -> {both}: u and v were both renamed canonical_0")

print()
print("reproduced:", ", ".join(found) if found else "nothing")
sys.exit(1 if found else 0)
