"""
Reproducers for C03 violations that are present in the ORIGINAL (unmodified) tree.
Each check prints ok/BAD; exit status 1 if any check is BAD.
"""

import sys

import claripy

V = claripy.StringV
bad = 0


def check(name, f, expect):
    global bad
    try:
        got = f()
    except Exception as ex:  # noqa: BLE001
        got = f"raised {ex!r} (cause {ex.__cause__!r})"
    ok = got == expect
    bad += not ok
    print(("ok  " if ok else "BAD ") + name)
    if not ok:
        print(f"      got      {ascii(got)}\n      expected {ascii(expect)}")


# ---------------------------------------------------------------------------------------------------------------
# P1. BackendZ3._batch_eval blocks a found string with `expr != <python str>`; z3py turns the python str into a literal
#     with z3.StringVal, WITHOUT claripy's backslash escaping, so Z3 reads \u{41} / A in the text as an escape.
#     The clause blocks "A" instead of the six characters \u{41}: the found value comes back again and again, and the
#     value "A" is lost although it is a solution.
def p1a():
    s = claripy.SolverStrings()
    x = claripy.StringS("x")
    s.add(claripy.Or(x == V("\\u{41}"), x == V("A"), x == V("B")))
    return sorted(set(s.eval(x, 10)))


check("P1a eval(x, 10) enumerates all three solutions", p1a, sorted(["\\u{41}", "A", "B"]))


def p1b():
    s = claripy.SolverStrings()
    x = claripy.StringS("x")
    s.add(x == V("\\u0041"))
    return s.eval(x, 2)


check("P1b eval(x, 2) of a pinned string gives one value", p1b, ("\\u0041",))


def p1c():
    s = claripy.Solver()  # the default solver: duplicates collapse, solutions are silently missing
    x = claripy.StringS("x")
    s.add(claripy.Or(x == V("\\u{41}"), x == V("A"), x == V("B")))
    return sorted(s.eval(x, 10))


check("P1c default Solver eval(x, 10) enumerates all three solutions", p1c, sorted(["\\u{41}", "A", "B"]))


def p1d():
    s = claripy.SolverStrings()
    x = claripy.StringS("x")
    y = claripy.StringS("y")
    s.add([claripy.Or(x == V("\\u{41}"), x == V("A")), y == V("q")])
    return sorted(set(s.batch_eval([x, y], 5)))


check("P1d batch_eval([x, y], 5)", p1d, sorted([("\\u{41}", "q"), ("A", "q")]))


# ---------------------------------------------------------------------------------------------------------------
# P2. solution(expr, <python str>) hands the raw python str to Z3 the same way (BackendZ3._convert returns a str as
#     it is, `expr == v` then goes through z3.StringVal).
def p2():
    s = claripy.SolverStrings()
    x = claripy.StringS("x")
    s.add(x == V("\\u{41}"))
    return (s.solution(x, "\\u{41}"), s.solution(x, V("\\u{41}")), s.solution(x, "A"))


check("P2  solution(x, '\\\\u{41}') for x pinned to that text", p2, (True, True, False))


# ---------------------------------------------------------------------------------------------------------------
# P3. StrToInt / IntToStr fold through int()/str(), which refuse more than sys.get_int_max_str_digits() digits;
#     the solver has no such limit.
def p3a():
    digits = "7" * 5000
    return claripy.StrToInt(V(digits)).args[0]


def p3a_solver():
    s = claripy.SolverStrings()
    x = claripy.StringS("x")
    s.add(x == V("7" * 5000))
    return s.eval(claripy.StrToInt(x), 1)[0]


check("P3a StrToInt of 5000 digits folds to what the solver says", p3a, p3a_solver())


def p3b():
    return len(claripy.IntToStr(claripy.BVV(2**20000 - 1, 20000)).args[0])


check("P3b IntToStr of a 20000-bit value folds", p3b, 6021)


# ---------------------------------------------------------------------------------------------------------------
# P4. Code points above U+2FFFF (Z3's largest character) reach the solver as the text of an escape: ten characters
#     instead of one.  (Python strings hold code points up to U+10FFFF.)
def p4():
    s = claripy.SolverStrings()
    x = claripy.StringS("x")
    s.add(x == V("\U00030000"))
    return (claripy.StrLen(V("\U00030000")).args[0], s.eval(claripy.StrLen(x), 1)[0])


check("P4  StrLen of U+30000 folded == solved", p4, (1, 1))


# ---------------------------------------------------------------------------------------------------------------
# P5. StrConcat of a single operand folds to the operand but cannot be solved (z3.Concat wants two).
def p5():
    s = claripy.SolverStrings()
    x = claripy.StringS("x")
    s.add(x == V("ab"))
    return (claripy.StrConcat(V("ab")).args[0], s.eval(claripy.StrConcat(x), 1)[0])


check("P5  StrConcat(x) folded == solved", p5, ("ab", "ab"))


# ---------------------------------------------------------------------------------------------------------------
# P6. str.indexof whose start is itself an indexof that yields -1: Z3's model evaluation leaves a term behind and
#     claripy raises 'unknown decl op Z3_OP_INT2BV'; folded, the value is -1.
def p6():
    s = claripy.SolverStrings()
    x = claripy.StringS("x")
    y = claripy.StringS("y")
    i = claripy.BVS("i", 64)
    s.add([x == V("ab"), y == V("c"), i == 2**64 - 1])
    return s.eval(claripy.StrIndexOf(x, V("0"), claripy.StrIndexOf(y, V("x"), i)), 1)[0]


check(
    "P6  nested StrIndexOf solved == folded",
    p6,
    claripy.StrIndexOf(V("ab"), V("0"), claripy.StrIndexOf(V("c"), V("x"), claripy.BVV(2**64 - 1, 64))).args[0],
)


# ---------------------------------------------------------------------------------------------------------------
# P7. A lone surrogate is a legal Python str character and a legal Z3 character (U+D800 < U+2FFFF), but StringV
#     cannot even be built: the AST hash encodes the text as UTF-8.
def p7():
    return claripy.StrLen(V("a\ud800")).args[0]


check("P7  StrLen of a string with a lone surrogate", p7, 2)

sys.exit(1 if bad else 0)
