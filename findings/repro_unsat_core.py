"""Reproducers for C16 violations that exist on the unmodified tree (HEAD 8d8b25a). Run on a clean checkout.
Each case prints PREEXISTING-VIOLATION when the original code breaks the property."""
from __future__ import annotations

import claripy
from claripy.annotation import Annotation


class Tag(Annotation):
    def __init__(self, label):
        super().__init__()
        self.label = label

    eliminatable = False
    relocatable = True

    def __hash__(self):
        return hash(("Tag", self.label))

    def __eq__(self, other):
        return isinstance(other, Tag) and other.label == self.label

    def __repr__(self):
        return f"Tag({self.label})"


def report(label, bad, detail):
    print(("PREEXISTING-VIOLATION " if bad else "ok ") + label + ": " + detail)


x = claripy.BVS("x", 32)
y = claripy.BVS("y", 32)

# A. tracked constraints are named by Z3's 32-bit AST hash; two constraints with the same hash: the second one is
#    never asserted.  x + y == 643 and x + y == 3839 collide.
za, zb = claripy.backends.z3.convert(x + y == 643), claripy.backends.z3.convert(x + y == 3839)
print("z3 hashes:", hash(za), hash(zb))
for track in (False, True):
    s = claripy.SolverCacheless(track=track)
    s.add(x + y == 643)
    s.add(x + y == 3839)
    sat = s.satisfiable()
    report(f"A SolverCacheless(track={track}) x+y==643, x+y==3839", sat, f"satisfiable()={sat} core={list(s.unsat_core()) if track else None}")
s = claripy.Solver(track=True)
s.add([x + y == 643, claripy.ULT(x, 1000), claripy.ULT(y, 1000), x != 3, y != 4, x + y == 3839])
sat = s.satisfiable()
report("A Solver(track=True), six constraints added at once", sat, f"satisfiable()={sat} core={list(s.unsat_core())}")

# B. the backend's z3->claripy cache is lost (backends.z3.downsize() or LRU eviction) and the solver is asked again
#    without a further add: the core is re-abstracted from Z3 and is not made of the added constraints any more
for cls in (claripy.Solver, claripy.SolverCacheless, claripy.SolverComposite):
    s = cls(track=True)
    added = [claripy.SGE(x, 5), claripy.ULE(x + y, 3), (y == 0).annotate(Tag("t"))]
    for c in added:
        s.add(c)
    assert not s.satisfiable()
    before = list(s.unsat_core())
    claripy.backends.z3.downsize()
    after = list(s.unsat_core())
    hs = {c.hash() for c in added}
    bad = any(e.hash() not in hs for e in after)
    report(f"B {cls.__name__} core after backends.z3.downsize()", bad, f"before={before} after={[(e, e.annotations) for e in after]}")

# C. a composite solver made unsatisfiable by a concrete False keeps that in a flag only: the core is empty
s = claripy.SolverComposite(track=True)
s.add(x == 1)
s.add(claripy.false())
sat = s.satisfiable()
core = list(s.unsat_core())
report("C SolverComposite add(x == 1); add(false)", (not sat) and not core, f"satisfiable()={sat} constraints={s.constraints} core={core}")
p = claripy.Solver(track=True)
p.add(x == 1)
p.add(claripy.false())
report("C Solver (plain) same thing", p.satisfiable() or not list(p.unsat_core()), f"core={list(p.unsat_core())}")

# D. the z3->claripy cache is keyed by the Z3 AST only and shared by all solvers: the solver that added the formula
#    last wins, another tracked solver holding the same formula with other annotations reports the wrong AST
a = claripy.BVS("a", 32)
b = claripy.BVS("b", 32)
c1, c2 = (a + b == 10).annotate(Tag("mine")), (a - b == 3).annotate(Tag("mine"))
s1 = claripy.Solver(track=True)
s1.add(c1)
s1.add(c2)
assert not s1.satisfiable()
s2 = claripy.Solver(track=True)
s2.add(a + b == 10)  # same formula, no annotation, another solver
s2.add(a - b == 3)
assert not s2.satisfiable()
core1 = list(s1.unsat_core())
hs = {c1.hash(), c2.hash()}
report("D core of solver 1 after solver 2 tracked the same formulas unannotated", any(e.hash() not in hs for e in core1), f"{[(e, e.annotations) for e in core1]}")
