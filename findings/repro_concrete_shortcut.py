"""Queries about a concrete expression are answered without looking at the constraint set (C11), and SolverReplacement
answers that way for every symbolic expression its replacements make concrete (C13).  Exit 1 while it reproduces."""
import sys

import claripy

x = claripy.BVS("x", 3)
bad = 0
s = claripy.Solver()
s.add(x == 0)
s.add(x == 4)
print("plain solver, unsatisfiable: satisfiable() =", s.satisfiable())
try:
    print("  eval(BVV(1, 3), 1) =", s.eval(claripy.BVV(1, 3), 1), " (a plain query about x raises UnsatError)")
    bad += 1
except claripy.UnsatError:
    print("  eval of a constant raised UnsatError")
r = claripy.SolverReplacement(claripy.Solver())
r.add(x == 0)
r.add(x == 4)
try:
    print("replacement solver, unsatisfiable: eval(x & LShR(x, 1), 1) =", r.eval(x & claripy.LShR(x, 1), 1))
    bad += 1
except claripy.UnsatError:
    print("replacement solver raised UnsatError")
sys.exit(1 if bad else 0)
