#!/bin/bash
# usage: seed_wave2.sh <Cnn> <name-a> "<needs-a>" <name-b> "<needs-b>"
# evaluates the two changes an agent left in /tmp/wt_<Cnn> (first = working-tree diff, second = second.diff)
set -u
P=$1
W=/tmp/wt_$P
cd /verif
git -C $W diff -- claripy > /tmp/${P}_first.diff
/venv/bin/python tools/seed_eval.py $P "$2" /tmp/${P}_first.diff $W/demo_$P.py "$3" 2>&1 | tail -3
if [ -f $W/second.diff ] && [ -n "${4:-}" ]; then
  /venv/bin/python tools/seed_eval.py $P "$4" $W/second.diff $W/demo_${P}_b.py "$5" 2>&1 | tail -3
fi
mkdir -p seeded/_agent_notes
cp $W/CHANGE.md seeded/_agent_notes/CHANGE_${P}_wave2.md 2>/dev/null
