#!/venv/bin/python
"""False-alarm evaluation: apply each behaviour-preserving refactoring (a diff written blind by a sub-agent) to a
scratch worktree of /repo and run every registered check against it.  A VIOLATION is a false alarm of the checker;
an ANALYSIS-ERROR (exit 2) means a rule could not interpret the new shape and failed closed.

usage: refactor_eval.py <tag> <dir with refactor_*.diff> [--tests]
writes /verif/refactors/<tag>_<i>/{patch.diff, meta.json}"""

import glob
import json
import os
import shutil
import subprocess
import sys

VERIF = os.path.dirname(os.path.dirname(os.path.abspath(__file__)))
PY = "/venv/bin/python"


def run(cmd, cwd=None, env=None, timeout=1800):
    e = dict(os.environ)
    if env:
        e.update(env)
    p = subprocess.run(cmd, cwd=cwd, env=e, capture_output=True, text=True, timeout=timeout)
    return p.returncode, p.stdout + p.stderr


def main():
    tag, src = sys.argv[1:3]
    tests = "--tests" in sys.argv
    scratch = f"/tmp/rfchk_{tag}"
    subprocess.run(["git", "-C", "/repo", "worktree", "remove", "--force", scratch], capture_output=True)
    rc, out = run(["git", "-C", "/repo", "worktree", "add", "-q", scratch, "HEAD"])
    assert rc == 0, out
    notes = os.path.join(src, "REFACTORS.md")
    try:
        for d in sorted(glob.glob(os.path.join(src, "refactor_*.diff"))):
            i = os.path.basename(d)[len("refactor_") : -len(".diff")]
            run(["git", "checkout", "--", "claripy"], cwd=scratch)
            rc, out = run(["git", "apply", "--whitespace=nowarn", d], cwd=scratch)
            meta = {"tag": tag, "diff": os.path.basename(d), "applies": rc == 0}
            if rc != 0:
                meta["apply_error"] = out[-300:]
            else:
                if tests:
                    rct, outt = run([PY, "-m", "pytest", "-q", "-p", "no:cacheprovider", "-n", "8", "tests"], cwd=scratch, env={"PYTHONPATH": scratch})
                    meta["suite"] = outt.strip().splitlines()[-1] if outt.strip() else ""
                rcc, outc = run([PY, "-m", "sa", "all"], cwd=VERIF, env={"SA_REPO": scratch, "SA_EVIDENCE_DIR": f"/tmp/rf_evidence_{tag}", "SA_REPLAY_DIR": f"/tmp/rf_replay_{tag}"})
                viol = sorted({ln.strip()[:400] for ln in outc.splitlines() if ln.startswith("  claripy/") and ": [" in ln})
                errs = sorted({ln.strip()[:400] for ln in outc.splitlines() if ln.startswith("ANALYSIS-ERROR")})
                meta["violations"] = viol
                meta["analysis_errors"] = errs
                meta["verdict"] = "FALSE-ALARM" if viol else ("fail-closed" if errs else "silent")
            outdir = os.path.join(VERIF, "refactors", f"{tag}_{i}")
            os.makedirs(outdir, exist_ok=True)
            shutil.copy(d, os.path.join(outdir, "patch.diff"))
            json.dump(meta, open(os.path.join(outdir, "meta.json"), "w"), indent=1)
            print(tag, i, meta.get("verdict", "does-not-apply"), *(v[:200] for v in meta.get("violations", [])[:3]), *(v[:200] for v in meta.get("analysis_errors", [])[:2]), sep=" | ")
        if os.path.exists(notes):
            os.makedirs(os.path.join(VERIF, "refactors", "_agent_notes"), exist_ok=True)
            shutil.copy(notes, os.path.join(VERIF, "refactors", "_agent_notes", f"REFACTORS_{tag}.md"))
    finally:
        subprocess.run(["git", "-C", "/repo", "worktree", "remove", "--force", scratch], capture_output=True)
        shutil.rmtree(scratch, ignore_errors=True)


if __name__ == "__main__":
    main()
