#!/venv/bin/python
"""Confirm a seeded change and record which checks catch it.

usage: seed_eval.py <property> <name> <patch.diff> <demo.py> "<what it needs to manifest>"

* makes a scratch worktree of /repo (outside /repo and /verif), applies the patch there;
* confirms: the existing suite passes with the patch, the demo fails with it and passes without;
* runs every registered check against the patched tree (SA_REPO=<scratch>) and records which
  properties / rules report a violation;
* writes /verif/seeded/<name>/{patch.diff, demo.py, meta.json} and removes the scratch worktree.
"""

import json
import os
import shutil
import subprocess
import sys
import time

VERIF = os.path.dirname(os.path.dirname(os.path.abspath(__file__)))
PY = "/venv/bin/python"


def run(cmd, cwd=None, env=None, timeout=1200):
    e = dict(os.environ)
    if env:
        e.update(env)
    p = subprocess.run(cmd, cwd=cwd, env=e, shell=isinstance(cmd, str), capture_output=True, text=True, timeout=timeout)
    return p.returncode, p.stdout + p.stderr


def main():
    prop, name, patch, demo, needs = sys.argv[1:6]
    skip_tests = "--skip-tests" in sys.argv
    scratch = f"/tmp/seedchk_{name}"
    subprocess.run(["git", "-C", "/repo", "worktree", "remove", "--force", scratch], capture_output=True)
    rc, out = run(["git", "-C", "/repo", "worktree", "add", "-q", scratch, "HEAD"])
    assert rc == 0, out
    meta = {"property": prop, "name": name, "needs": needs, "ran": [], "at_repo_commit": run(["git", "-C", "/repo", "rev-parse", "--short", "HEAD"])[1].strip()}
    try:
        env = {"PYTHONPATH": scratch}
        # the demo is copied next to the scratch package: sys.path[0] is the script's directory
        local_demo = os.path.join(scratch, "_seed_demo.py")
        shutil.copy(demo, local_demo)
        # demo without the change
        rc0, out0 = run([PY, local_demo], cwd=scratch, env=env, timeout=600)
        meta["demo_without_change"] = {"exit": rc0, "tail": out0[-400:]}
        rc, out = run(["git", "apply", "--whitespace=nowarn", os.path.abspath(patch)], cwd=scratch)
        assert rc == 0, "patch does not apply: " + out
        rc1, out1 = run([PY, local_demo], cwd=scratch, env=env, timeout=600)
        meta["demo_with_change"] = {"exit": rc1, "tail": out1[-600:]}
        if not skip_tests:
            rct, outt = run([PY, "-m", "pytest", "-q", "-p", "no:cacheprovider", "-n", "4", "tests"], cwd=scratch, env=env, timeout=1800)
            tail = outt.strip().splitlines()[-1] if outt.strip() else ""
            meta["suite_with_change"] = {"exit": rct, "summary": tail}
        # our checks against the patched tree
        caught = {}
        t0 = time.time()
        from_dir = VERIF
        rcc, outc = run([PY, "-m", "sa", "all"], cwd=from_dir, env={"SA_REPO": scratch, "SA_EVIDENCE_DIR": f"/tmp/seed_evidence_{name}", "SA_REPLAY_DIR": f"/tmp/seed_replay_{name}"}, timeout=1200)
        # findings that the unchanged tree produces as well (there should be none) are not credit for the change
        base_file = os.environ.get("SEED_BASELINE")
        if base_file and os.path.exists(base_file):
            baseline = set(json.load(open(base_file)))
        else:
            _, outb = run([PY, "-m", "sa", "all"], cwd=from_dir, env={"SA_EVIDENCE_DIR": f"/tmp/seed_evidence_{name}", "SA_REPLAY_DIR": f"/tmp/seed_replay_{name}"}, timeout=1200)
            baseline = {ln.split("] ", 1)[1][:300] for ln in outb.splitlines() if ln.startswith("  claripy/") and ": [" in ln and "] " in ln}
            if base_file:
                json.dump(sorted(baseline), open(base_file, "w"))
        meta["baseline_findings_on_unchanged_tree"] = len(baseline)
        cur = None
        lines = [ln for ln in outc.splitlines() if not (ln.startswith("  claripy/") and ": [" in ln and ln.split("] ", 1)[-1][:300] in baseline)]
        for i, ln in enumerate(lines):
            if ln.startswith("["):
                cur = ln[1:].split("]")[0]
            if ln.startswith("ANALYSIS-ERROR"):
                caught.setdefault("ANALYSIS-ERROR", []).append(ln[:300])
            if "] " in ln and ln.startswith("  claripy/") and ": [" in ln:
                rule = ln.split(": [")[1].split("]")[0]
                msg = ln.split("] ", 1)[1][:300]
                caught.setdefault(cur, [])
                if (rule, msg) not in [(a, b) for a, b in caught[cur]]:
                    caught[cur].append((rule, msg))
        meta["checks_wall_s"] = round(time.time() - t0, 1)
        meta["caught_by"] = {k: [{"rule": r, "message": m} for r, m in v] if k != "ANALYSIS-ERROR" else v for k, v in caught.items()}
        meta["detected"] = any(v for k, v in caught.items() if k != "ANALYSIS-ERROR")
        meta["analysis_error_only"] = bool(caught) and not meta["detected"]
        meta["confirmed"] = (rc0 == 0 and rc1 != 0 and (skip_tests or ("331 passed" in meta["suite_with_change"]["summary"])))
        meta["ran"] = [
            f"git worktree add {scratch} HEAD; git apply patch.diff",
            "PYTHONPATH=<scratch> /venv/bin/python demo.py   (before and after applying the patch)",
            "PYTHONPATH=<scratch> /venv/bin/python -m pytest -q -p no:cacheprovider -n 8 tests",
            "SA_REPO=<scratch> /venv/bin/python -m sa all",
        ]
    finally:
        subprocess.run(["git", "-C", "/repo", "worktree", "remove", "--force", scratch], capture_output=True)
        shutil.rmtree(scratch, ignore_errors=True)
        shutil.rmtree(f"/tmp/seed_evidence_{name}", ignore_errors=True)
        shutil.rmtree(f"/tmp/seed_replay_{name}", ignore_errors=True)
    outdir = os.path.join(VERIF, "seeded", name)
    os.makedirs(outdir, exist_ok=True)
    for src, dst in ((patch, os.path.join(outdir, "patch.diff")), (demo, os.path.join(outdir, "demo.py"))):
        if os.path.abspath(src) != os.path.abspath(dst):
            shutil.copy(src, dst)
    with open(os.path.join(outdir, "meta.json"), "w") as f:
        json.dump(meta, f, indent=1)
    print(json.dumps({k: meta[k] for k in ("name", "confirmed", "detected")}, indent=None), "caught_by:", {k: [x["rule"] for x in v] if k != "ANALYSIS-ERROR" else v for k, v in meta.get("caught_by", {}).items()})
    print("  suite:", meta.get("suite_with_change"), "demo without/with:", meta["demo_without_change"]["exit"], meta["demo_with_change"]["exit"])


if __name__ == "__main__":
    main()
