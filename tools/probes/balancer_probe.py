#!/venv/bin/python
"""Reproduces the C25 findings of rule C25.valid against the real code (triage aid, not a registered check).

For 4-bit x (and y) it enumerates every assignment and compares with constraint_to_si:
  * _balance_add / _balance_sub (known findings): a constant or a second variable is moved across an *order*
    comparison.  Together with the implicit assumption bound this is sound for most inputs (the wrapped interval
    [0xf, 0x2] for x + 1 <= 3 is right), but where the rewritten comparison is unsatisfiable or tight on its own
    the wrap is lost:  x + 1 <u 1  (x = 15) is reported unsatisfiable;  x - y >u 0 cuts x = 0, y = 1.
  * fixed by 30f5533 (Extract of the low bits) and 70931cb (left shift): before those commits x[2:0] == 0 and
    x << 1 == 0 both produced the bound x in [0, 0] although x = 8 satisfies them.
exit status 1 if any satisfying assignment is cut off."""
import collections
import itertools
import sys

import claripy

W = 4
x = claripy.BVS("x", W, explicit_name=True)
y = claripy.BVS("y", W, explicit_name=True)
ops = {"ULE": claripy.ULE, "ULT": claripy.ULT, "UGE": claripy.UGE, "UGT": claripy.UGT, "SLE": claripy.SLE, "SLT": claripy.SLT, "SGE": claripy.SGE, "SGT": claripy.SGT, "EQ": lambda a, b: a == b, "NE": lambda a, b: a != b}
shapes = [("x+1", x + 1), ("x+3", x + 3), ("x-1", x - 1), ("x-y", x - y), ("x[2:0]", x[2:0]), ("x[3:1]", x[3:1]), ("x[3:3]", x[3:3]), ("x&7", x & 7), ("x&6", x & 6), ("x&9", x & 9), ("x<<1", x << 1), ("x<<2", x << 2), ("zext", claripy.ZeroExt(2, x)), ("sext", claripy.SignExt(2, x)), ("0..x", claripy.Concat(claripy.BVV(0, 2), x)), ("x..0", claripy.Concat(x, claripy.BVV(0, 2))), ("1..x", claripy.Concat(claripy.BVV(1, 2), x)), ("x..y", claripy.Concat(x[1:0], y[1:0])), ("rev", claripy.BVS("z", 16, explicit_name=True).reversed[7:0]), ("if", claripy.If(y == 3, x, x + 1)), ("if2", claripy.If(claripy.ULT(x, 4), claripy.BVV(1, W), claripy.BVV(2, W))), ("x+y", x + y), ("zext+1", claripy.ZeroExt(2, x) + 1), ("sext-1", claripy.SignExt(2, x) - 1), ("(x&7)+1", (x & 7) + 1), ("x[2:0]+1", x[2:0] + 1), ("x", x)]
conc = claripy.backends.concrete
bad = collections.Counter()
example = {}
for ln, l in shapes:
    for on, op in ops.items():
        for k in range(1 << l.length):
            c = op(l, claripy.BVV(k, l.length))
            sat, bounds = claripy.backends.vsa.constraint_to_si(c)
            vs = [v for v in (x, y) if v.variables & c.variables]
            if c.variables - {"x","y"}: continue
            sols = []
            for vals in itertools.product(range(1 << W), repeat=len(vs)):
                cc = c
                for v, val in zip(vs, vals):
                    cc = claripy.replace(cc, v, claripy.BVV(val, W))
                if conc.is_true(cc):
                    sols.append(dict(zip([v.args[0] for v in vs], vals)))
            if sols and not sat:
                bad[(ln, on, "reported unsatisfiable")] += 1
                example.setdefault((ln, on, "reported unsatisfiable"), (k, sols[0]))
                continue
            for e, b in bounds:
                hit = None
                for s in sols:
                    ee = e
                    for v in (x, y):
                        if v.args[0] in s:
                            ee = claripy.replace(ee, v, claripy.BVV(s[v.args[0]], W))
                    if not claripy.backends.vsa.solution(b, conc.eval(ee, 1)[0]):
                        hit = s
                        break
                if hit:
                    bad[(ln, on, "cut")] += 1
                    example.setdefault((ln, on, "cut"), (k, hit, str(e), str(claripy.backends.vsa.convert(b))))
                    break
for key in sorted(bad):
    print(key, bad[key], "e.g. k, assignment:", example[key])
print("violating constraints:", sum(bad.values()))
sys.exit(1 if bad else 0)
