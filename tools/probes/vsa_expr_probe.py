import logging; logging.disable(logging.CRITICAL)
import random, sys, itertools
import claripy
from claripy.backends.backend_vsa.strided_interval import StridedInterval
from claripy.backends.backend_vsa.bool_result import BoolResult
seed=int(sys.argv[1]) if len(sys.argv)>1 else 1
N=int(sys.argv[2]) if len(sys.argv)>2 else 3000
rnd=random.Random(seed)
W=4
M=1<<W
def mkvar(i):
    st=rnd.choice([1,1,2,3,4,5]); lb=rnd.randrange(M); n=rnd.randint(0,(M-1)//st)
    if n==0: st=0
    ub=(lb+n*st)%M
    v=claripy.SI(name=f"v{i}", bits=W, stride=st, lower_bound=lb, upper_bound=ub)
    vals=sorted({(lb+k*st)%M for k in range(n+1)})
    return v, vals
def gen(vars_, depth):
    if depth==0 or rnd.random()<0.25:
        if rnd.random()<0.7: return rnd.choice(vars_)
        return claripy.BVV(rnd.randrange(M),W)
    op=rnd.choice(["add","sub","mul","and","or","xor","not","neg","shl","lshr","ashr","ite","extcat","zext","sext","udiv","urem"])
    a=gen(vars_,depth-1)
    if op in("not",): return ~a
    if op=="neg": return -a
    if op in ("shl","lshr","ashr"):
        k=claripy.BVV(rnd.randrange(W+1),W) if rnd.random()<0.7 else gen(vars_,0)
        return {"shl":lambda: a<<k,"lshr":lambda: claripy.LShR(a,k),"ashr":lambda: a>>k}[op]()
    if op=="zext": return claripy.ZeroExt(2,a)[W-1:0] if rnd.random()<.5 else claripy.ZeroExt(W,a)[W+1:2]
    if op=="sext": return claripy.SignExt(W,a)[W+1:2]
    b=gen(vars_,depth-1)
    if op=="extcat":
        return claripy.Concat(a[1:0], b[W-1:2]) if rnd.random()<.5 else claripy.Concat(a,b)[W+1:2]
    if op=="ite":
        c=gen(vars_,depth-1)
        cmpop=rnd.choice([claripy.ULT,claripy.ULE,claripy.SLT,claripy.SLE,lambda x,y:x==y,lambda x,y:x!=y,claripy.UGT,claripy.SGE])
        return claripy.If(cmpop(a,b), c, gen(vars_,depth-1))
    return {"add":lambda:a+b,"sub":lambda:a-b,"mul":lambda:a*b,"and":lambda:a&b,"or":lambda:a|b,"xor":lambda:a^b,"udiv":lambda:a//b,"urem":lambda:a%b}[op]()
bad=0; tot=0; exc={}
first=[]
for it in range(N):
    nv=rnd.randint(1,2)
    vs=[mkvar(i) for i in range(nv)]
    try: e=gen([v for v,_ in vs], rnd.randint(1,3))
    except Exception as ex:
        continue
    if not e.symbolic and not any(v.variables & e.variables for v,_ in vs): continue
    try:
        r=claripy.backends.vsa.convert(e)
    except Exception as ex:
        exc[type(ex).__name__]=exc.get(type(ex).__name__,0)+1
        if len(first)<6 and type(ex).__name__ not in ("ZeroDivisionError",): first.append(("EXC",type(ex).__name__,str(ex)[:80],str(e)[:150]))
        continue
    tot+=1
    want=set()
    ok=True
    for assign in itertools.product(*[vals for _,vals in vs]):
        try:
            ee=e
            for (v,_),val in zip(vs,assign):
                ee=claripy.replace(ee, v, claripy.BVV(val,W))
            cv=claripy.backends.concrete.eval(ee,1)[0]
        except Exception as ex:
            continue   # division by zero etc.
        want.add(cv)
    if isinstance(r, StridedInterval):
        got=set(r.eval(300))
        if len(got)>=300: continue
    else:
        try: got=set(r.eval(300))
        except Exception: continue
    if not want<=got:
        bad+=1
        if len(first)<8: first.append((str(e)[:200], [str(claripy.backends.vsa.convert(v)) for v,_ in vs], str(r), sorted(want-got)[:5]))
print("C24 unsound", bad, "of", tot, "exceptions", exc)
for f in first: print("  ", f)
