"""Differential check: concrete folding of fpAdd/Sub/Mul/Div/Sqrt/fpToFP in every rounding mode against Z3's own
evaluation of the same term (structural equality of the folded FP numerals; NaN compared as NaN)."""
import math, random, struct, sys
import claripy, z3
from claripy.fp import RM, FSORT_FLOAT, FSORT_DOUBLE
random.seed(int(sys.argv[1]) if len(sys.argv) > 1 else 1)
N = int(sys.argv[2]) if len(sys.argv) > 2 else 1500
zrm={RM.RM_NearestTiesEven:z3.RNE(),RM.RM_NearestTiesAwayFromZero:z3.RNA(),RM.RM_TowardsZero:z3.RTZ(),RM.RM_TowardsPositiveInf:z3.RTP(),RM.RM_TowardsNegativeInf:z3.RTN()}
def f32(x): return struct.unpack('f', struct.pack('f', x))[0]
def rnd_double():
    k=random.random()
    if k<.08: return random.choice([0.0,-0.0,float('inf'),float('-inf'),float('nan')])
    if k<.18: return random.choice([5e-324, -5e-324, 2.2250738585072014e-308, 1.7976931348623157e308, -1.7976931348623157e308, 1.0, -1.0, 0.5, 3.0, 2.0**-1074*random.randrange(1,1<<20)])
    if k<.5: return struct.unpack('d', struct.pack('Q', random.getrandbits(64)))[0]
    if k<.75: return random.choice([-1,1])*random.random()*10**random.randrange(-5,6)
    return float(random.randrange(-1000,1000))/random.choice([1,2,3,4,7,8,10])
def rnd_float():
    k=random.random()
    if k<.08: return random.choice([0.0,-0.0,float('inf'),float('-inf'),float('nan')])
    if k<.18: return random.choice([1.401298464324817e-45,-1.401298464324817e-45,1.1754943508222875e-38,3.4028234663852886e38,-3.4028234663852886e38,1.0,-1.0,0.5,3.0])
    if k<.5:
        v=struct.unpack('f', struct.pack('I', random.getrandbits(32)))[0]; return v
    if k<.75: return f32(random.choice([-1,1])*random.random()*10**random.randrange(-5,6))
    return f32(float(random.randrange(-1000,1000))/random.choice([1,2,3,4,7,8,10]))
def same(zv, pyv, zs):
    if math.isnan(pyv): return zv.isNaN()
    if zv.isNaN(): return False
    w = z3.FPVal(pyv, zs)
    return z3.is_true(z3.simplify(z3.fpToIEEEBV(zv) == z3.fpToIEEEBV(w)))
bad=tot=0
ops={'fpAdd':(claripy.fpAdd,z3.fpAdd),'fpSub':(claripy.fpSub,z3.fpSub),'fpMul':(claripy.fpMul,z3.fpMul),'fpDiv':(claripy.fpDiv,z3.fpDiv)}
for it in range(N):
    for sort,zs,gen in ((FSORT_DOUBLE,z3.Float64(),rnd_double),(FSORT_FLOAT,z3.Float32(),rnd_float)):
        x,y=gen(),gen()
        if random.random()<.15: y = x if random.random()<.5 else -x
        for rm in RM:
            for nm,(cf,zf) in ops.items():
                c = cf(rm, claripy.FPV(x,sort), claripy.FPV(y,sort))
                assert c.op=='FPV',(nm,c)
                zv = z3.simplify(zf(zrm[rm], z3.FPVal(x,zs), z3.FPVal(y,zs)))
                tot+=1
                if not same(zv,c.args[0],zs):
                    bad+=1
                    if bad<15: print("DIFF",nm,rm.name,sort,repr(x),repr(y),"claripy",repr(c.args[0]),"z3",zv)
            c = claripy.fpSqrt(rm, claripy.FPV(x,sort)); zv=z3.simplify(z3.fpSqrt(zrm[rm], z3.FPVal(x,zs))); tot+=1
            if c.op!='FPV' or not same(zv,c.args[0],zs):
                bad+=1
                if bad<15: print("DIFF sqrt",rm.name,sort,repr(x),"claripy",c,"z3",zv)
        # conversions double -> float and float -> double
        d=rnd_double()
        for rm in RM:
            c = claripy.fpToFP(rm, claripy.FPV(d,FSORT_DOUBLE), FSORT_FLOAT); zv=z3.simplify(z3.fpToFP(zrm[rm], z3.FPVal(d,z3.Float64()), z3.Float32())); tot+=1
            if c.op!='FPV' or not same(zv,c.args[0],z3.Float32()):
                bad+=1
                if bad<15: print("DIFF d2f",rm.name,repr(d),"claripy",c,"z3",zv)
print("checked",tot,"bad",bad)
sys.exit(1 if bad else 0)
