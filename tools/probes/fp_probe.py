"""FP differential probe (triage aid): every floating-point operation is folded concretely and evaluated by Z3 (a symbolic
operand pinned to the same bit pattern); results are compared bit for bit (any NaN equals any NaN)."""
import logging; logging.disable(logging.CRITICAL)
import random, struct, sys, math
import claripy
from claripy.fp import RM
seed=int(sys.argv[1]) if len(sys.argv)>1 else 1
N=int(sys.argv[2]) if len(sys.argv)>2 else 300
rnd=random.Random(seed)
SORTS={"F":(claripy.FSORT_FLOAT,32),"D":(claripy.FSORT_DOUBLE,64)}
SPEC32=[0x0,0x80000000,0x7f800000,0xff800000,0x7fc00000,0x1,0x7fffff,0x800000,0x7f7fffff,0x3f800000,0xbf800000,0x4effffff,0x4f000000,0xcf000000,0x33800000,0x4b800000,0x3effffff,0x3f000000,0x3fc00000,0x40200000]
SPEC64=[0x0,0x8000000000000000,0x7ff0000000000000,0xfff0000000000000,0x7ff8000000000000,0x1,0xfffffffffffff,0x10000000000000,0x7fefffffffffffff,0x3ff0000000000000,0xbff0000000000000,0x43e0000000000000,0xc3e0000000000000,0x41dfffffffc00000,0x41e0000000000000,0x3fe0000000000000,0x3ff8000000000000,0x4004000000000000,0x3fdfffffffffffff]
def rbits(k):
    if rnd.random()<.7: return rnd.choice(SPEC32 if k=="F" else SPEC64)
    return rnd.getrandbits(32 if k=="F" else 64)
def is_nan_bits(b,k):
    if k=="F": return (b>>23)&0xff==0xff and b&0x7fffff
    return (b>>52)&0x7ff==0x7ff and b&0xfffffffffffff
issues={}
def report(kind,info):
    if kind not in issues: issues[kind]=info
RMS=[RM.RM_NearestTiesEven, RM.RM_TowardsZero, RM.RM_TowardsPositiveInf, RM.RM_TowardsNegativeInf, RM.RM_NearestTiesAwayFromZero]
tot=0
for it in range(N):
    k=rnd.choice("FD"); sort,w=SORTS[k]
    ab,bb=rbits(k),rbits(k)
    rm=rnd.choice(RMS) if rnd.random()<.5 else RM.RM_NearestTiesEven
    def mk(A,B):
        return [("abs",lambda:claripy.fpAbs(A)),("neg",lambda:claripy.fpNeg(A)),
                ("lt",lambda:claripy.fpLT(A,B)),("leq",lambda:claripy.fpLEQ(A,B)),("gt",lambda:claripy.fpGT(A,B)),("geq",lambda:claripy.fpGEQ(A,B)),("eq",lambda:claripy.fpEQ(A,B)),("neq",lambda:claripy.fpNEQ(A,B)),
                ("isnan",lambda:claripy.fpIsNaN(A)),("isinf",lambda:claripy.fpIsInf(A)),
                ("tosbv",lambda:claripy.fpToSBV(rm,A,32)),("toubv",lambda:claripy.fpToUBV(rm,A,32)),("tosbv8",lambda:claripy.fpToSBV(rm,A,8)),
                ("tofp",lambda:claripy.fpToFP(rm,A,claripy.FSORT_FLOAT if k=="D" else claripy.FSORT_DOUBLE)),
                ("ieee",lambda:claripy.fpToIEEEBV(A)),
                ("fromsbv",lambda:claripy.fpToFP(rm,claripy.fpToIEEEBV(A)[31:0],sort)),("fromubv",lambda:claripy.fpToFPUnsigned(rm,claripy.fpToIEEEBV(A)[31:0],sort))]
    A=claripy.fpToFP(claripy.BVV(ab,w),sort); B=claripy.fpToFP(claripy.BVV(bb,w),sort)
    XA=claripy.FPS("xa",sort); XB=claripy.FPS("xb",sort)
    s=claripy.Solver(timeout=4000); s.add(claripy.fpToIEEEBV(XA)==claripy.BVV(ab,w)) if not is_nan_bits(ab,k) else s.add(claripy.fpIsNaN(XA)); s.add(claripy.fpToIEEEBV(XB)==claripy.BVV(bb,w)) if not is_nan_bits(bb,k) else s.add(claripy.fpIsNaN(XB))
    folded=mk(A,B); solved=mk(XA,XB)
    for (nm,fc),(_,fs) in zip(folded,solved):
        tot+=1
        if tot%100==0: print('..',tot,sorted(issues), flush=True)
        try: ec=fc()
        except Exception as ex: report(nm+"-build!"+type(ex).__name__,(k,hex(ab),hex(bb),str(rm),str(ex)[:80])); continue
        try:
            r=claripy.backends.concrete.convert(ec)
        except Exception as ex: report(nm+"-fold!"+type(ex).__name__,(k,hex(ab),hex(bb),str(rm),str(ex)[:80])); continue
        try:
            es=fs()
            if isinstance(r,bool) or nm in("lt","leq","gt","geq","eq","neq","isnan","isinf"):
                fv=bool(r)
                if s.satisfiable(extra_constraints=[claripy.Not(es) if fv else es]): report(nm+"-diff",(k,hex(ab),hex(bb),str(rm),"folded",fv))
            elif hasattr(r,'sort') or isinstance(getattr(r,'value',None),float):
                # compare through bits
                fb=claripy.backends.concrete.convert(claripy.fpToIEEEBV(ec)).value
                zs=s.eval(claripy.fpToIEEEBV(es),2)
                fnan=math.isnan(r.value)
                if fnan:
                    if not s.satisfiable(extra_constraints=[claripy.fpIsNaN(es)]): report(nm+"-diff",(k,hex(ab),hex(bb),str(rm),"folded NaN, z3",[hex(z) for z in zs]))
                elif tuple(zs)!=(fb,): report(nm+"-diff",(k,hex(ab),hex(bb),str(rm),"folded",hex(fb),"z3",[hex(z) for z in zs]))
            else:
                fvv=r.value
                zs=s.eval(es,3)
                # conversions out of range are unspecified in SMT-LIB: z3 may return anything
                if len(zs)==1 and zs[0]!=fvv: report(nm+"-diff",(k,hex(ab),hex(bb),str(rm),"folded",hex(fvv),"z3",hex(zs[0])))
        except Exception as ex: report(nm+"-z3!"+type(ex).__name__,(k,hex(ab),hex(bb),str(rm),str(ex)[:100]))
print("cases",tot, flush=True)
for k_,v in sorted(issues.items()): print(k_,v)
