import logging; logging.disable(logging.CRITICAL)
import itertools, random, sys
from claripy.backends.backend_vsa.strided_interval import StridedInterval as SI
from claripy.backends.backend_vsa.discrete_strided_interval_set import DiscreteStridedIntervalSet as DS
from claripy.backends.backend_vsa.bool_result import BoolResult
W=3; M=1<<W
rnd=random.Random(int(sys.argv[1]) if len(sys.argv)>1 else 1)
def members(si):
    if si.is_empty: return set()
    if si.lower_bound==si.upper_bound: return {si.lower_bound}
    st=max(si.stride,1); span=(si.upper_bound-si.lower_bound)%M
    return {(si.lower_bound+k*st)%M for k in range(span//st+1)}
def rsi():
    st=rnd.choice([1,1,2,3,5]); lb=rnd.randrange(M); n=rnd.randint(0,(M-1)//st)
    if n==0: st=0
    return SI(bits=W, stride=st, lower_bound=lb, upper_bound=(lb+n*st)%M)
def rds():
    k=rnd.randint(1,3)
    return DS(bits=W, si_set={rsi() for _ in range(k)})
def dmem(x, m=None):
    if isinstance(x, DS):
        out=set()
        for s in x._si_set: out|=dmem(s)
        return out
    return members_w(x)
def members_w(si):
    MM=1<<si.bits
    if si.is_empty: return set()
    if si.lower_bound==si.upper_bound: return {si.lower_bound}
    st=max(si.stride,1); span=(si.upper_bound-si.lower_bound)%MM
    return {(si.lower_bound+k*st)%MM for k in range(span//st+1)}
def sg(v,w=W): return v-(1<<w) if v>=(1<<(w-1)) else v
res={}
def rec(name, ok, info):
    t=res.setdefault(name,[0,0,None]); t[1]+=1
    if not ok:
        t[0]+=1
        if t[2] is None: t[2]=info
BIN={"add":(lambda a,b:a+b,lambda x,y:(x+y)%M),"sub":(lambda a,b:a-b,lambda x,y:(x-y)%M),"and":(lambda a,b:a&b,lambda x,y:x&y),
     "or":(lambda a,b:a|b,lambda x,y:x|y),"xor":(lambda a,b:a^b,lambda x,y:x^y),"udiv":(lambda a,b:a//b,lambda x,y:x//y if y else None),
     "mod":(lambda a,b:a%b,lambda x,y:x%y if y else None),"shl":(lambda a,b:a<<b,lambda x,y:(x<<y)%M if y<W else 0),
     "radd":(lambda a,b:b+a,lambda x,y:(x+y)%M),"rsub":(lambda a,b:b-a,lambda x,y:(y-x)%M),
     "union":(lambda a,b:a.union(b),None),"meet":(lambda a,b:a.intersection(b),None)}
for it in range(4000):
    a=rds(); b=rds() if rnd.random()<.5 else rsi()
    ma,mb=dmem(a),dmem(b)
    for nm,(f,g) in BIN.items():
        try: r=f(a,b)
        except Exception as e:
            rec(nm+"!"+type(e).__name__, False, (str(a),str(b),str(e)[:60])); continue
        if r is NotImplemented: rec(nm+"!NotImplemented", False, (str(a),str(b))); continue
        got=dmem(r)
        if nm=="union": want=ma|mb
        elif nm=="meet": want=ma&mb
        else: want={g(x,y) for x in ma for y in mb}-{None}
        rec(nm, want<=got, (str(a),str(b),str(r),sorted(want-got)[:4]))
    for nm,f,g in (("neg",lambda a:-a,lambda x:(-x)%M),("inv",lambda a:~a,lambda x:(~x)%M)):
        try: r=f(a)
        except Exception as e: rec(nm+"!"+type(e).__name__, False, str(a)); continue
        rec(nm, {g(x) for x in ma}<=dmem(r), (str(a),str(r)))
    for nm,f,m2,g in (("zext",lambda a:a.zero_extend(W+2),W+2,lambda x:x),("sext",lambda a:a.sign_extend(W+2),W+2,lambda x:sg(x)%(1<<(W+2)))):
        try: r=f(a)
        except Exception as e: rec(nm+"!"+type(e).__name__, False, str(a)); continue
        rec(nm, {g(x) for x in ma}<=dmem(r), (str(a),str(r)))
    try:
        ev=set(a.eval(100)); rec("eval", ev==ma, (str(a),sorted(ev),sorted(ma)))
    except Exception as e: rec("eval!"+type(e).__name__, False, str(a))
    try:
        rec("cardinality>=", a.cardinality>=len(ma), (str(a),a.cardinality,len(ma)))
    except Exception as e: rec("card!"+type(e).__name__, False, str(a))
    for hi in range(W):
        lo=rnd.randint(0,hi)
        try: r=a.extract(hi,lo)
        except Exception as e: rec("extract!"+type(e).__name__, False, (str(a),hi,lo)); continue
        rec("extract", {(x>>lo)&((1<<(hi-lo+1))-1) for x in ma}<=dmem(r), (str(a),hi,lo,str(r)))
    try:
        r=a.concat(b); rec("concat", {(x<<W)|y for x in ma for y in mb}<=dmem(r), (str(a),str(b),str(r)))
    except Exception as e: rec("concat!"+type(e).__name__, False, (str(a),str(b),str(e)[:50]))
    try:
        r=(a==b); 
        want={x==y for x in ma for y in mb}; got=set()
        if BoolResult.has_true(r): got.add(True)
        if BoolResult.has_false(r): got.add(False)
        rec("eq", want<=got, (str(a),str(b),str(r),want))
    except Exception as e: rec("eq!"+type(e).__name__, False, (str(a),str(b),str(e)[:50]))
for k,v in sorted(res.items()): print(f"{k:24s} wrong {v[0]:6d} of {v[1]:6d}  first: {v[2] if v[0] else ''}")
