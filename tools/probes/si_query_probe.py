import logging; logging.disable(logging.CRITICAL)
import itertools, sys, random
from claripy.backends.backend_vsa.strided_interval import StridedInterval as SI
W=int(sys.argv[1]) if len(sys.argv)>1 else 3
M=1<<W
def every(W):
    M=1<<W
    for lb in range(M):
        yield SI(bits=W, stride=0, lower_bound=lb, upper_bound=lb)
        for st in range(1, M):
            for n in range(1, (M - 1) // st + 1):
                yield SI(bits=W, stride=st, lower_bound=lb, upper_bound=(lb + n * st) % M)
def members(si):
    if si.is_empty: return set()
    if si.lower_bound==si.upper_bound: return {si.lower_bound}
    st=max(si.stride,1); span=(si.upper_bound-si.lower_bound)%M
    return {(si.lower_bound+k*st)%M for k in range(span//st+1)}
def sg(v): return v-M if v>=M//2 else v
S=list(every(W))
res={}
def rec(name, ok, info):
    t=res.setdefault(name,[0,0,None]); t[1]+=1
    if not ok:
        t[0]+=1
        if t[2] is None: t[2]=info
for a in S:
    ma=members(a)
    def tryq(nm, f, want):
        try: got=f()
        except Exception as e:
            rec(nm+"!"+type(e).__name__, False, str(a)); return
        rec(nm, got==want, (str(a), got, want))
    tryq("eval", lambda: sorted(a.eval(M+3)), sorted(ma))
    tryq("eval-signed", lambda: sorted(a.eval(M+3, signed=True)), sorted(sg(v) for v in ma))
    tryq("eval2", lambda: set(a.eval(2))<=ma and len(a.eval(2))==min(2,len(ma)), True)
    tryq("cardinality", lambda: a.cardinality, len(ma))
    tryq("n_values", lambda: a.n_values, len(ma))
    tryq("min", lambda: a.min(), min(ma))
    tryq("max", lambda: a.max(), max(ma))
    tryq("umin", lambda: min(lb for lb,ub in a._unsigned_bounds()), min(ma))
    tryq("umax", lambda: max(ub for lb,ub in a._unsigned_bounds()), max(ma))
    tryq("smin", lambda: a.min(signed=True), min(sg(v) for v in ma))
    tryq("smax", lambda: a.max(signed=True), max(sg(v) for v in ma))
    tryq("complement", lambda: (members(a.complement) | ma) == set(range(M)), True)
for a,b in itertools.product(S,S):
    ma,mb=members(a),members(b)
    for nm,f,chk in (("union", lambda: a.union(b), lambda r: (ma|mb)<=members(r)), ("lub2", lambda: SI.least_upper_bound(a,b), lambda r:(ma|mb)<=members(r)),
                    ("meet", lambda: a.intersection(b), lambda r:(ma&mb)<=members(r)), ("is_subset?", lambda: None, lambda r: True)):
        try: r=f()
        except Exception as e:
            rec(nm+"!"+type(e).__name__, False, (str(a),str(b))); continue
        if r is None: continue
        rec(nm, chk(r), (str(a),str(b),str(r)))
random.seed(3)
for _ in range(30000):
    ops=random.sample(S,3)
    try: r=SI.least_upper_bound(*ops)
    except Exception as e:
        rec("lub3!"+type(e).__name__, False, [str(o) for o in ops]); continue
    u=set().union(*(members(o) for o in ops))
    rec("lub3", u<=members(r), ([str(o) for o in ops], str(r)))
for k,v in sorted(res.items()): print(f"{k:22s} wrong {v[0]:6d} of {v[1]:6d}  first: {v[2] if v[0] else ''}")
