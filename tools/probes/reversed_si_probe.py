import random, sys
import claripy
from claripy.backends.backend_vsa.strided_interval import StridedInterval as SI
random.seed(int(sys.argv[1]) if len(sys.argv)>1 else 1)
def rev(v,bits): return int.from_bytes(v.to_bytes(bits//8,'big'),'little')
def members(s, limit=6):
    out=[]
    if s.is_empty: return out
    n = s.cardinality if hasattr(s,'cardinality') else 1
    lb, st = s.lower_bound, max(s.stride,1)
    card = ((s.upper_bound - s.lower_bound) % (1<<s.bits))//st + 1
    idx = {0, card-1} | {random.randrange(card) for _ in range(limit)}
    return [ (lb + i*st) % (1<<s.bits) for i in idx]
def contains(s, v):
    if s.is_empty: return False
    st = s.stride
    d = (v - s.lower_bound) % (1<<s.bits)
    span = (s.upper_bound - s.lower_bound) % (1<<s.bits)
    if st == 0: return d == 0
    return d <= span and d % st == 0
def rnd(bits):
    k = random.random()
    if k < .3:
        v = random.randrange(1<<bits); return SI(bits=bits, stride=0, lower_bound=v, upper_bound=v)
    st = random.choice([1,1,2,3,4,256,257])
    lb = random.randrange(1<<bits); n = random.randrange(1,40)
    return SI(bits=bits, stride=st, lower_bound=lb, upper_bound=(lb+st*n)%(1<<bits))
ops = {'add': lambda x,y,b:(x+y)%(1<<b), 'sub': lambda x,y,b:(x-y)%(1<<b), 'mul': lambda x,y,b:(x*y)%(1<<b),
       'bitwise_and': lambda x,y,b:x&y, 'bitwise_or': lambda x,y,b:x|y, 'bitwise_xor': lambda x,y,b:x^y}
cmps = {'ULT': lambda x,y:x<y, 'ULE': lambda x,y:x<=y, 'UGT': lambda x,y: x>y, 'eq': lambda x,y:x==y}
bad=0; tot=0
for it in range(3000):
    bits=16
    a,b = rnd(bits), rnd(bits)
    ra = random.random()<.6; rb = random.random()<.6
    A = a.reverse() if ra else a
    B = b.reverse() if rb else b
    for nm,fn in ops.items():
        try: r = getattr(A,nm)(B)
        except Exception as e:
            print("EXC",nm,a,b,ra,rb,repr(e)); bad+=1; continue
        for x in members(a):
            for y in members(b):
                xv = rev(x,bits) if ra else x; yv = rev(y,bits) if rb else y
                want = fn(xv,yv,bits); tot+=1
                # the result may itself be lazily reversed
                ok = contains(r._reverse() if r._reversed else r, want) if not r._reversed else any(contains(r, rev(want,bits)) for _ in [0])
                if not ok:
                    bad+=1
                    if bad<15: print("UNSOUND",nm,a,"R" if ra else "",b,"R" if rb else "","->",r,"misses",hex(want))
    for nm,fn in cmps.items():
        r = getattr(A,nm)(B)
        for x in members(a):
            for y in members(b):
                xv = rev(x,bits) if ra else x; yv = rev(y,bits) if rb else y
                want = fn(xv,yv); tot+=1
                if not (want in r.value if hasattr(r,'value') else True):
                    bad+=1
                    if bad<15: print("UNSOUND",nm,a,"R" if ra else "",b,"R" if rb else "","->",r,"but",hex(xv),hex(yv),want)
print("checked",tot,"bad",bad)
