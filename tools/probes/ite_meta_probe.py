"""C08/C05 probe (triage aid): ITE utilities, chop/get_bytes, replace and metadata on random trees vs the oracle."""
import logging; logging.disable(logging.CRITICAL)
import sys, itertools, random
sys.argv=[sys.argv[0]]+sys.argv[1:]
exec(open('/tmp/probe_ast.py').read().split("issues={}")[0])   # reuse generators E, bv, bl, VARS, rnd, M, sg
issues={}
def report(kind, info):
    if kind not in issues: issues[kind]=info
def evalc(a, names, asg):
    cc=a
    for n,v in zip(names,asg): cc=claripy.replace(cc,VARS[n][0],claripy.BVV(v,VARS[n][1]))
    r=claripy.backends.concrete.convert(cc); return r.value if hasattr(r,'value') else bool(r)
tot=0
for it in range(N):
    VARS.clear()
    w=rnd.choice([4,8,8,16])
    try: e=bv(w,rnd.randint(2,3))
    except claripy.errors.ClaripyZeroDivisionError: continue
    names=sorted(n for n in VARS if n in e.a.variables)
    if sum(VARS[n][1] for n in names)>9 or not names: continue
    tot+=1
    # metadata
    if e.a.length!=w: report("length",(str(e.a)[:150],e.a.length,w))
    leafvars=set()
    for lf in e.a.leaf_asts():
        if lf.op in ("BVS","BoolS"): leafvars|=lf.variables
    if leafvars!=set(e.a.variables): report("variables",(str(e.a)[:150],sorted(e.a.variables),sorted(leafvars)))
    if e.a.symbolic!=bool(e.a.variables): report("symbolic",(str(e.a)[:150],))
    if e.a.depth!=1+max([c.depth for c in e.a.args if hasattr(c,'depth')]+[0]): report("depth",(str(e.a)[:150],e.a.depth))
    variants={}
    for nm,f in (("excavate",lambda:claripy.excavate_ite(e.a)),("burrow",lambda:claripy.burrow_ite(e.a)),("burrow∘excavate",lambda:claripy.burrow_ite(claripy.excavate_ite(e.a))),
                 ("canonicalize",lambda:e.a.canonicalize()[2]),("simplify",lambda:claripy.simplify(e.a)),
                 ("chop",lambda:claripy.Concat(*e.a.chop(rnd.choice([b for b in (1,2,4,8) if w%b==0]))) ),
                 ("get_bytes",lambda:claripy.Concat(*[e.a.get_byte(i) for i in range(w//8)]) if w%8==0 and w>=8 else e.a)):
        try: variants[nm]=f()
        except Exception as ex: report(nm+"!"+type(ex).__name__,(str(e.a)[:150],str(ex)[:80]))
    # ite_cases / reverse_ite_cases / ite_dict
    try:
        k=rnd.randint(1,3); sel=VARS[names[0]][0]
        cases=[(sel==i, claripy.BVV(rnd.randrange(1<<w),w)) for i in range(k)]
        default=e.a
        ic=claripy.ite_cases(cases, default)
        rc=list(claripy.reverse_ite_cases(ic))
        d={claripy.BVV(i,VARS[names[0]][1]): c[1] for i,c in enumerate(cases)}
        idt=claripy.ite_dict(sel, d, default)
    except Exception as ex:
        report("ite_cases!"+type(ex).__name__,(str(e.a)[:100],str(ex)[:80])); ic=rc=idt=None
    doms=[range(1<<VARS[n][1]) for n in names]
    for asg in itertools.product(*doms):
        env=dict(zip(names,asg))
        for n in VARS: env.setdefault(n,0)
        want=e.f(env)
        if want is None: continue
        try:
            for nm,v in variants.items():
                if nm=="canonicalize": continue
                got=evalc(v,names,asg)
                if got!=want: report(nm,(str(e.a)[:150],str(v)[:150],env,got,want)); 
            if ic is not None:
                sv=env[names[0]]
                wantc=next((evalc(c[1],names,asg) for i,c in enumerate(cases) if sv==i), want)
                if evalc(ic,names,asg)!=wantc: report("ite_cases",(str(ic)[:200],env))
                if evalc(idt,names,asg)!=wantc: report("ite_dict",(str(idt)[:200],env))
                hits=[evalc(v_,names,asg) for c_,v_ in rc if evalc(c_,names,asg)]
                if len(hits)!=1 or hits[0]!=wantc: report("reverse_ite_cases",(str(ic)[:200],env,hits,wantc))
        except claripy.errors.ClaripyZeroDivisionError: pass
        except Exception as ex:
            report("eval!"+type(ex).__name__,(str(e.a)[:150],str(ex)[:80])); break
print("trees",tot)
for k_,v in sorted(issues.items()): print(k_,v)
