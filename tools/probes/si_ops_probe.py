import logging; logging.disable(logging.CRITICAL)
import itertools, sys, random
from claripy.backends.backend_vsa.strided_interval import StridedInterval as SI
from claripy.backends.backend_vsa.bool_result import BoolResult
W=int(sys.argv[1]) if len(sys.argv)>1 else 3
M=1<<W
def every(W):
    M=1<<W
    for lb in range(M):
        yield SI(bits=W, stride=0, lower_bound=lb, upper_bound=lb)
        for st in range(1, M):
            for n in range(1, (M - 1) // st + 1):
                yield SI(bits=W, stride=st, lower_bound=lb, upper_bound=(lb + n * st) % M)
S=list(every(W))
def sg(v,w=W): return v-(1<<w) if v>=(1<<(w-1)) else v
res={}
def rec(name, ok, info):
    t=res.setdefault(name,[0,0,None]); t[1]+=1
    if not ok:
        t[0]+=1
        if t[2] is None: t[2]=info
def vals(si, m=None):
    return set(si.eval((m or M)+2))
BIN={
 "add": (lambda a,b:a.add(b), lambda x,y:(x+y)%M),
 "sub": (lambda a,b:a.sub(b), lambda x,y:(x-y)%M),
 "mul": (lambda a,b:a.mul(b), lambda x,y:(x*y)%M),
 "udiv": (lambda a,b:a.udiv(b), lambda x,y:(x//y)%M if y else None),
 "sdiv": (lambda a,b:a.sdiv(b), lambda x,y:(int(sg(x)/sg(y)))%M if y else None),
 "and": (lambda a,b:a.bitwise_and(b), lambda x,y:x&y),
 "or": (lambda a,b:a.bitwise_or(b), lambda x,y:x|y),
 "xor": (lambda a,b:a.bitwise_xor(b), lambda x,y:x^y),
 "lshift": (lambda a,b:a.lshift(b), lambda x,y:(x<<y)%M if y<W else 0),
 "lshr": (lambda a,b:a.rshift_logical(b), lambda x,y:(x>>y) if y<W else 0),
 "ashr": (lambda a,b:a.rshift_arithmetic(b), lambda x,y:(sg(x)>>min(y,W))%M),
}
pairs=list(itertools.product(S,S))
if len(pairs)>40000:
    random.seed(1); pairs=random.sample(pairs,40000)
for a,b in pairs:
    va,vb=vals(a),vals(b)
    for nm,(f,g) in BIN.items():
        try: r=f(a,b)
        except Exception as e:
            rec(nm+"!"+type(e).__name__, False, (str(a),str(b))); continue
        want={g(x,y) for x in va for y in vb}-{None}
        got=vals(r)
        rec(nm, want<=got, (str(a),str(b),str(r),sorted(want-got)[:4]))
    for nm,f,g in (("ULT",lambda a,b:a.ULT(b),lambda x,y:x<y),("ULE",lambda a,b:a.ULE(b),lambda x,y:x<=y),("SLT",lambda a,b:a.SLT(b),lambda x,y:sg(x)<sg(y)),("SLE",lambda a,b:a.SLE(b),lambda x,y:sg(x)<=sg(y)),("eq",lambda a,b:a==b,lambda x,y:x==y)):
        try: r=f(a,b)
        except Exception as e:
            rec(nm+"!"+type(e).__name__, False, (str(a),str(b))); continue
        want={g(x,y) for x in va for y in vb}
        got=set()
        if BoolResult.has_true(r): got.add(True)
        if BoolResult.has_false(r): got.add(False)
        rec(nm, want<=got, (str(a),str(b),str(r),want))
for a in S:
    va=vals(a)
    for nm,f,g,m2 in (("neg",lambda a:a.neg(),lambda x:(-x)%M,M),("not",lambda a:a.bitwise_not(),lambda x:(~x)%M,M),
                   ("zext",lambda a:a.zero_extend(W+2),lambda x:x,M*4),("sext",lambda a:a.sign_extend(W+2),lambda x:sg(x)%(M*4),M*4)):
        try: r=f(a)
        except Exception as e:
            rec(nm+"!"+type(e).__name__, False, str(a)); continue
        want={g(x) for x in va}; got=vals(r,m2)
        rec(nm, want<=got, (str(a),str(r),sorted(want-got)[:4]))
    for hi in range(W):
        for lo in range(hi+1):
            try: r=a.extract(hi,lo)
            except Exception as e:
                rec("extract!"+type(e).__name__, False, (str(a),hi,lo)); continue
            want={(x>>lo)&((1<<(hi-lo+1))-1) for x in va}; got=vals(r)
            rec("extract", want<=got, (str(a),hi,lo,str(r),sorted(want-got)[:4]))
for a,b in random.Random(2).sample(list(itertools.product(S,S)), min(20000,len(S)**2)):
    try: r=a.concat(b)
    except Exception as e:
        rec("concat!"+type(e).__name__, False, (str(a),str(b))); continue
    want={(x<<W)|y for x in vals(a) for y in vals(b)}; got=vals(r,M*M)
    rec("concat", want<=got, (str(a),str(b),str(r),sorted(want-got)[:4]))
for k,v in sorted(res.items()): print(f"{k:22s} unsound {v[0]:6d} of {v[1]:6d}  first: {v[2] if v[0] else ''}")
