"""History fuzzer (triage aid): random add/query/branch/merge/split/pickle histories on every frontend, answers
compared with brute force over two 3-bit variables."""
import logging; logging.disable(logging.CRITICAL)
import itertools, pickle, random, sys, traceback
import claripy
W=3; M=1<<W
seed=int(sys.argv[1]) if len(sys.argv)>1 else 1
N=int(sys.argv[2]) if len(sys.argv)>2 else 300
rnd=random.Random(seed)
x=claripy.BVS("x",W,explicit_name=True); y=claripy.BVS("y",W,explicit_name=True)
VARS=[x,y]
def sg(v): return v-M if v>=M//2 else v
def rexpr(d=2):
    if d==0 or rnd.random()<.3:
        return rnd.choice([x,y,claripy.BVV(rnd.randrange(M),W)])
    a,b=rexpr(d-1),rexpr(d-1)
    return rnd.choice([lambda:a+b,lambda:a-b,lambda:a&b,lambda:a|b,lambda:a^b,lambda:~a,lambda:a*b,lambda:claripy.If(rcons(0),a,b),lambda:a<<1,lambda:claripy.LShR(a,1)])()
def rcons(d=1):
    a,b=rexpr(1),rexpr(1)
    c=rnd.choice([lambda:a==b,lambda:a!=b,lambda:claripy.ULT(a,b),lambda:claripy.ULE(a,b),lambda:claripy.SLT(a,b),lambda:claripy.SGE(a,b),lambda:claripy.UGT(a,b)])()
    if d>0 and rnd.random()<.3:
        c2=rcons(0)
        c=rnd.choice([lambda:claripy.And(c,c2),lambda:claripy.Or(c,c2),lambda:claripy.Not(c)])()
    return c
def ev(e, asg):
    for v,val in zip(VARS,asg): e=claripy.replace(e,v,claripy.BVV(val,W)) if hasattr(e,'op') else e
    r=claripy.backends.concrete.convert(e)
    return r.value if hasattr(r,'value') else bool(r)
def models(cons):
    out=[]
    for asg in itertools.product(range(M),repeat=2):
        if all(ev(c,asg) for c in cons): out.append(asg)
    return out
KINDS={"Hybrid2":lambda:claripy.SolverHybrid(),"CompositeHybridless":lambda:claripy.SolverComposite(template_solver=claripy.SolverCacheless()),"Solver":lambda:claripy.Solver(),"Cacheless":lambda:claripy.SolverCacheless(),"Composite":lambda:claripy.SolverComposite(),
       "Replacement":lambda:claripy.SolverReplacement(claripy.Solver()),"Hybrid":lambda:claripy.SolverHybrid(),"Core":lambda:claripy.Solver(track=True)}
bugs={}
def report(kind, what, hist):
    k=(kind, what.split(":")[0])
    if k not in bugs:
        bugs[k]=(what, list(hist))
for it in range(N):
    kind=rnd.choice(list(KINDS))
    states=[(KINDS[kind](), [])]   # (solver, constraints)
    hist=[]
    for step in range(rnd.randint(3,12)):
        i=rnd.randrange(len(states)); s,cons=states[i]
        op=rnd.choice(["add","add","eval","eval","min","max","sat","solution","branch","simplify","pickle","merge","split","downsize","core","combine","batch","istrue"])
        try:
            if op=="add":
                c=rcons(); hist.append(("add",i,str(c))); s.add(c); cons.append(c)
            elif op in ("eval","min","max","sat","solution"):
                e=rexpr(2); extra=[rcons()] if rnd.random()<.4 else []
                if not e.symbolic: e=x+e
                ms=models(cons+extra)
                vals=sorted({ev(e,a) for a in ms})
                hist.append((op,i,str(e),[str(c) for c in extra]))
                if op=="eval" and kind in ("Hybrid","Hybrid2") and rnd.random()<.7:
                    # approximate mode: fewer than n answers means these are all, so every feasible value must be among them
                    try: got=sorted(s.eval(e,M+2,extra_constraints=extra,exact=False))
                    except claripy.UnsatError: got=None
                    if vals and got is None: report(kind,"approx-eval: UnsatError but models exist",hist)
                    elif got is not None and len(got)<M+2 and not set(vals)<=set(got): report(kind,f"approx-eval: got {got} lacks feasible {sorted(set(vals)-set(got))}",hist)
                    try:
                        sa=s.satisfiable(extra_constraints=extra,exact=False)
                        if ms and not sa: report(kind,"approx-sat: False but models exist",hist)
                        mx=s.max(e,extra_constraints=extra,exact=False)
                        if vals and mx<max(vals): report(kind,f"approx-max: {mx} below feasible {max(vals)}",hist)
                        mn=s.min(e,extra_constraints=extra,exact=False)
                        if vals and mn>min(vals): report(kind,f"approx-min: {mn} above feasible {min(vals)}",hist)
                    except claripy.UnsatError:
                        if ms: report(kind,"approx: UnsatError but models exist",hist)
                elif op=="eval":
                    n=rnd.choice([1,2,M+2])
                    try: got=sorted(s.eval(e,n,extra_constraints=extra))
                    except claripy.UnsatError: got=None
                    if not vals:
                        if got is not None and got!=[]: report(kind,f"eval: unsat but got {got}",hist)
                    elif got is None: report(kind,f"eval: UnsatError but models exist {vals}",hist)
                    elif not set(got)<=set(vals) or len(got)!=min(n,len(vals)): report(kind,f"eval: got {got} want {min(n,len(vals))} of {vals}",hist)
                elif op in("min","max"):
                    signed=rnd.random()<.3
                    try: got=getattr(s,op)(e,extra_constraints=extra,signed=signed)
                    except claripy.UnsatError: got=None
                    if vals:
                        want=(min if op=="min" else max)(vals,key=(sg if signed else (lambda v:v)))
                        if got is None: report(kind,f"{op}: UnsatError but models exist",hist)
                        elif got%M!=want%M: report(kind,f"{op}: got {got} want {want} signed={signed}",hist)
                    elif got is not None: report(kind,f"{op}: unsat but got {got}",hist)
                elif op=="sat":
                    got=s.satisfiable(extra_constraints=extra)
                    if got!=bool(ms): report(kind,f"sat: got {got} want {bool(ms)}",hist)
                else:
                    v=rnd.randrange(M)
                    try: got=s.solution(e,v,extra_constraints=extra)
                    except claripy.UnsatError: got=None
                    if got is None:
                        if ms: report(kind,"solution: UnsatError but models exist",hist)
                    elif got!=(v in vals): report(kind,f"solution: got {got} want {v in vals}",hist)
            elif op=="branch":
                hist.append(("branch",i)); states.append((s.branch(), list(cons)))
            elif op=="simplify":
                hist.append(("simplify",i)); s.simplify()
            elif op=="downsize":
                hist.append(("downsize",i)); s.downsize()
            elif op=="pickle":
                hist.append(("pickle",i)); states[i]=(pickle.loads(pickle.dumps(s,-1)), cons)
            elif op=="merge" and len(states)>1:
                j=rnd.randrange(len(states))
                if j!=i:
                    o,oc=states[j]
                    hist.append(("merge",i,j))
                    cond_a=claripy.BVS("m",2)==0; cond_b=claripy.BVS("m",2)==1
                    try:
                        ok,merged=s.merge([o],[cond_a,cond_b])
                    except Exception as ex:
                        report(kind,f"merge!: {type(ex).__name__} {str(ex)[:80]}",hist); continue
                    # models of merged restricted to x,y must include models of both
                    both=set(models(cons))|set(models(oc))
                    for asg in both:
                        if not merged.satisfiable(extra_constraints=[x==asg[0],y==asg[1]]):
                            report(kind,f"merge: lost model {asg}",hist); break
            elif op=="split":
                hist.append(("split",i))
                parts=s.split()
                allc=[c for p in parts for c in p.constraints]
                if set(models(allc))!=set(models(cons)): report(kind,"split: models differ",hist)
            elif op=="core":
                if kind=="Core":
                    hist.append(("core",i))
                    if not models(cons):
                        try:
                            core=s.unsat_core()
                            if models(list(core)): report(kind,f"core: core {[str(c) for c in core]} is satisfiable",hist)
                        except Exception as ex: report(kind,f"core!: {type(ex).__name__} {str(ex)[:60]}",hist)
            elif op=="combine" and len(states)>1:
                j=rnd.randrange(len(states))
                if j!=i:
                    o,oc=states[j]; hist.append(("combine",i,j))
                    cb=s.combine([o])
                    if set(models(cons+oc))!=set(a for a in itertools.product(range(M),repeat=2) if cb.satisfiable(extra_constraints=[x==a[0],y==a[1]])): report(kind,"combine: models differ",hist)
            elif op=="batch":
                e1,e2=x+rexpr(1),y^rexpr(1); hist.append(("batch",i,str(e1),str(e2)))
                ms=models(cons); want={(ev(e1,a),ev(e2,a)) for a in ms}
                try: got=s.batch_eval([e1,e2],3)
                except claripy.UnsatError: got=None
                if ms:
                    if got is None: report(kind,"batch: UnsatError but models exist",hist)
                    elif not set(map(tuple,got))<=want or len(set(map(tuple,got)))!=min(3,len(want)): report(kind,f"batch: got {got} want {min(3,len(want))} of {sorted(want)[:6]}",hist)
                elif got: report(kind,f"batch: unsat but got {got}",hist)
            elif op=="istrue":
                c=rcons(0); hist.append(("istrue",i,str(c)))
                ms=models(cons)
                if ms:
                    t=s.is_true(c); f=s.is_false(c)
                    allt=all(ev(c,a) for a in ms); allf=not any(ev(c,a) for a in ms)
                    if t and not allt: report(kind,"is_true: True but a model falsifies it",hist)
                    if f and not allf: report(kind,"is_false: True but a model satisfies it",hist)
        except claripy.UnsatError:
            if models(cons) and op not in ("eval","min","max","sat","solution"): report(kind,f"{op}: stray UnsatError",hist)
        except Exception as ex:
            report(kind,f"{op}!: {type(ex).__name__}: {str(ex)[:100]}",hist)
for k,(w,h) in sorted(bugs.items()):
    print(k, w); 
    for st in h[-8:]: print("      ",st)
print("histories",N,"distinct issue kinds",len(bugs))
