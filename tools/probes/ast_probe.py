"""AST differential probe (triage aid): random BV/Bool expression trees are built both as claripy ASTs and as an
oracle closure; for every assignment of the variables the folded claripy value (variables replaced by constants,
concrete backend) and the Z3 value (solver with x == a) are compared with the oracle."""
import logging; logging.disable(logging.CRITICAL)
import random, sys, itertools
import claripy
seed=int(sys.argv[1]) if len(sys.argv)>1 else 1
N=int(sys.argv[2]) if len(sys.argv)>2 else 2000
rnd=random.Random(seed)
def M(w): return (1<<w)-1
def sg(v,w): return v-(1<<w) if v>>(w-1) else v
def trunc_div(a,b): 
    q=abs(a)//abs(b); return q if (a<0)==(b<0) else -q
class E:  # (claripy ast, oracle fn(env)->int, width or 'B')
    def __init__(s,a,f,w): s.a=a; s.f=f; s.w=w
VARS={}
def var(w):
    n=f"v{w}_{rnd.randrange(2)}"
    if n not in VARS: VARS[n]=(claripy.BVS(n,w,explicit_name=True),w)
    a=VARS[n][0]
    return E(a,lambda env,n=n:env[n],w)
def const(w):
    v=rnd.choice([0,1,M(w),1<<(w-1),rnd.randrange(1<<w)])&M(w)
    return E(claripy.BVV(v,w),lambda env,v=v:v,w)
def bv(w,d):
    if d==0 or rnd.random()<.2: return var(w) if rnd.random()<.65 else const(w)
    k=rnd.choice(["add","sub","mul","and","or","xor","not","neg","shl","lshr","ashr","udiv","urem","sdiv","smod","ite","ext","cat","zext","sext","rol","ror","rev"])
    if k in("not","neg"):
        a=bv(w,d-1)
        return E(~a.a,lambda env,a=a:None if a.f(env) is None else (~a.f(env))&M(w),w) if k=="not" else E(-a.a,lambda env,a=a:None if a.f(env) is None else (-a.f(env))&M(w),w)
    if k in("add","sub","mul","and","or","xor","udiv","urem","sdiv","smod","shl","lshr","ashr","rol","ror"):
        a,b=bv(w,d-1),bv(w,d-1)
        def f(env,a=a,b=b,k=k):
            x,y=a.f(env),b.f(env)
            if x is None or y is None: return None
            if k=="add": return (x+y)&M(w)
            if k=="sub": return (x-y)&M(w)
            if k=="mul": return (x*y)&M(w)
            if k=="and": return x&y
            if k=="or": return x|y
            if k=="xor": return x^y
            if k=="udiv": return None if y==0 else x//y
            if k=="urem": return None if y==0 else x%y
            if k=="sdiv": return None if y==0 else trunc_div(sg(x,w),sg(y,w))&M(w)
            if k=="smod":
                if y==0: return None
                sx,sy=sg(x,w),sg(y,w); r=abs(sx)%abs(sy); r=-r if sx<0 else r   # SMT bvsrem: sign of dividend
                return r&M(w)
            if k=="shl": return (x<<y)&M(w) if y<w else 0
            if k=="lshr": return x>>y if y<w else 0
            if k=="ashr": return (sg(x,w)>>min(y,w))&M(w)
            if k=="rol": r=y%w; return ((x<<r)|(x>>(w-r)))&M(w) if r else x
            if k=="ror": r=y%w; return ((x>>r)|(x<<(w-r)))&M(w) if r else x
        ca={"add":lambda:a.a+b.a,"sub":lambda:a.a-b.a,"mul":lambda:a.a*b.a,"and":lambda:a.a&b.a,"or":lambda:a.a|b.a,"xor":lambda:a.a^b.a,
            "udiv":lambda:a.a//b.a,"urem":lambda:a.a%b.a,"sdiv":lambda:claripy.SDiv(a.a,b.a),"smod":lambda:claripy.SMod(a.a,b.a),
            "shl":lambda:a.a<<b.a,"lshr":lambda:claripy.LShR(a.a,b.a),"ashr":lambda:a.a>>b.a,"rol":lambda:claripy.RotateLeft(a.a,b.a),"ror":lambda:claripy.RotateRight(a.a,b.a)}[k]()
        return E(ca,f,w)
    if k=="ite":
        c=bl(d-1); a,b=bv(w,d-1),bv(w,d-1)
        def f(env,c=c,a=a,b=b):
            cv=c.f(env)
            if cv is None: return None
            return a.f(env) if cv else b.f(env)
        return E(claripy.If(c.a,a.a,b.a),f,w)
    if k=="ext":
        w2=w+rnd.randint(0,3); a=bv(w2,d-1); lo=rnd.randint(0,w2-w)
        return E(a.a[lo+w-1:lo],lambda env,a=a,lo=lo:None if a.f(env) is None else (a.f(env)>>lo)&M(w),w)
    if k=="cat":
        if w<2: return var(w)
        w1=rnd.randint(1,w-1); a,b=bv(w1,d-1),bv(w-w1,d-1)
        return E(claripy.Concat(a.a,b.a),lambda env,a=a,b=b:None if a.f(env) is None or b.f(env) is None else (a.f(env)<<(w-w1))|b.f(env),w)
    if k in("zext","sext"):
        if w<2: return var(w)
        w1=rnd.randint(1,w-1); a=bv(w1,d-1)
        if k=="zext": return E(claripy.ZeroExt(w-w1,a.a),lambda env,a=a:a.f(env),w)
        return E(claripy.SignExt(w-w1,a.a),lambda env,a=a:None if a.f(env) is None else sg(a.f(env),w1)&M(w),w)
    if k=="rev":
        if w%8: return var(w)
        a=bv(w,d-1)
        return E(a.a.reversed,lambda env,a=a:None if a.f(env) is None else int.from_bytes(a.f(env).to_bytes(w//8,'big'),'little'),w)
def bl(d):
    k=rnd.choice(["eq","ne","ult","ule","ugt","uge","slt","sle","sgt","sge","and","or","not","eq","ult","slt"]) if d>0 else rnd.choice(["eq","ult","slt"])
    if k in("and","or","not"):
        a=bl(d-1)
        if k=="not": return E(claripy.Not(a.a),lambda env,a=a:None if a.f(env) is None else not a.f(env),'B')
        b=bl(d-1)
        def f(env,a=a,b=b,k=k):
            x,y=a.f(env),b.f(env)
            if x is None or y is None: return None
            return (x and y) if k=="and" else (x or y)
        return E(claripy.And(a.a,b.a) if k=="and" else claripy.Or(a.a,b.a),f,'B')
    w=rnd.choice([1,2,3,4,8]); a,b=bv(w,max(d-1,0)),bv(w,max(d-1,0))
    ops={"eq":(lambda:a.a==b.a,lambda x,y:x==y),"ne":(lambda:a.a!=b.a,lambda x,y:x!=y),"ult":(lambda:claripy.ULT(a.a,b.a),lambda x,y:x<y),"ule":(lambda:claripy.ULE(a.a,b.a),lambda x,y:x<=y),
         "ugt":(lambda:claripy.UGT(a.a,b.a),lambda x,y:x>y),"uge":(lambda:claripy.UGE(a.a,b.a),lambda x,y:x>=y),"slt":(lambda:claripy.SLT(a.a,b.a),lambda x,y:sg(x,w)<sg(y,w)),
         "sle":(lambda:claripy.SLE(a.a,b.a),lambda x,y:sg(x,w)<=sg(y,w)),"sgt":(lambda:claripy.SGT(a.a,b.a),lambda x,y:sg(x,w)>sg(y,w)),"sge":(lambda:claripy.SGE(a.a,b.a),lambda x,y:sg(x,w)>=sg(y,w))}
    ca,g=ops[k]
    def f(env,a=a,b=b,g=g):
        x,y=a.f(env),b.f(env)
        if x is None or y is None: return None
        return g(x,y)
    return E(ca(),f,'B')
issues={}
def report(kind, info):
    if kind not in issues: issues[kind]=info
tot=0
for it in range(N):
    VARS.clear()
    w=rnd.choice([1,2,3,4,8])
    try:
        e=bv(w,rnd.randint(1,3)) if rnd.random()<.7 else bl(rnd.randint(1,2))
    except claripy.errors.ClaripyZeroDivisionError: continue
    except Exception as ex:
        report("build!"+type(ex).__name__, str(ex)[:100]); continue
    names=sorted(n for n in VARS if n in e.a.variables) if hasattr(e.a,'variables') else []
    if sum(VARS[n][1] for n in names)>10: continue
    tot+=1
    doms=[range(1<<VARS[n][1]) for n in names]
    s=claripy.Solver()
    for asg in itertools.product(*doms):
        env=dict(zip(names,asg))
        for n in VARS: env.setdefault(n,0)
        want=e.f(env)
        if want is None: continue
        want=bool(want) if e.w=='B' else want
        try:
            cc=e.a
            for n,v in zip(names,asg): cc=claripy.replace(cc,VARS[n][0],claripy.BVV(v,VARS[n][1]))
            r=claripy.backends.concrete.convert(cc); got=r.value if hasattr(r,'value') else bool(r)
            if got!=want: report("fold", (str(e.a)[:200],env,got,want)); break
        except claripy.errors.ClaripyZeroDivisionError: pass
        except Exception as ex:
            report("fold!"+type(ex).__name__, (str(e.a)[:200],env,str(ex)[:80])); break
        if rnd.random()<.15:
            try:
                ex_=[VARS[n][0]==v for n,v in zip(names,asg)]
                if e.w=='B':
                    got=s.is_true(e.a,extra_constraints=ex_) if want else s.is_false(e.a,extra_constraints=ex_)
                    if not got and s.satisfiable(extra_constraints=ex_+[e.a if want else claripy.Not(e.a)]) is False: report("z3-bool",(str(e.a)[:200],env,want))
                else:
                    got=s.eval(e.a,2,extra_constraints=ex_)
                    if tuple(got)!=(want,): report("z3",(str(e.a)[:200],env,got,want)); break
            except Exception as ex:
                report("z3!"+type(ex).__name__,(str(e.a)[:200],env,str(ex)[:80])); break
print("trees",tot)
for k,v in sorted(issues.items()): print(k, v)
