"""String differential probe (triage aid): concrete folding and Z3 solving of claripy string operations are compared
with the SMT-LIB meaning computed in Python, on small strings over a small alphabet (incl. backslash, quotes, unicode)."""
import logging; logging.disable(logging.CRITICAL)
import random, sys, itertools
import claripy
seed=int(sys.argv[1]) if len(sys.argv)>1 else 1
N=int(sys.argv[2]) if len(sys.argv)>2 else 600
rnd=random.Random(seed)
ALPHA=["a","b","0","7","\\","u","{","}","\"","é","-"," "]
def rs(maxlen=4): return "".join(rnd.choice(ALPHA) for _ in range(rnd.randint(0,maxlen)))
def smt_substr(s,i,n):
    if i<0 or i>=len(s) or n<=0: return ""
    return s[i:i+n]
def smt_indexof(s,t,i):
    if i<0 or i>len(s): return -1
    return s.find(t,i)
def smt_to_int(s):
    return int(s) if s!="" and all(c in "0123456789" for c in s) else -1
def smt_from_int(n): return str(n) if n>=0 else ""
issues={}
def report(k,info):
    if k not in issues: issues[k]=info
def bvi(v): return claripy.BVV(v%(1<<64),64)
def val(r):
    return r.value if hasattr(r,'value') else r
tot=0
for it in range(N):
    a,b,c=rs(),rs(2),rs(2); i=rnd.choice([0,1,2,3,5,-1 % (1<<64)]); n=rnd.choice([0,1,2,9,(1<<64)-1])
    A,B,C=claripy.StringV(a),claripy.StringV(b),claripy.StringV(c)
    si=i; sn=n   # claripy reads positions and counts as unsigned 64-bit numbers
    cases=[("concat",lambda:claripy.StrConcat(A,B),a+b),("len",lambda:claripy.StrLen(A),len(a)),("substr",lambda:claripy.StrSubstr(bvi(i),bvi(n),A),smt_substr(a,si,sn)),
           ("contains",lambda:claripy.StrContains(A,B),b in a),("prefixof",lambda:claripy.StrPrefixOf(B,A),a.startswith(b)),("suffixof",lambda:claripy.StrSuffixOf(B,A),a.endswith(b)),
           ("replace",lambda:claripy.StrReplace(A,B,C),a.replace(b,c,1) if b!="" else c+a),("indexof",lambda:claripy.StrIndexOf(A,B,bvi(i)),smt_indexof(a,b,si)),
           ("toint",lambda:claripy.StrToInt(A),smt_to_int(a)),("eq",lambda:A==B,a==b),("ne",lambda:A!=B,a!=b)]
    k=rnd.choice([0,3,12,99]); cases.append(("fromint",lambda:claripy.IntToStr(bvi(k)),smt_from_int(k)))
    for nm,mk,want in cases:
        tot+=1
        try: e=mk()
        except Exception as ex: report(nm+"-build!"+type(ex).__name__,(a,b,c,i,n,str(ex)[:80])); continue
        # fold
        try:
            r=val(claripy.backends.concrete.convert(e))
            w=want % (1<<64) if isinstance(want,int) and not isinstance(want,bool) else want
            if r!=w: report(nm+"-fold",(a,b,c,si,sn,r,w))
        except Exception as ex: report(nm+"-fold!"+type(ex).__name__,(a,b,c,i,n,str(ex)[:80]))
        # z3: make one operand symbolic and pin it
        if rnd.random()<.25:
            try:
                X=claripy.StringS("X",8); s=claripy.SolverStrings(); s.add(X==A)
                es={"concat":lambda:claripy.StrConcat(X,B),"len":lambda:claripy.StrLen(X),"substr":lambda:claripy.StrSubstr(bvi(i),bvi(n),X),"contains":lambda:claripy.StrContains(X,B),
                    "prefixof":lambda:claripy.StrPrefixOf(B,X),"suffixof":lambda:claripy.StrSuffixOf(B,X),"replace":lambda:claripy.StrReplace(X,B,C),"indexof":lambda:claripy.StrIndexOf(X,B,bvi(i)),
                    "toint":lambda:claripy.StrToInt(X),"isdigit":lambda:claripy.StrIsDigit(X),"eq":lambda:X==B,"ne":lambda:X!=B}.get(nm)
                if es is None: continue
                ez=es()
                if isinstance(want,bool):
                    if s.satisfiable(extra_constraints=[claripy.Not(ez) if want else ez]): report(nm+"-z3",(a,b,c,si,sn,want))
                else:
                    got=s.eval(ez,2)
                    w=want % (1<<64) if isinstance(want,int) else want
                    if tuple(got)!=(w,): report(nm+"-z3",(a,b,c,si,sn,got,w))
            except Exception as ex: report(nm+"-z3!"+type(ex).__name__,(a,b,c,i,n,str(ex)[:100]))
print("cases",tot)
for k,v in sorted(issues.items()): print(k,v)
