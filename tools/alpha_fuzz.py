#!/venv/bin/python
"""Alpha-renaming fuzz: rename every local variable (not parameters, globals or attributes) of every function of the
package in an in-memory overlay and run every rule.  Renaming locals never changes behaviour, so any finding or
analysis error points at a rule that depends on a local's *name*.

usage: alpha_fuzz.py [module-path-substring ...]      (default: every module, one module at a time)"""

import ast
import os
import sys

VERIF = os.path.dirname(os.path.dirname(os.path.abspath(__file__)))
sys.path.insert(0, VERIF)

from sa import core, report, rules  # noqa: E402

rules.load_all()


def locals_of(fn):
    params = {a.arg for a in fn.args.args + fn.args.kwonlyargs + fn.args.posonlyargs}
    if fn.args.vararg:
        params.add(fn.args.vararg.arg)
    if fn.args.kwarg:
        params.add(fn.args.kwarg.arg)
    declared = set()
    stores = set()
    stack = list(fn.body)
    while stack:
        n = stack.pop()
        if isinstance(n, (ast.FunctionDef, ast.AsyncFunctionDef, ast.ClassDef, ast.Lambda)):
            continue
        if isinstance(n, (ast.Global, ast.Nonlocal)):
            declared |= set(n.names)
        if isinstance(n, ast.Name) and isinstance(n.ctx, (ast.Store, ast.Del)):
            stores.add(n.id)
        if isinstance(n, ast.ExceptHandler) and n.name:
            pass  # handler names are left alone
        stack.extend(ast.iter_child_nodes(n))
    return {s for s in stores - params - declared if not s.startswith("__")}


class Renamer(ast.NodeTransformer):
    def __init__(self, names):
        self.names = names

    def visit_Name(self, n):
        if n.id in self.names:
            return ast.copy_location(ast.Name(id=n.id + "_rn", ctx=n.ctx), n)
        return n

    def _nested(self, n):
        params = {a.arg for a in n.args.args + n.args.kwonlyargs + n.args.posonlyargs}
        inner = Renamer(self.names - params)
        n.body = [inner.visit(b) for b in n.body] if isinstance(n.body, list) else inner.visit(n.body)
        return n

    def visit_FunctionDef(self, n):
        return self._nested(n)

    def visit_Lambda(self, n):
        return self._nested(n)


def rename_module(src):
    tree = ast.parse(src)
    count = 0
    for node in ast.walk(tree):
        if isinstance(node, (ast.FunctionDef, ast.AsyncFunctionDef)):
            names = locals_of(node)
            if not names:
                continue
            count += len(names)
            r = Renamer(names)
            node.body = [r.visit(b) for b in node.body]
    ast.fix_missing_locations(tree)
    return ast.unparse(tree), count


class IfSwap(ast.NodeTransformer):
    """`if c: A else: B` -> `if not c: B else: A` (two-armed ifs and conditional expressions)"""

    n = 0

    def visit_If(self, node):
        self.generic_visit(node)
        if node.orelse and not (len(node.orelse) == 1 and isinstance(node.orelse[0], ast.If)):
            IfSwap.n += 1
            t = node.test.operand if isinstance(node.test, ast.UnaryOp) and isinstance(node.test.op, ast.Not) else ast.UnaryOp(op=ast.Not(), operand=node.test)
            node.test, node.body, node.orelse = t, node.orelse, node.body
        return node

    def visit_IfExp(self, node):
        self.generic_visit(node)
        IfSwap.n += 1
        t = node.test.operand if isinstance(node.test, ast.UnaryOp) and isinstance(node.test.op, ast.Not) else ast.UnaryOp(op=ast.Not(), operand=node.test)
        node.test, node.body, node.orelse = t, node.orelse, node.body
        return node


class IfSplit(ast.NodeTransformer):
    """`if a and b: X` (no else) -> `if a:\n    if b: X`"""

    n = 0

    def visit_If(self, node):
        self.generic_visit(node)
        if not node.orelse and isinstance(node.test, ast.BoolOp) and isinstance(node.test.op, ast.And):
            IfSplit.n += 1
            vals = node.test.values
            inner = ast.If(test=vals[-1] if len(vals) == 2 else ast.BoolOp(op=ast.And(), values=vals[1:]), body=node.body, orelse=[])
            node.test, node.body = vals[0], [inner]
        return node


class IfMerge(ast.NodeTransformer):
    """`if a:\n    if b: X` (no elses, nothing else in the outer body) -> `if a and b: X`"""

    n = 0

    def visit_If(self, node):
        self.generic_visit(node)
        if not node.orelse and len(node.body) == 1 and isinstance(node.body[0], ast.If) and not node.body[0].orelse:
            IfMerge.n += 1
            inner = node.body[0]
            node.test = ast.BoolOp(op=ast.And(), values=[node.test, inner.test])
            node.body = inner.body
        return node


class Hoist(ast.NodeTransformer):
    """`x = f(g(a), b)` / `return f(g(a), b)` -> `h = g(a)` + `x = f(h, b)`: the first argument, when it is itself a
    call, is evaluated into a fresh local just before the statement (same evaluation order)."""

    n = 0

    def _block(self, stmts):
        out = []
        for st in stmts:
            target = None
            if isinstance(st, (ast.Assign, ast.Return, ast.Expr)) and isinstance(getattr(st, "value", None), ast.Call):
                c = st.value
                if c.args and isinstance(c.args[0], ast.Call) and not isinstance(c.func, ast.Call) and not any(isinstance(x, (ast.Lambda, ast.GeneratorExp, ast.ListComp, ast.NamedExpr, ast.Yield, ast.Await)) for x in ast.walk(c.func)):
                    target = c
            if target is not None and isinstance(target.func, (ast.Name, ast.Attribute)) and not any(isinstance(x, ast.Call) for x in ast.walk(target.func)):
                Hoist.n += 1
                nm = f"hoisted_{Hoist.n}"
                out.append(ast.Assign(targets=[ast.Name(id=nm, ctx=ast.Store())], value=target.args[0], lineno=st.lineno, col_offset=st.col_offset))
                target.args[0] = ast.Name(id=nm, ctx=ast.Load())
            out.append(st)
        return out

    def generic_visit(self, node):
        super().generic_visit(node)
        if isinstance(node, (ast.FunctionDef, ast.AsyncFunctionDef, ast.If, ast.For, ast.While, ast.With, ast.Try)):
            for fld in ("body", "orelse", "finalbody"):
                b = getattr(node, fld, None)
                if isinstance(b, list) and b and isinstance(b[0], ast.stmt):
                    setattr(node, fld, self._block(b))
        return node


def transform_module(src, mode):
    if mode == "rename":
        return rename_module(src)
    cls = {"ifswap": IfSwap, "ifsplit": IfSplit, "ifmerge": IfMerge, "hoist": Hoist}[mode]
    cls.n = 0
    tree = cls().visit(ast.parse(src))
    ast.fix_missing_locations(tree)
    return ast.unparse(tree), cls.n


def findings(tree):
    out = set()
    errs = set()
    for rd in report.RULES.values():
        rec = report.R(rd, tree, "quick")
        try:
            rd.fn(rec)
        except core.AnalysisError as e:
            errs.add(f"{rd.rid}: {str(e)[:160]}")
            continue
        except Exception as e:  # noqa: BLE001
            errs.add(f"{rd.rid}: internal {type(e).__name__}: {str(e)[:120]}")
            continue
        if len(rec.instances) < rd.floor and not rec.findings:
            errs.add(f"{rd.rid}: {len(rec.instances)} instances < floor {rd.floor}")
        for f in rec.findings:
            out.add((f.rule, f.site, f.message[:200]))
    return out, errs


def _one(args):
    path, src, n, bf, be = args
    t = core.Tree(overlay={path: src})
    f, e = findings(t)
    base_sites = {(x[0], x[1]) for x in bf}
    nf = sorted(x for x in f if (x[0], x[1]) not in base_sites)
    ne = sorted(e - be)
    return path, n, nf, ne


def main():
    import multiprocessing

    base = core.Tree()
    bf, be = findings(base)
    args = sys.argv[1:]
    mode = "rename"
    if args[:1] == ["--mode"]:
        mode = args[1]
        args = args[2:]
    sel = args
    jobs = []
    for name, mod in sorted(base.modules.items()):
        if sel and not any(s in mod.path for s in sel):
            continue
        new_src, n = transform_module(mod.src, mode)
        if n:
            jobs.append((mod.path, new_src, n, bf, be))
    total_f = total_e = 0
    with multiprocessing.Pool(14) as pool:
        for path, n, nf, ne in pool.imap_unordered(_one, jobs):
            if nf or ne:
                print(f"== {path}: {n} sites transformed ({mode})")
                for x in nf:
                    print("   FINDING", x[0], x[1].split("::")[-1], "|", x[2][:150])
                for x in ne:
                    print("   ERROR  ", x)
                total_f += len(nf)
                total_e += len(ne)
    print(f"fuzz[{mode}]: {len(jobs)} modules, {total_f} findings, {total_e} analysis errors caused by a behaviour-preserving transformation")
    return 1 if total_f or total_e else 0


if __name__ == "__main__":
    sys.exit(main())
