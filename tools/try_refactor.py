#!/venv/bin/python
"""Run rules against a stored refactoring without a worktree: the patch is applied to temporary copies of the files
it touches and the result is used as an in-memory overlay.
usage: try_refactor.py <refactors/tag_i | seeded/name> [rule-id ...]   (default: every rule)"""
import os
import shutil
import subprocess
import sys
import tempfile

VERIF = os.path.dirname(os.path.dirname(os.path.abspath(__file__)))
sys.path.insert(0, VERIF)
from sa import core, report, rules  # noqa: E402

rules.load_all()


def overlay_from(diff):
    paths = [ln[6:].strip() for ln in open(diff) if ln.startswith("+++ b/")]
    tmp = tempfile.mkdtemp(prefix="tryrf_")
    try:
        for p in paths:
            os.makedirs(os.path.dirname(os.path.join(tmp, p)), exist_ok=True)
            shutil.copy(os.path.join(core.REPO, p), os.path.join(tmp, p))
        r = subprocess.run(["patch", "-p1", "-s", "-i", os.path.abspath(diff)], cwd=tmp, capture_output=True, text=True)
        if r.returncode != 0:
            raise SystemExit("patch failed: " + r.stdout + r.stderr)
        return {p: open(os.path.join(tmp, p)).read() for p in paths}
    finally:
        shutil.rmtree(tmp, ignore_errors=True)


def main():
    d = sys.argv[1]
    diff = os.path.join(d, "patch.diff") if os.path.isdir(d) else d
    only = set(sys.argv[2:])
    t = core.Tree(overlay=overlay_from(diff))
    base = core.Tree()
    bad = 0
    for rid, rd in sorted(report.RULES.items()):
        if only and rid not in only:
            continue
        out = []
        for tree in (base, t):
            rec = report.R(rd, tree, "quick")
            try:
                rd.fn(rec)
                res = {(f.site, f.construct) for f in rec.findings}
                if len(rec.instances) < rd.floor and not rec.findings:
                    res = {("ERROR", f"{len(rec.instances)} instances < floor {rd.floor}")}
            except core.AnalysisError as e:
                res = {("ERROR", str(e)[:200])}
            except Exception as e:  # noqa: BLE001
                res = {("ERROR", f"internal {type(e).__name__}: {e}"[:200])}
            out.append((res, rec))
        new = out[1][0] - out[0][0]
        # a crash of the rule itself is never 'silent', even where the base tree crashes alike
        new |= {x for x in out[1][0] if x[0] == "ERROR" and x[1].startswith("internal")}
        if new:
            bad += 1
            for site, c in sorted(new):
                msg = next((f.message for f in out[1][1].findings if f.site == site and f.construct == c), "")
                print(f"{rid}: {site.split('::')[-1]} | {c[:100]} | {msg[:260]}")
    print("not silent" if bad else "silent")


if __name__ == "__main__":
    main()
