#!/venv/bin/python
"""Re-evaluate every seeded change under /verif/seeded against the current /repo and the current checks.
usage: seed_rerun.py [-j N] [name ...]   (default: all, 4 at a time)"""
import concurrent.futures
import json
import os
import subprocess
import sys

VERIF = os.path.dirname(os.path.dirname(os.path.abspath(__file__)))
root = os.path.join(VERIF, "seeded")
argv = sys.argv[1:]
jobs = 4
if argv[:1] == ["-j"]:
    jobs = int(argv[1])
    argv = argv[2:]
names = argv or sorted(d for d in os.listdir(root) if os.path.isfile(os.path.join(root, d, "meta.json")))
needs_file = os.path.join(root, "needs.json")
needs = json.load(open(needs_file)) if os.path.exists(needs_file) else {}
base = "/tmp/seed_baseline.json"
if os.path.exists(base):
    os.remove(base)
# compute the baseline (findings on the unchanged tree) once
out = subprocess.run(["/venv/bin/python", "-m", "sa", "all"], cwd=VERIF, capture_output=True, text=True, env={**os.environ, "SA_EVIDENCE_DIR": "/tmp/seed_evidence", "SA_REPLAY_DIR": "/tmp/seed_replay"}).stdout
json.dump(sorted({ln.split("] ", 1)[1][:300] for ln in out.splitlines() if ln.startswith("  claripy/") and ": [" in ln and "] " in ln}), open(base, "w"))
os.environ["SEED_BASELINE"] = base


def one(n):
    d = os.path.join(root, n)
    meta = json.load(open(os.path.join(d, "meta.json")))
    need = needs.get(n) or meta.get("needs", "")
    p = subprocess.run(
        ["/venv/bin/python", os.path.join(VERIF, "tools", "seed_eval.py"), meta["property"], n, os.path.join(d, "patch.diff"), os.path.join(d, "demo.py"), need],
        capture_output=True,
        text=True,
    )
    return (p.stdout + p.stderr).strip().splitlines()[-2:]


with concurrent.futures.ThreadPoolExecutor(jobs) as ex:
    for lines in ex.map(one, names):
        for ln in lines:
            print(ln[:260], flush=True)
