#!/venv/bin/python
"""Re-evaluate every seeded change under /verif/seeded against the current /repo and the current checks.
usage: seed_rerun.py [name ...]   (default: all)"""
import json, os, subprocess, sys
VERIF = os.path.dirname(os.path.dirname(os.path.abspath(__file__)))
root = os.path.join(VERIF, "seeded")
names = sys.argv[1:] or sorted(d for d in os.listdir(root) if os.path.isfile(os.path.join(root, d, "meta.json")))
needs_file = os.path.join(root, "needs.json")
needs = json.load(open(needs_file)) if os.path.exists(needs_file) else {}
os.environ["SEED_BASELINE"] = "/tmp/seed_baseline.json"
if os.path.exists(os.environ["SEED_BASELINE"]):
    os.remove(os.environ["SEED_BASELINE"])
for n in names:
    d = os.path.join(root, n)
    meta = json.load(open(os.path.join(d, "meta.json")))
    need = needs.get(n) or meta.get("needs", "")
    subprocess.run(["/venv/bin/python", os.path.join(VERIF, "tools", "seed_eval.py"), meta["property"], n, os.path.join(d, "patch.diff"), os.path.join(d, "demo.py"), need])
