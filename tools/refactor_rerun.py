#!/venv/bin/python
"""Re-apply every stored behaviour-preserving refactoring (/verif/refactors/<tag>_<i>/patch.diff) to scratch worktrees of
/repo and run all checks against each: prints every diff whose verdict is not `silent`.
usage: refactor_rerun.py [-j N]"""
import concurrent.futures
import os
import re
import shutil
import subprocess
import sys
import tempfile

VERIF = os.path.dirname(os.path.dirname(os.path.abspath(__file__)))
root = os.path.join(VERIF, "refactors")
jobs = int(sys.argv[2]) if sys.argv[1:2] == ["-j"] else 6
groups = {}
for d in sorted(os.listdir(root)):
    m = re.fullmatch(r"(.+)_(\d+)", d)
    if m and os.path.isfile(os.path.join(root, d, "patch.diff")):
        groups.setdefault(m.group(1), []).append((int(m.group(2)), os.path.join(root, d, "patch.diff")))


def one(tag):
    tmp = tempfile.mkdtemp(prefix=f"rfr_{tag}_")
    try:
        for i, p in groups[tag]:
            shutil.copy(p, os.path.join(tmp, f"refactor_{i}.diff"))
        out = subprocess.run(["/venv/bin/python", os.path.join(VERIF, "tools", "refactor_eval.py"), tag, tmp], capture_output=True, text=True)
        return (out.stdout + out.stderr).splitlines()
    finally:
        shutil.rmtree(tmp, ignore_errors=True)


total = bad = 0
with concurrent.futures.ThreadPoolExecutor(jobs) as ex:
    for lines in ex.map(one, sorted(groups)):
        for ln in lines:
            if " | " in ln:
                total += 1
                if "| silent" not in ln:
                    bad += 1
                    print(ln[:400], flush=True)
print(f"refactors: {total} evaluated, {total - bad} silent, {bad} not silent")
sys.exit(1 if bad else 0)
