"""Op registry (the operations.op(...) declarations and their bindings) and the static
re-derivation of each backend's dispatch table, exactly as Backend.__init__ /
_make_raw_ops / _make_expr_ops / Backend._call resolve handlers at run time."""

from __future__ import annotations

import ast
from dataclasses import dataclass, field

from .core import AnalysisError, FuncTypes, Sym, dotted

AST_MODULES = ("claripy/ast/bv.py", "claripy/ast/bool.py", "claripy/ast/fp.py", "claripy/ast/strings.py")


@dataclass
class OpDecl:
    name: str
    arg_types: object  # tuple of type-name strings, or a single type-name string (variadic)
    ret: str
    extra_check: str | None
    calc_length: object  # ast node or None
    node: ast.Call
    path: str
    bound_as: list = field(default_factory=list)  # [(cls, attr)] or [(None, name)]


@dataclass
class Binding:
    cls: str | None
    attr: str
    kind: str  # op | reversed | alias | lambda | other
    target: object  # OpDecl | (cls, attr) | name
    node: ast.AST
    path: str
    wrapper: str | None = None  # staticmethod | property


def _is_op_call(node):
    return isinstance(node, ast.Call) and dotted(node.func) in ("operations.op", "op")


def _is_reversed_call(node):
    return isinstance(node, ast.Call) and dotted(node.func) in ("operations.reversed_op", "reversed_op")


def _type_text(n):
    if isinstance(n, (ast.Tuple, ast.List)):
        return tuple(_type_text(e) for e in n.elts)
    return dotted(n) or ast.unparse(n)


def _decl(call, path):
    if len(call.args) < 3:
        raise AnalysisError(f"operations.op call with {len(call.args)} positional arguments in {path}:{call.lineno}")
    name = call.args[0]
    if not (isinstance(name, ast.Constant) and isinstance(name.value, str)):
        raise AnalysisError(f"operations.op with a non-literal name in {path}:{call.lineno}")
    kws = {k.arg: k.value for k in call.keywords}
    ec = kws.get("extra_check")
    return OpDecl(
        name=name.value,
        arg_types=_type_text(call.args[1]),
        ret=_type_text(call.args[2]),
        extra_check=(dotted(ec) or ast.unparse(ec)) if ec is not None else None,
        calc_length=kws.get("calc_length"),
        node=call,
        path=path,
    )


class Registry:
    def __init__(self, tree):
        self.tree = tree
        self.decls: list[OpDecl] = []
        self.bindings: list[Binding] = []
        self.unbound: dict[tuple[str, str], OpDecl] = {}  # (path, name) -> decl
        for path in AST_MODULES:
            self._scan(tree.mod(path))
        if len(self.decls) < 80:
            raise AnalysisError(f"only {len(self.decls)} operations.op declarations found (expected about 98)")

    def _scan(self, mod):
        for st in mod.tree.body:
            if not isinstance(st, ast.Assign) or len(st.targets) != 1:
                continue
            tgt, val = st.targets[0], st.value
            wrapper = None
            inner = val
            if isinstance(val, ast.Call) and dotted(val.func) in ("staticmethod", "property") and val.args:
                wrapper = dotted(val.func)
                inner = val.args[0]
            if isinstance(tgt, ast.Name):
                if _is_op_call(inner):
                    d = _decl(inner, mod.path)
                    d.bound_as.append((None, tgt.id))
                    self.decls.append(d)
                    self.unbound[(mod.path, tgt.id)] = d
                    self.bindings.append(Binding(None, tgt.id, "op", d, st, mod.path, wrapper))
            elif isinstance(tgt, ast.Attribute) and isinstance(tgt.value, ast.Name):
                cls, attr = tgt.value.id, tgt.attr
                if cls not in ("BV", "Bool", "FP", "String", "Bits", "Base"):
                    continue
                if _is_op_call(inner):
                    d = _decl(inner, mod.path)
                    d.bound_as.append((cls, attr))
                    self.decls.append(d)
                    self.bindings.append(Binding(cls, attr, "op", d, st, mod.path, wrapper))
                elif _is_reversed_call(inner):
                    a = inner.args[0]
                    if isinstance(a, ast.Attribute) and isinstance(a.value, ast.Name):
                        self.bindings.append(Binding(cls, attr, "reversed", (a.value.id, a.attr), st, mod.path, wrapper))
                    else:
                        self.bindings.append(Binding(cls, attr, "reversed", ast.unparse(a), st, mod.path, wrapper))
                elif isinstance(inner, ast.Attribute) and isinstance(inner.value, ast.Name):
                    self.bindings.append(Binding(cls, attr, "alias", (inner.value.id, inner.attr), st, mod.path, wrapper))
                elif isinstance(inner, ast.Name):
                    self.bindings.append(Binding(cls, attr, "alias", (None, inner.id), st, mod.path, wrapper))
                elif isinstance(inner, ast.Lambda):
                    self.bindings.append(Binding(cls, attr, "lambda", ast.unparse(inner), st, mod.path, wrapper))

    def resolve(self, cls, attr, depth=0):
        """Follow aliases to the OpDecl bound at (cls, attr); returns (decl, reversed?) or (None, False)."""
        if depth > 6:
            return None, False
        cands = [b for b in self.bindings if b.cls == cls and b.attr == attr]
        if not cands:
            return None, False
        b = cands[-1]
        if b.kind == "op":
            return b.target, False
        if b.kind == "alias":
            d, r = self.resolve(b.target[0], b.target[1], depth + 1)
            return d, r
        if b.kind == "reversed" and isinstance(b.target, tuple):
            d, r = self.resolve(b.target[0], b.target[1], depth + 1)
            return d, not r
        return None, False

    def ops_by_name(self):
        out = {}
        for d in self.decls:
            out.setdefault(d.name, []).append(d)
        return out


# ----------------------------------------------------------------------------- dispatch


@dataclass
class Handler:
    kind: str  # func | method | opfallback | unsupported | expr
    fn: object = None  # FunctionDef
    owner: str = ""  # module path or class
    via: str = ""  # how it was installed (text)
    path: str = ""


BACKENDS = {
    "concrete": ("claripy/backends/backend_concrete/backend_concrete.py", "BackendConcrete"),
    "z3": ("claripy/backends/backend_z3.py", "BackendZ3"),
    "vsa": ("claripy/backends/backend_vsa/backend_vsa.py", "BackendVSA"),
}

VALUE_CLASSES = {
    "concrete": [
        ("claripy/backends/backend_concrete/bv.py", "BVV"),
        ("claripy/backends/backend_concrete/fp.py", "FPV"),
        ("claripy/backends/backend_concrete/strings.py", "StringV"),
    ],
    "vsa": [
        ("claripy/backends/backend_vsa/strided_interval.py", "StridedInterval"),
        ("claripy/backends/backend_vsa/discrete_strided_interval_set.py", "DiscreteStridedIntervalSet"),
        ("claripy/backends/backend_vsa/valueset.py", "ValueSet"),
        ("claripy/backends/backend_vsa/bool_result.py", "BoolResult"),
    ],
    "z3": [],
}


class Dispatch:
    """op -> Handler for one backend, derived by interpreting the backend's __init__."""

    def __init__(self, tree, backend):
        self.tree = tree
        self.backend = backend
        path, cname = BACKENDS[backend]
        self.path, self.cname = path, cname
        self.mod = tree.mod(path)
        self.cls = tree.cls(path, cname)
        self.raw: dict[str, Handler] = {}
        self.expr: dict[str, Handler] = {}
        self._interpret_init()

    # -- helpers
    def _method(self, name):
        c, fn = self.tree.find_method(self.cls, name)
        return fn, (c.name if c is not None else "")

    def _module_func(self, modexpr, name):
        """Resolve getattr(<module or class expr>, name) to a def."""
        r = self.tree.resolve_expr(self.mod, modexpr) if not isinstance(modexpr, str) else None
        if r and r[0] == "module":
            m = r[1]
            if name in m.functions:
                return m.functions[name], m.path
            if name in m.classes:
                return m.classes[name], m.path
            return None, m.path
        if r and r[0] == "class":
            c = r[1]
            for st in c.body:
                if isinstance(st, FuncTypes) and st.name == name:
                    return st, c._module.path + "::" + c.name
            return None, c.name
        return None, ""

    def _eval_set(self, node, env):
        if isinstance(node, ast.Name) and node.id in env:
            return env[node.id]
        if isinstance(node, ast.Call) and dotted(node.func) in ("set", "frozenset") and len(node.args) == 1:
            return frozenset(self._eval_set(node.args[0], env))
        if isinstance(node, ast.BinOp) and isinstance(node.op, (ast.BitOr, ast.Sub, ast.BitAnd)):
            left, right = self._eval_set(node.left, env), self._eval_set(node.right, env)
            if isinstance(node.op, ast.BitOr):
                return left | right
            if isinstance(node.op, ast.Sub):
                return left - right
            return left & right
        v = self.tree.eval_const(self.mod, node)
        if isinstance(v, (frozenset, set, tuple)):
            return frozenset(v)
        raise AnalysisError(f"dispatch[{self.backend}]: cannot fold op set `{ast.unparse(node)}`")

    def _interpret_init(self):
        init = self.tree.class_methods(self.cls).get("__init__")
        if init is None:
            raise AnalysisError(f"{self.cname}.__init__ not found")
        env = {}
        for st in init.body:
            self._stmt(st, env)
        if len(self.raw) < 20:
            raise AnalysisError(f"dispatch[{self.backend}]: only {len(self.raw)} raw handlers derived")

    def _store(self, table, key, valnode, via):
        h = None
        if isinstance(valnode, ast.Attribute) and isinstance(valnode.value, ast.Name):
            if valnode.value.id in ("self", self.cname):
                fn, owner = self._method(valnode.attr)
                if fn is None:
                    raise AnalysisError(f"dispatch[{self.backend}]: handler {ast.unparse(valnode)} for {key} not found")
                h = Handler("method", fn, owner, via, fn._module.path if hasattr(fn, "_module") else self.path)
        if h is None:
            raise AnalysisError(f"dispatch[{self.backend}]: unsupported handler expression `{ast.unparse(valnode)}`")
        (self.raw if table == "_op_raw" else self.expr)[key] = h

    def _stmt(self, st, env):
        if isinstance(st, ast.Expr) and isinstance(st.value, ast.Constant):
            return
        if isinstance(st, ast.Expr) and isinstance(st.value, ast.Call):
            c = st.value
            d = dotted(c.func) or ""
            if d in ("Backend.__init__", "super().__init__") or d.endswith(".__init__"):
                return
            if d in ("self._make_raw_ops", "self._make_expr_ops"):
                ops = self._eval_set(c.args[0], env)
                kws = {k.arg: k.value for k in c.keywords}
                src = kws.get("op_module") or kws.get("op_class")
                if src is None or "op_dict" in kws:
                    raise AnalysisError(f"dispatch[{self.backend}]: {d} without op_module/op_class")
                table = self.raw if d.endswith("raw_ops") else self.expr
                for o in sorted(ops):
                    if isinstance(src, ast.Name) and src.id == "self":
                        fn, owner = self._method(o)
                        where = owner
                    else:
                        fn, where = self._module_func(src, o)
                    if fn is not None:
                        table[o] = Handler(
                            "func" if not (isinstance(src, ast.Name) and src.id in ("self", self.cname)) else "method",
                            fn,
                            where,
                            f"{d}(..., {ast.unparse(src)})",
                            where.split("::")[0] if where else self.path,
                        )
                return
            return
        if isinstance(st, ast.Assign) and len(st.targets) == 1:
            t = st.targets[0]
            if isinstance(t, ast.Subscript) and dotted(t.value) in ("self._op_raw", "self._op_expr"):
                key = t.slice
                if not (isinstance(key, ast.Constant) and isinstance(key.value, str)):
                    raise AnalysisError(f"dispatch[{self.backend}]: non-literal op key `{ast.unparse(t)}`")
                self._store(dotted(t.value).split(".")[1], key.value, st.value, ast.unparse(st))
                return
            if isinstance(t, ast.Name):
                try:
                    env[t.id] = self._eval_set(st.value, env)
                except AnalysisError:
                    pass
                return
            return
        if isinstance(st, ast.AugAssign) and isinstance(st.target, ast.Name) and st.target.id in env:
            rhs = self._eval_set(st.value, env)
            if isinstance(st.op, ast.BitOr):
                env[st.target.id] = env[st.target.id] | rhs
            elif isinstance(st.op, ast.Sub):
                env[st.target.id] = env[st.target.id] - rhs
            else:
                raise AnalysisError(f"dispatch[{self.backend}]: unsupported set update `{ast.unparse(st)}`")
            return
        if isinstance(st, ast.For) and isinstance(st.target, ast.Name):
            ops = self._eval_set(st.iter, env)
            # body: self._op_raw[o] = getattr(self, "<prefix>" + o)
            for b in st.body:
                if not (
                    isinstance(b, ast.Assign)
                    and isinstance(b.targets[0], ast.Subscript)
                    and dotted(b.targets[0].value) in ("self._op_raw", "self._op_expr")
                    and isinstance(b.value, ast.Call)
                    and dotted(b.value.func) == "getattr"
                ):
                    raise AnalysisError(f"dispatch[{self.backend}]: loop body outside fragment `{ast.unparse(b)}`")
                table = dotted(b.targets[0].value).split(".")[1]
                nm = b.value.args[1]
                if isinstance(nm, ast.BinOp) and isinstance(nm.left, ast.Constant) and isinstance(nm.right, ast.Name):
                    prefix = nm.left.value
                elif isinstance(nm, ast.Name):
                    prefix = ""
                else:
                    raise AnalysisError(f"dispatch[{self.backend}]: getattr name outside fragment `{ast.unparse(nm)}`")
                for o in sorted(ops):
                    fn, owner = self._method(prefix + o)
                    if fn is None:
                        raise AnalysisError(
                            f"dispatch[{self.backend}]: {self.cname}.__init__ installs getattr(self, '{prefix}{o}') "
                            f"but no such method exists (AttributeError at import time)"
                        )
                    (self.raw if table == "_op_raw" else self.expr)[o] = Handler(
                        "method", fn, owner, f"getattr(self, '{prefix}' + o)", self.path
                    )
            return
        if isinstance(st, ast.If):
            # configuration branches (e.g. reuse_z3_solver default) do not install handlers
            for b in st.body + st.orelse:
                if isinstance(b, ast.Assign) and isinstance(b.targets[0], ast.Subscript):
                    raise AnalysisError(f"dispatch[{self.backend}]: conditional handler installation")
            return

    # -- query
    def handler(self, op):
        if op in self.expr:
            h = self.expr[op]
            return Handler("expr", h.fn, h.owner, h.via, h.path)
        if op in self.raw:
            return self.raw[op]
        if op.startswith("__"):
            return Handler("opfallback", None, "", f"getattr(operator, '{op}')(*args)")
        return Handler("unsupported")

    def value_class_method(self, op):
        """For an operator fallback: [(class name, FunctionDef | None)] over the backend's value classes."""
        out = []
        for path, cname in VALUE_CLASSES[self.backend]:
            c = self.tree.cls(path, cname)
            own = {st.name: st for st in c.body if isinstance(st, FuncTypes)}
            out.append((cname, own.get(op), c))
        return out


def unwrap_decorated(fn):
    return fn


def sym_name(v):
    if isinstance(v, Sym):
        s = str(v)
        return s.split(":", 1)[1] if ":" in s else s
    return v
