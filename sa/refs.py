"""Frozen reference tables (the trusted base of the table-agreement rules).

They state the SMT-LIB meaning of claripy's operators, the Z3 API entry points with that
meaning, the decl kinds those entry points produce, and a few Python-level facts
(decimal rounding modes).  They are *not* derived from the repository.
"""

# ---- dunder -> op name, per AST class --------------------------------------------------
SAME = [
    "__add__", "__sub__", "__mul__", "__floordiv__", "__mod__", "__and__", "__or__", "__xor__",
    "__lshift__", "__rshift__", "__invert__", "__neg__", "__eq__", "__ne__",
]
DUNDER_OP = {
    "BV": {
        **{d: d for d in SAME},
        "__truediv__": "__floordiv__",
        "__ge__": "UGE", "__le__": "ULE", "__gt__": "UGT", "__lt__": "ULT",
    },
    "Bool": {"__invert__": "Not", "__and__": "And", "__or__": "Or", "__eq__": "__eq__", "__ne__": "__ne__"},
    "FP": {
        "__eq__": "fpEQ", "__ne__": "fpNEQ", "__ge__": "fpGEQ", "__le__": "fpLEQ", "__gt__": "fpGT", "__lt__": "fpLT",
        "__add__": "fpAdd", "__sub__": "fpSub", "__mul__": "fpMul", "__truediv__": "fpDiv",
        "__abs__": "fpAbs", "__neg__": "fpNeg",
    },
    "String": {"__add__": "StrConcat", "__eq__": "__eq__", "__ne__": "__ne__"},
}
# named attributes whose name differs from the op they denote
ATTR_ALIAS = {
    ("FP", "isNaN"): "fpIsNaN", ("FP", "isInf"): "fpIsInf", ("FP", "Sqrt"): "fpSqrt", ("BV", "reversed"): "Reverse",
}
COMMUTATIVE = {"__and__", "__or__", "__xor__", "__add__", "__mul__", "And", "Or", "Xor"}

# ---- comparison relations -----------------------------------------------------------------
# swapping the operands
SWAP = {
    "__eq__": "__eq__", "__ne__": "__ne__",
    "ULT": "UGT", "UGT": "ULT", "ULE": "UGE", "UGE": "ULE",
    "SLT": "SGT", "SGT": "SLT", "SLE": "SGE", "SGE": "SLE",
}
# logical negation
NEGATE = {
    "__eq__": "__ne__", "__ne__": "__eq__",
    "ULT": "UGE", "UGE": "ULT", "UGT": "ULE", "ULE": "UGT",
    "SLT": "SGE", "SGE": "SLT", "SGT": "SLE", "SLE": "SGT",
}
# comparison_info: op -> (is_lt, is_equal, is_unsigned)
COMPARISON_INFO = {
    "SLT": (True, False, False), "SLE": (True, True, False), "SGT": (False, False, False), "SGE": (False, True, False),
    "ULT": (True, False, True), "ULE": (True, True, True), "UGT": (False, False, True), "UGE": (False, True, True),
}

# ---- Z3 entry points with the SMT-LIB meaning of each claripy BV/Bool op ----------------------
# "py:<op>" = the Python operator on z3 expression objects (signed for <,<=,>,>=,/ ; ashr for >>)
Z3_FORWARD = {
    "__floordiv__": {"z3.Z3_mk_bvudiv", "z3.UDiv"},
    "__mod__": {"z3.Z3_mk_bvurem", "z3.URem"},
    "SDiv": {"py:/", "z3.Z3_mk_bvsdiv"},
    "SMod": {"z3.Z3_mk_bvsrem", "z3.SRem"},
    "LShR": {"z3.Z3_mk_bvlshr", "z3.LShR"},
    "ULT": {"z3.Z3_mk_bvult", "z3.ULT"}, "ULE": {"z3.Z3_mk_bvule", "z3.ULE"},
    "UGT": {"z3.Z3_mk_bvugt", "z3.UGT"}, "UGE": {"z3.Z3_mk_bvuge", "z3.UGE"},
    "SLT": {"py:<", "z3.Z3_mk_bvslt"}, "SLE": {"py:<=", "z3.Z3_mk_bvsle"},
    "SGT": {"py:>", "z3.Z3_mk_bvsgt"}, "SGE": {"py:>=", "z3.Z3_mk_bvsge"},
    "Concat": {"z3.Z3_mk_concat", "z3.Concat"},
    "Extract": {"z3.Z3_mk_extract", "z3.Extract"},
    "ZeroExt": {"z3.Z3_mk_zero_ext", "z3.ZeroExt"},
    "SignExt": {"z3.Z3_mk_sign_ext", "z3.SignExt"},
    "RotateLeft": {"z3.Z3_mk_ext_rotate_left", "z3.RotateLeft"},
    "RotateRight": {"z3.Z3_mk_ext_rotate_right", "z3.RotateRight"},
    "If": {"z3.Z3_mk_ite", "z3.If"},
    "And": {"z3.Z3_mk_and", "z3.And"}, "Or": {"z3.Z3_mk_or", "z3.Or"}, "Not": {"z3.Z3_mk_not", "z3.Not"},
    "Xor": {"z3.Z3_mk_xor", "z3.Xor"},
    "__add__": {"operator.__add__", "py:+", "z3.Z3_mk_bvadd"},
    "__sub__": {"operator.__sub__", "py:-", "z3.Z3_mk_bvsub"},
    "__mul__": {"operator.__mul__", "py:*", "z3.Z3_mk_bvmul"},
    "__or__": {"operator.__or__", "py:|", "z3.Z3_mk_bvor"},
    "__and__": {"operator.__and__", "py:&", "z3.Z3_mk_bvand"},
    "__xor__": {"operator.__xor__", "py:^", "z3.Z3_mk_bvxor"},
    # floats
    "fpAbs": {"z3.Z3_mk_fpa_abs", "z3.fpAbs"}, "fpNeg": {"z3.Z3_mk_fpa_neg", "z3.fpNeg"},
    "fpAdd": {"z3.Z3_mk_fpa_add", "z3.fpAdd"}, "fpSub": {"z3.Z3_mk_fpa_sub", "z3.fpSub"},
    "fpMul": {"z3.Z3_mk_fpa_mul", "z3.fpMul"}, "fpDiv": {"z3.Z3_mk_fpa_div", "z3.fpDiv"},
    "fpSqrt": {"z3.Z3_mk_fpa_sqrt", "z3.fpSqrt"},
    "fpLT": {"z3.Z3_mk_fpa_lt", "z3.fpLT"}, "fpLEQ": {"z3.Z3_mk_fpa_leq", "z3.fpLEQ"},
    "fpGT": {"z3.Z3_mk_fpa_gt", "z3.fpGT"}, "fpGEQ": {"z3.Z3_mk_fpa_geq", "z3.fpGEQ"},
    "fpEQ": {"z3.Z3_mk_fpa_eq", "z3.fpEQ"},
    "fpNEQ": {"z3.Z3_mk_fpa_eq", "z3.fpNEQ"},  # must additionally be wrapped in a negation
    "fpIsNaN": {"z3.Z3_mk_fpa_is_nan", "z3.fpIsNaN"}, "fpIsInf": {"z3.Z3_mk_fpa_is_infinite", "z3.fpIsInf"},
    "fpFP": {"z3.Z3_mk_fpa_fp", "z3.fpFP"},
    "fpToSBV": {"z3.Z3_mk_fpa_to_sbv", "z3.fpToSBV"}, "fpToUBV": {"z3.Z3_mk_fpa_to_ubv", "z3.fpToUBV"},
    "fpToIEEEBV": {"z3.Z3_mk_fpa_to_ieee_bv", "z3.fpToIEEEBV"},
    "fpToFP": {"z3.fpToFP"}, "fpToFPUnsigned": {"z3.fpToFPUnsigned"},
    # strings
    "StrConcat": {"z3.Concat"}, "StrSubstr": {"z3.SubString", "z3.Extract"}, "StrLen": {"z3.Length"},
    "StrReplace": {"z3.Replace"}, "StrContains": {"z3.Contains"}, "StrPrefixOf": {"z3.PrefixOf"},
    "StrSuffixOf": {"z3.SuffixOf"}, "StrIndexOf": {"z3.IndexOf"}, "StrToInt": {"z3.StrToInt"},
    "IntToStr": {"z3.IntToStr"},
}

# decl kind produced by each entry point (on bit-vector / float / sequence operands)
Z3_KIND = {
    "z3.Z3_mk_bvudiv": "BUDIV", "z3.UDiv": "BUDIV", "z3.Z3_mk_bvurem": "BUREM", "z3.URem": "BUREM",
    "py:/": "BSDIV", "z3.Z3_mk_bvsdiv": "BSDIV", "z3.Z3_mk_bvsrem": "BSREM", "z3.SRem": "BSREM",
    "z3.Z3_mk_bvlshr": "BLSHR", "z3.LShR": "BLSHR",
    "z3.Z3_mk_bvult": "ULT", "z3.ULT": "ULT", "z3.Z3_mk_bvule": "ULEQ", "z3.ULE": "ULEQ",
    "z3.Z3_mk_bvugt": "UGT", "z3.UGT": "UGT", "z3.Z3_mk_bvuge": "UGEQ", "z3.UGE": "UGEQ",
    "py:<": "SLT", "z3.Z3_mk_bvslt": "SLT", "py:<=": "SLEQ", "z3.Z3_mk_bvsle": "SLEQ",
    "py:>": "SGT", "z3.Z3_mk_bvsgt": "SGT", "py:>=": "SGEQ", "z3.Z3_mk_bvsge": "SGEQ",
    "z3.Z3_mk_concat": "CONCAT", "z3.Z3_mk_extract": "EXTRACT",
    "z3.Z3_mk_zero_ext": "ZERO_EXT", "z3.ZeroExt": "ZERO_EXT", "z3.Z3_mk_sign_ext": "SIGN_EXT", "z3.SignExt": "SIGN_EXT",
    "z3.Z3_mk_ext_rotate_left": "EXT_ROTATE_LEFT", "z3.RotateLeft": "EXT_ROTATE_LEFT",
    "z3.Z3_mk_ext_rotate_right": "EXT_ROTATE_RIGHT", "z3.RotateRight": "EXT_ROTATE_RIGHT",
    "z3.Z3_mk_ite": "ITE", "z3.If": "ITE",
    "z3.Z3_mk_and": "AND", "z3.And": "AND", "z3.Z3_mk_or": "OR", "z3.Or": "OR",
    "z3.Z3_mk_not": "NOT", "z3.Not": "NOT", "z3.Z3_mk_xor": "XOR", "z3.Xor": "XOR",
    "operator.__add__": "BADD", "py:+": "BADD", "z3.Z3_mk_bvadd": "BADD",
    "operator.__sub__": "BSUB", "py:-": "BSUB", "z3.Z3_mk_bvsub": "BSUB",
    "operator.__mul__": "BMUL", "py:*": "BMUL", "z3.Z3_mk_bvmul": "BMUL",
    "operator.__or__": "BOR", "py:|": "BOR", "z3.Z3_mk_bvor": "BOR",
    "operator.__and__": "BAND", "py:&": "BAND", "z3.Z3_mk_bvand": "BAND",
    "operator.__xor__": "BXOR", "py:^": "BXOR", "z3.Z3_mk_bvxor": "BXOR",
    "z3.Z3_mk_fpa_abs": "FPA_ABS", "z3.fpAbs": "FPA_ABS", "z3.Z3_mk_fpa_neg": "FPA_NEG", "z3.fpNeg": "FPA_NEG",
    "z3.Z3_mk_fpa_add": "FPA_ADD", "z3.fpAdd": "FPA_ADD", "z3.Z3_mk_fpa_sub": "FPA_SUB", "z3.fpSub": "FPA_SUB",
    "z3.Z3_mk_fpa_mul": "FPA_MUL", "z3.fpMul": "FPA_MUL", "z3.Z3_mk_fpa_div": "FPA_DIV", "z3.fpDiv": "FPA_DIV",
    "z3.Z3_mk_fpa_sqrt": "FPA_SQRT", "z3.fpSqrt": "FPA_SQRT",
    "z3.Z3_mk_fpa_lt": "FPA_LT", "z3.fpLT": "FPA_LT", "z3.Z3_mk_fpa_leq": "FPA_LE", "z3.fpLEQ": "FPA_LE",
    "z3.Z3_mk_fpa_gt": "FPA_GT", "z3.fpGT": "FPA_GT", "z3.Z3_mk_fpa_geq": "FPA_GE", "z3.fpGEQ": "FPA_GE",
    "z3.Z3_mk_fpa_eq": "FPA_EQ", "z3.fpEQ": "FPA_EQ",
    "z3.Z3_mk_fpa_is_nan": "FPA_IS_NAN", "z3.fpIsNaN": "FPA_IS_NAN",
    "z3.Z3_mk_fpa_is_infinite": "FPA_IS_INF", "z3.fpIsInf": "FPA_IS_INF",
    "z3.Z3_mk_fpa_fp": "FPA_FP", "z3.fpFP": "FPA_FP",
    "z3.Z3_mk_fpa_to_sbv": "FPA_TO_SBV", "z3.fpToSBV": "FPA_TO_SBV",
    "z3.Z3_mk_fpa_to_ubv": "FPA_TO_UBV", "z3.fpToUBV": "FPA_TO_UBV",
    "z3.Z3_mk_fpa_to_ieee_bv": "FPA_TO_IEEE_BV", "z3.fpToIEEEBV": "FPA_TO_IEEE_BV",
    "z3.fpToFP": "FPA_TO_FP", "z3.fpToFPUnsigned": "FPA_TO_FP_UNSIGNED",
    "z3.SubString": "SEQ_EXTRACT", "z3.Length": "SEQ_LENGTH", "z3.Replace": "SEQ_REPLACE",
    "z3.Contains": "SEQ_CONTAINS", "z3.PrefixOf": "SEQ_PREFIX", "z3.SuffixOf": "SEQ_SUFFIX",
    "z3.IndexOf": "SEQ_INDEX", "z3.StrToInt": "STR_TO_INT", "z3.IntToStr": "INT_TO_STR",
}
# operators dispatched through Python's operator module onto z3 expression objects
Z3_OPERATOR_KIND = {
    "__eq__": "EQ", "__ne__": "DISTINCT", "__lshift__": "BSHL", "__rshift__": "BASHR",
    "__invert__": "BNOT", "__neg__": "BNEG",
}
# string ops produce sequence kinds that claripy cannot abstract at all (String-sorted round trips are unsupported)
Z3_STRING_KIND = {
    "StrConcat": "SEQ_CONCAT", "StrSubstr": "SEQ_EXTRACT", "StrLen": "SEQ_LENGTH", "StrReplace": "SEQ_REPLACE",
    "StrContains": "SEQ_CONTAINS", "StrPrefixOf": "SEQ_PREFIX", "StrSuffixOf": "SEQ_SUFFIX",
    "StrIndexOf": "SEQ_INDEX", "StrToInt": "STR_TO_INT", "IntToStr": "INT_TO_STR",
}

# ---- concrete bit-vector semantics: handler -> (python operator, left operand view, right operand view) ----
CONCRETE_BV = {
    # dunders on the value class
    "BVV.__add__": ("+", "value", "value"), "BVV.__sub__": ("-", "value", "value"),
    "BVV.__mul__": ("*", "value", "value"), "BVV.__mod__": ("%", "value", "value"),
    "BVV.__floordiv__": ("//", "value", "value"), "BVV.__and__": ("&", "value", "value"),
    "BVV.__or__": ("|", "value", "value"), "BVV.__xor__": ("^", "value", "value"),
    "BVV.__lshift__": ("<<", "value", "value"), "BVV.__rshift__": (">>", "signed", "value"),
    "BVV.__eq__": ("==", "value", "value"), "BVV.__ne__": ("!=", "value", "value"),
    # module-level handlers
    "ULT": ("<", "value", "value"), "ULE": ("<=", "value", "value"),
    "UGT": (">", "value", "value"), "UGE": (">=", "value", "value"),
    "SLT": ("<", "signed", "signed"), "SLE": ("<=", "signed", "signed"),
    "SGT": (">", "signed", "signed"), "SGE": (">=", "signed", "signed"),
    "LShR": (">>", "value", "value"),
}
CONCRETE_DIVISIONS = {"BVV.__mod__", "BVV.__floordiv__", "SDiv", "SMod"}
CONCRETE_VIEW = {"ZeroExt": "value", "SignExt": "signed", "Extract": "value"}

# ---- rounding modes --------------------------------------------------------------------------
RM_DECIMAL = {
    "RM_NearestTiesEven": "ROUND_HALF_EVEN",
    "RM_NearestTiesAwayFromZero": "ROUND_HALF_UP",
    "RM_TowardsZero": "ROUND_DOWN",
    "RM_TowardsPositiveInf": "ROUND_CEILING",
    "RM_TowardsNegativeInf": "ROUND_FLOOR",
}
RM_Z3 = {
    "RM_NearestTiesEven": "Z3_mk_fpa_round_nearest_ties_to_even",
    "RM_NearestTiesAwayFromZero": "Z3_mk_fpa_round_nearest_ties_to_away",
    "RM_TowardsZero": "Z3_mk_fpa_round_toward_zero",
    "RM_TowardsPositiveInf": "Z3_mk_fpa_round_toward_positive",
    "RM_TowardsNegativeInf": "Z3_mk_fpa_round_toward_negative",
}
RM_Z3_KIND = {
    "Z3_OP_FPA_RM_NEAREST_TIES_TO_EVEN": "RM_NearestTiesEven",
    "Z3_OP_FPA_RM_NEAREST_TIES_TO_AWAY": "RM_NearestTiesAwayFromZero",
    "Z3_OP_FPA_RM_TOWARD_ZERO": "RM_TowardsZero",
    "Z3_OP_FPA_RM_TOWARD_POSITIVE": "RM_TowardsPositiveInf",
    "Z3_OP_FPA_RM_TOWARD_NEGATIVE": "RM_TowardsNegativeInf",
}

# ---- width formulas: op -> linear form over the op's parameters ------------------------------------
# forms are dicts term -> coefficient; "argN.length" refers to the N-th declared argument
WIDTH = {
    "same0": {"arg0.length": 1},
    "extract": {"arg0": 1, "arg1": -1, "1": 1},  # high - low + 1
    "ext": {"arg0": 1, "arg1.length": 1},  # amount + orig.length
    "concat": "sum",
}
WIDTH_KIND = {
    "Extract": "extract", "ZeroExt": "ext", "SignExt": "ext", "Concat": "concat",
}

# ---- primitive argument slots (C04.opguard): op -> indices of args that are Python values, not ASTs ----
PRIMITIVE_SLOTS = {
    "BVV": {0, 1}, "BoolV": {0}, "FPV": {0, 1}, "StringV": {0}, "BVS": {0, 1}, "BoolS": {0}, "FPS": {0, 1},
    "StringS": {0}, "Extract": {0, 1}, "ZeroExt": {0}, "SignExt": {0},
}
