"""Statement-level control-flow graph with exceptional edges, for path rules.

Handles if/for/while/try/except/else/finally/with/return/raise/break/continue/match.
Any statement containing a call (or a raise) may raise: an edge goes to the
innermost handler / finally, else to the exceptional exit.  `finally` bodies are
instantiated once per way of entering them (normal, exceptional, return,
break, continue) so paths do not get mixed.
"""

from __future__ import annotations

import ast
from dataclasses import dataclass, field

from .core import FuncTypes


@dataclass(eq=False)
class Node:
    kind: str  # stmt | test | entry | exit | raise | join | loop
    ast: object = None
    succ: list = field(default_factory=list)  # (Node, label)  label: None | 'T' | 'F' | 'exc'
    tag: str = ""

    def add(self, other, label=None):
        if other is not None and not any(o is other and l == label for o, l in self.succ):
            self.succ.append((other, label))

    def __repr__(self):
        t = ast.unparse(self.ast).split("\n")[0][:60] if self.ast is not None else ""
        return f"<{self.kind} {self.tag} {t}>"


class _Ctx:
    def __init__(self, exc, ret, brk=None, cont=None):
        self.exc = exc  # where an exception goes
        self.ret = ret  # where a return goes
        self.brk = brk
        self.cont = cont

    def replace(self, **kw):
        c = _Ctx(self.exc, self.ret, self.brk, self.cont)
        for k, v in kw.items():
            setattr(c, k, v)
        return c


def _may_raise(node, no_raise):
    for n in ast.walk(node):
        if isinstance(n, FuncTypes + (ast.Lambda, ast.ClassDef)) and n is not node:
            continue
        if isinstance(n, ast.Call):
            if no_raise is not None and no_raise(n):
                continue
            return True
        if isinstance(n, (ast.Subscript, ast.Attribute, ast.BinOp)) and False:
            return True
    return False


class CFG:
    def __init__(self, fn, no_raise=None):
        self.fn = fn
        self.no_raise = no_raise
        self.entry = Node("entry")
        self.exit = Node("exit")
        self.raise_exit = Node("raise")
        self.nodes = [self.entry, self.exit, self.raise_exit]
        ctx = _Ctx(self.raise_exit, self.exit)
        last = self._seq(fn.body, [self.entry], ctx)
        for n in last:
            n.add(self.exit)

    # each builder takes the list of predecessor "open ends" [(node,label)...] expressed as nodes that
    # need their fallthrough connected; returns the new list of open ends.
    def _new(self, kind, a=None, tag=""):
        n = Node(kind, a, tag=tag)
        self.nodes.append(n)
        return n

    def _connect(self, preds, node):
        for p in preds:
            if isinstance(p, tuple):
                p[0].add(node, p[1])
            else:
                p.add(node)

    def _seq(self, body, preds, ctx):
        for st in body:
            preds = self._stmt(st, preds, ctx)
            if not preds:
                # unreachable remainder still gets built? skip: dead code is irrelevant to path rules
                break
        return preds

    def _simple(self, st, preds, ctx, kind="stmt"):
        n = self._new(kind, st)
        self._connect(preds, n)
        if _may_raise(st, self.no_raise) or isinstance(st, (ast.Raise, ast.Assert)):
            n.add(ctx.exc, "exc")
        return n

    def _stmt(self, st, preds, ctx):
        if isinstance(st, ast.If):
            t = self._simple(st.test, preds, ctx, "test")
            t.ast = st.test
            t.tag = "if"
            outs = self._seq(st.body, [(t, "T")], ctx)
            if st.orelse:
                outs = outs + self._seq(st.orelse, [(t, "F")], ctx)
            else:
                outs = outs + [(t, "F")]
            return outs
        if isinstance(st, (ast.For, ast.AsyncFor)):
            it = self._simple(st.iter, preds, ctx, "stmt")
            head = self._new("loop", st.target, tag="for")
            it.add(head)
            after = self._new("join", tag="after-for")
            lctx = ctx.replace(brk=after, cont=head)
            outs = self._seq(st.body, [(head, "T")], lctx)
            self._connect(outs, head)
            else_outs = self._seq(st.orelse, [(head, "F")], ctx) if st.orelse else [(head, "F")]
            self._connect(else_outs, after)
            return [after]
        if isinstance(st, ast.While):
            head = self._simple(st.test, preds, ctx, "test")
            head.ast = st.test
            head.tag = "while"
            after = self._new("join", tag="after-while")
            lctx = ctx.replace(brk=after, cont=head)
            outs = self._seq(st.body, [(head, "T")], lctx)
            self._connect(outs, head)
            const_true = isinstance(st.test, ast.Constant) and bool(st.test.value)
            if not const_true:
                else_outs = self._seq(st.orelse, [(head, "F")], ctx) if st.orelse else [(head, "F")]
                self._connect(else_outs, after)
            return [after]
        if isinstance(st, (ast.With, ast.AsyncWith)):
            preds2 = preds
            for item in st.items:
                n = self._simple(item.context_expr, preds2, ctx)
                preds2 = [n]
            return self._seq(st.body, preds2, ctx)
        if isinstance(st, ast.Try) or (hasattr(ast, "TryStar") and isinstance(st, ast.TryStar)):
            return self._try(st, preds, ctx)
        if isinstance(st, ast.Return):
            n = self._simple(st, preds, ctx)
            n.add(ctx.ret)
            return []
        if isinstance(st, ast.Raise):
            n = self._new("stmt", st)
            self._connect(preds, n)
            n.add(ctx.exc, "exc")
            return []
        if isinstance(st, ast.Break):
            n = self._new("stmt", st)
            self._connect(preds, n)
            n.add(ctx.brk)
            return []
        if isinstance(st, ast.Continue):
            n = self._new("stmt", st)
            self._connect(preds, n)
            n.add(ctx.cont)
            return []
        if isinstance(st, ast.Match):
            subj = self._simple(st.subject, preds, ctx)
            outs = []
            has_default = False
            for case in st.cases:
                cn = self._new("test", case.pattern, tag="case")
                subj.add(cn)
                outs += self._seq(case.body, [cn], ctx)
                if isinstance(case.pattern, ast.MatchAs) and case.pattern.pattern is None and case.guard is None:
                    has_default = True
            if not has_default:
                outs.append(subj)
            return outs
        if isinstance(st, FuncTypes + (ast.ClassDef,)):
            n = self._new("stmt", None, tag="def " + st.name)
            self._connect(preds, n)
            return [n]
        n = self._simple(st, preds, ctx)
        return [n]

    def _try(self, st, preds, ctx):
        after = self._new("join", tag="after-try")

        def fin(kind, target):
            """Instantiate the finally body for one way of entering; returns its entry node."""
            if not st.finalbody:
                return target
            e = self._new("join", tag=f"finally[{kind}]")
            outs = self._seq(st.finalbody, [e], ctx)
            self._connect(outs, target)
            return e

        fin_exc = fin("exc", ctx.exc)
        fin_ret = fin("ret", ctx.ret)
        fin_brk = fin("brk", ctx.brk) if ctx.brk is not None else None
        fin_cont = fin("cont", ctx.cont) if ctx.cont is not None else None
        fin_norm = fin("norm", after)

        # handlers
        hctx = ctx.replace(exc=fin_exc, ret=fin_ret, brk=fin_brk, cont=fin_cont)
        dispatch = self._new("join", tag="except-dispatch")
        catches_all = False
        for h in st.handlers:
            hn = self._new("join", h, tag="except " + (ast.unparse(h.type) if h.type is not None else ""))
            hn.ast = None
            hn.handler = h
            dispatch.add(hn)
            outs = self._seq(h.body, [hn], hctx)
            self._connect(outs, fin_norm)
            if h.type is None or ast.unparse(h.type) in ("BaseException",):
                catches_all = True
        if not catches_all:
            dispatch.add(fin_exc, "exc")
        bctx = ctx.replace(exc=dispatch if st.handlers else fin_exc, ret=fin_ret, brk=fin_brk, cont=fin_cont)
        outs = self._seq(st.body, preds, bctx)
        if st.orelse:
            outs = self._seq(st.orelse, outs, hctx)
        self._connect(outs, fin_norm)
        return [after]

    # ------------------------------------------------------------------ queries
    def find(self, pred):
        return [n for n in self.nodes if n.ast is not None and pred(n)]

    def paths_avoiding(self, start, is_target, correlate=True, assume=None, effects=None, stop_at_exits=True):
        """DFS from `start` (exclusive). Returns a list of offending paths (lists of nodes) that reach
        exit / raise_exit without passing a node for which is_target(node) holds.

        Branch tests are evaluated three-valued over *atomic facts* (text -> bool): facts come from
        `assume`, from the guards enclosing `start`, and from branches already taken on the path
        (a compound test contributes the atoms it implies).  A fact is dropped when one of the
        names it mentions is assigned; `effects(stmt_ast)` may return {fact_text: bool | None}
        for interprocedural effects (None = forget)."""
        from . import guards

        bad = []
        init_facts = self._facts_at(start) if correlate else {}
        if assume:
            init_facts.update(assume)
        stack = [(start, init_facts, [start])]
        seen = set()
        while stack:
            node, facts, path = stack.pop()
            for nxt, label in node.succ:
                nfacts = dict(facts)
                if node.kind == "test" and label in ("T", "F") and node.ast is not None and correlate:
                    want = label == "T"
                    val = _eval3(node.ast, facts)
                    if val is not None and val != want:
                        continue  # infeasible under the facts known on this path
                    for t, pol in guards._split_bool(node.ast, want):
                        try:
                            nfacts[ast.unparse(t)] = pol
                        except Exception:  # noqa: BLE001
                            pass
                if nxt.ast is not None and nxt.kind == "stmt" and correlate:
                    killed = _assigned_names(nxt.ast)
                    if killed:
                        nfacts = {k: v for k, v in nfacts.items() if not (_names(k) & killed)}
                    if effects is not None:
                        for k, v in (effects(nxt.ast) or {}).items():
                            if v is None:
                                nfacts.pop(k, None)
                            else:
                                nfacts[k] = v
                if nxt is self.exit or nxt is self.raise_exit:
                    bad.append(path + [nxt])
                    continue
                if is_target(nxt):
                    continue
                key = (id(nxt), tuple(sorted(nfacts.items())))
                if key in seen:
                    continue
                seen.add(key)
                stack.append((nxt, nfacts, path + [nxt]))
        return bad

    def _facts_at(self, node):
        """Facts implied syntactically by the enclosing ifs of the node's statement."""
        from . import guards

        facts = {}
        a = node.ast
        if a is None:
            return facts
        for t, pol in guards.guards_of(a):
            try:
                facts[ast.unparse(t)] = pol
            except Exception:  # noqa: BLE001
                pass
        return facts


def _eval3(test, facts):
    """Three-valued evaluation of a branch test over atomic facts (text -> bool)."""
    txt = ast.unparse(test)
    if txt in facts:
        return facts[txt]
    if isinstance(test, ast.UnaryOp) and isinstance(test.op, ast.Not):
        v = _eval3(test.operand, facts)
        return None if v is None else (not v)
    if isinstance(test, ast.BoolOp):
        vals = [_eval3(v, facts) for v in test.values]
        if isinstance(test.op, ast.And):
            if any(v is False for v in vals):
                return False
            return True if all(v is True for v in vals) else None
        if any(v is True for v in vals):
            return True
        return False if all(v is False for v in vals) else None
    if isinstance(test, ast.Constant):
        return bool(test.value)
    return None


_names_cache = {}


def _names(txt):
    if txt not in _names_cache:
        try:
            _names_cache[txt] = {n.id for n in ast.walk(ast.parse(txt, mode="eval")) if isinstance(n, ast.Name)}
        except SyntaxError:
            _names_cache[txt] = set()
    return _names_cache[txt]


def _assigned_names(st):
    out = set()
    for n in ast.walk(st):
        if isinstance(n, ast.Name) and isinstance(n.ctx, (ast.Store, ast.Del)):
            out.add(n.id)
    return out


def describe_path(path):
    out = []
    for n in path:
        if n.kind in ("exit", "raise"):
            out.append("<normal exit>" if n.kind == "exit" else "<exception propagates>")
        elif n.ast is not None:
            out.append(f"L{getattr(n.ast, 'lineno', '?')}:{ast.unparse(n.ast).splitlines()[0][:50]}")
        elif n.tag:
            out.append(f"[{n.tag}]")
    return " -> ".join(out)
