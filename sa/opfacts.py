"""Access paths over AST arguments and the facts `P.op in S` that guards establish about them.

Used by the op-shape guard rule (C04.opguard): an expression `P.args[i]` is a Python value only
when `P.op` is known to be an op whose i-th slot is primitive; otherwise it may be an AST and a
comparison on it in Boolean context calls Base.__bool__, which raises.
"""

from __future__ import annotations

import ast

from . import guards
from .core import FuncTypes, dotted, enclosing_function, walk_no_nested


def _targets(t):
    if isinstance(t, (ast.Tuple, ast.List)):
        return list(t.elts)
    return [t]


class Aliases:
    """Single-assignment locals that name an access path:  a0, a1 = a.args ; hi, lo = x.args[0:2] ; y = x.args[1]"""

    def __init__(self, fn):
        self.defs = {}
        counts = {}
        for st in walk_no_nested(fn):
            tg = None
            if isinstance(st, ast.Assign) and len(st.targets) == 1:
                tg, val = st.targets[0], st.value
            elif isinstance(st, (ast.For, ast.comprehension)):
                for t in _targets(st.target):
                    if isinstance(t, ast.Name):
                        counts[t.id] = counts.get(t.id, 0) + 2  # loop variables are never aliases
                continue
            else:
                continue
            elts = _targets(tg)
            for i, t in enumerate(elts):
                if not isinstance(t, ast.Name):
                    continue
                counts[t.id] = counts.get(t.id, 0) + 1
                path = None
                if len(elts) > 1:
                    # unpacking of X.args or X.args[a:b]
                    base, off = None, 0
                    if isinstance(val, ast.Attribute) and val.attr == "args":
                        base = val
                    elif (
                        isinstance(val, ast.Subscript)
                        and isinstance(val.value, ast.Attribute)
                        and val.value.attr == "args"
                        and isinstance(val.slice, ast.Slice)
                        and val.slice.step is None
                    ):
                        lo = val.slice.lower
                        if lo is None or (isinstance(lo, ast.Constant) and isinstance(lo.value, int) and lo.value >= 0):
                            base, off = val.value, (lo.value if lo is not None else 0)
                    if base is not None:
                        path = ast.Subscript(value=base, slice=ast.Constant(i + off), ctx=ast.Load())
                elif isinstance(val, (ast.Subscript, ast.Attribute, ast.Name)):
                    path = val
                if path is not None:
                    self.defs[t.id] = path
        for p in fn.args.posonlyargs + fn.args.args + fn.args.kwonlyargs:
            counts[p.arg] = counts.get(p.arg, 0) + 1
        self.defs = {k: v for k, v in self.defs.items() if counts.get(k, 0) == 1}

    def text(self, node, depth=0):
        """Canonical text of an access path with aliases substituted."""
        if depth > 6:
            return ast.unparse(node)
        if isinstance(node, ast.Name):
            if node.id in self.defs:
                return self.text(self.defs[node.id], depth + 1)
            return node.id
        if isinstance(node, ast.Attribute):
            return self.text(node.value, depth) + "." + node.attr
        if isinstance(node, ast.Subscript):
            return self.text(node.value, depth) + "[" + ast.unparse(node.slice) + "]"
        return ast.unparse(node)


def op_set_of_fact(test, polarity, al: Aliases):
    """If the fact constrains `<path>.op`, return (path_text, frozenset(ops)) else None."""
    if isinstance(test, guards._MatchFact):
        subj = test.subject
        if isinstance(subj, ast.Attribute) and subj.attr == "op":
            ops = _pattern_values(test.pattern)
            if ops is not None and polarity:
                return al.text(subj.value), frozenset(ops)
        return None
    if isinstance(test, ast.Compare) and len(test.ops) == 1:
        left, op, right = test.left, test.ops[0], test.comparators[0]
        if isinstance(left, ast.Attribute) and left.attr == "op":
            if isinstance(right, ast.Constant) and isinstance(right.value, str):
                if (isinstance(op, ast.Eq) and polarity) or (isinstance(op, ast.NotEq) and not polarity):
                    return al.text(left.value), frozenset({right.value})
            vals = _const_collection(right)
            if vals is not None:
                if (isinstance(op, ast.In) and polarity) or (isinstance(op, ast.NotIn) and not polarity):
                    return al.text(left.value), frozenset(vals)
    return None


def _const_collection(node):
    if isinstance(node, (ast.Set, ast.Tuple, ast.List)) and all(
        isinstance(e, ast.Constant) and isinstance(e.value, str) for e in node.elts
    ):
        return [e.value for e in node.elts]
    return None


def _pattern_values(p):
    if isinstance(p, ast.MatchValue) and isinstance(p.value, ast.Constant):
        return [p.value.value]
    if isinstance(p, ast.MatchOr):
        out = []
        for q in p.patterns:
            v = _pattern_values(q)
            if v is None:
                return None
            out += v
        return out
    return None


def quantified_facts(test, polarity):
    """all(v.op == K for v in L)  ->  (text of L, frozenset(ops)) ; None otherwise."""
    if not polarity or not (isinstance(test, ast.Call) and dotted(test.func) == "all" and len(test.args) == 1):
        return None
    g = test.args[0]
    if not isinstance(g, (ast.GeneratorExp, ast.ListComp)) or len(g.generators) != 1:
        return None
    gen = g.generators[0]
    if not isinstance(gen.target, ast.Name) or gen.ifs:
        return None
    e = g.elt
    if (
        isinstance(e, ast.Compare)
        and len(e.ops) == 1
        and isinstance(e.left, ast.Attribute)
        and e.left.attr == "op"
        and isinstance(e.left.value, ast.Name)
        and e.left.value.id == gen.target.id
    ):
        if isinstance(e.ops[0], ast.Eq) and isinstance(e.comparators[0], ast.Constant):
            return ast.unparse(gen.iter), frozenset({e.comparators[0].value})
        vals = _const_collection(e.comparators[0])
        if isinstance(e.ops[0], ast.In) and vals is not None:
            return ast.unparse(gen.iter), frozenset(vals)
    return None


def loop_source(name, node):
    """If `name` is the variable of an enclosing for/comprehension over L (or enumerate(L)), return text of L."""
    p = getattr(node, "_parent", None)
    while p is not None and not isinstance(p, FuncTypes):
        gens = []
        if isinstance(p, ast.For):
            gens = [(p.target, p.iter)]
        elif isinstance(p, (ast.GeneratorExp, ast.ListComp, ast.SetComp, ast.DictComp)):
            gens = [(g.target, g.iter) for g in p.generators]
        for tgt, it in gens:
            names = [t for t in ast.walk(tgt) if isinstance(t, ast.Name)]
            if any(t.id == name for t in names):
                if isinstance(it, ast.Call) and dotted(it.func) == "enumerate" and it.args:
                    it = it.args[0]
                if isinstance(it, ast.Call) and dotted(it.func) in ("reversed", "list", "tuple") and it.args:
                    it = it.args[0]
                return ast.unparse(it)
        p = getattr(p, "_parent", None)
    return None


class FactEnv:
    """Facts `path.op in S` valid at a node: enclosing guards + facts seeded at the function's entry."""

    def __init__(self, fn, seeds=None):
        self.fn = fn
        self.al = Aliases(fn)
        self.seeds = seeds or {}

    def ops_at(self, node, path_node):
        """Set of ops `path_node` may have at `node` (None = unknown)."""
        want = self.al.text(path_node)
        known = None
        facts = guards.guards_of(node)
        for t, pol in facts:
            r = op_set_of_fact(t, pol, self.al)
            if r and r[0] == want:
                known = r[1] if known is None else (known & r[1])
        if known is None and isinstance(path_node, ast.Name):
            src = loop_source(path_node.id, node)
            if src is not None:
                for t, pol in facts:
                    q = quantified_facts(t, pol)
                    if q and q[0] == src:
                        known = q[1] if known is None else (known & q[1])
        resolved = path_node
        hops = 0
        while isinstance(resolved, ast.Name) and resolved.id in self.al.defs and hops < 6:
            resolved = self.al.defs[resolved.id]
            hops += 1
        if known is None and isinstance(resolved, ast.Subscript):
            # an element L[k] of a collection L about which a quantified fact holds
            coll = resolved.value
            ctext = ast.unparse(coll)
            atext = self.al.text(coll)
            for t, pol in facts:
                q = quantified_facts(t, pol)
                if q and q[0] in (ctext, atext):
                    known = q[1] if known is None else (known & q[1])
        if known is None and want in self.seeds:
            known = self.seeds[want]
        return known


def entry_seeds(tree, mod, fn):
    """Facts about `param....op` that every call site of `fn` within its module establishes."""
    params = [a.arg for a in fn.args.posonlyargs + fn.args.args if a.arg not in ("self", "cls")]
    if not params:
        return {}
    name = fn.name
    per_site = []
    for q, caller in mod.functions.items():
        if caller is fn:
            continue
        al = Aliases(caller)
        for c in (x for x in walk_no_nested(caller) if isinstance(x, ast.Call)):
            d = dotted(c.func) or ""
            if d.split(".")[-1] != name or not c.args:
                continue
            facts = {}
            for t, pol in guards.guards_of(c):
                r = op_set_of_fact(t, pol, al)
                if not r:
                    continue
                for i, a in enumerate(c.args[: len(params)]):
                    at = al.text(a)
                    if r[0] == at or r[0].startswith(at + ".") or r[0].startswith(at + "["):
                        facts[params[i] + r[0][len(at):]] = r[1]
            per_site.append(facts)
    if not per_site:
        return {}
    keys = set(per_site[0])
    for f in per_site[1:]:
        keys &= set(f)
    out = {}
    for k in keys:
        s = None
        for f in per_site:
            s = f[k] if s is None else (s | f[k])
        out[k] = s
    return out
