"""Rule registry, findings, known-findings handling, evidence and replay files."""

from __future__ import annotations

import hashlib
import json
import os
import time
from dataclasses import dataclass, field

from . import core

VERIF = os.path.dirname(os.path.dirname(os.path.abspath(__file__)))
EVIDENCE_DIR = os.environ.get("SA_EVIDENCE_DIR", os.path.join(VERIF, "evidence"))
REPLAY_DIR = os.environ.get("SA_REPLAY_DIR", os.path.join(VERIF, "replay"))
KNOWN_FILE = os.path.join(VERIF, "known_findings.json")


@dataclass
class Finding:
    rule: str
    site: str  # file::qualname
    construct: str  # normalised text of the offending construct
    message: str
    line: int = 0

    def key(self):
        return (self.rule, self.site, self.construct)

    def digest(self):
        return hashlib.sha1("|".join(self.key()).encode()).hexdigest()[:12]

    def as_dict(self):
        return {
            "rule": self.rule,
            "site": self.site,
            "construct": self.construct,
            "message": self.message,
            "line": self.line,
        }


@dataclass
class RuleDef:
    rid: str
    props: tuple
    floor: int
    desc: str
    fn: object
    family: str = ""
    thorough_only: bool = False


RULES: dict[str, RuleDef] = {}


def rule(rid, props, floor, desc, family="", thorough_only=False):
    def deco(fn):
        if rid in RULES:
            raise RuntimeError(f"duplicate rule {rid}")
        RULES[rid] = RuleDef(rid, tuple(props), floor, desc, fn, family, thorough_only)
        return fn

    return deco


class R:
    """Per-rule recorder handed to a rule function."""

    def __init__(self, rdef: RuleDef, tree: core.Tree, tier: str):
        self.rdef = rdef
        self.tree = tree
        self.tier = tier
        self.instances: list[dict] = []
        self.findings: list[Finding] = []
        self.extra: dict = {}
        self._seen = set()

    # an obligation that was checked and held
    def ok(self, mod, node, what, nontrivial=True):
        self._inst(mod, node, what, "ok", nontrivial)

    def bad(self, mod, node, message, construct=None):
        c = construct if construct is not None else (core.norm(node) if node is not None else "")
        s = core.site(mod, node) if node is not None else f"{mod.path}::<module>"
        f = Finding(self.rdef.rid, s, c, message, getattr(node, "lineno", 0) or 0)
        if f.key() in {x.key() for x in self.findings}:
            return
        self.findings.append(f)
        self._inst(mod, node, message, "VIOLATED", True, construct=c)

    def check(self, cond, mod, node, what, message=None, construct=None):
        if cond:
            self.ok(mod, node, what)
        else:
            self.bad(mod, node, message or ("expected: " + what), construct=construct)
        return cond

    def _inst(self, mod, node, what, verdict, nontrivial, construct=None):
        c = construct if construct is not None else (core.norm(node) if node is not None else "")
        s = core.site(mod, node) if node is not None else f"{mod.path}::<module>"
        key = (s, c, what)
        distinct = key not in self._seen
        self._seen.add(key)
        self.instances.append(
            {
                "site": s,
                "line": getattr(node, "lineno", 0) or 0,
                "construct": c,
                "obligation": what,
                "verdict": verdict,
                "nontrivial": bool(nontrivial and distinct),
            }
        )

    def need(self, cond, what):
        if not cond:
            raise core.AnalysisError(f"{self.rdef.rid}: {what}")


def load_known():
    if not os.path.exists(KNOWN_FILE):
        return {"known": [], "fixed": []}
    with open(KNOWN_FILE) as f:
        d = json.load(f)
    d.setdefault("known", [])
    d.setdefault("fixed", [])
    return d


def run_property(prop: str, tier: str, tree: core.Tree | None = None, rules=None, quiet=False, write=True, extra_cov=None):
    """Run every rule registered for `prop`. Returns (exit_code, summary dict)."""
    t0 = time.time()
    seed = int(os.environ.get("VERIF_SEED", "0") or 0)
    lines = []

    def out(s):
        lines.append(s)
        if not quiet:
            print(s, flush=True)

    try:
        if tree is None:
            tree = core.Tree()
        selected = [r for r in RULES.values() if prop in r.props and (rules is None or r.rid in rules)]
        if not selected:
            raise core.AnalysisError(f"no rules registered for {prop}")
        known = load_known()
        known_keys = {(k["rule"], k["site"], k["construct"]): k for k in known["known"]}
        results = []
        violations = []
        known_present = []
        for rd in sorted(selected, key=lambda r: r.rid):
            if rd.thorough_only and tier != "thorough":
                continue
            rec = R(rd, tree, tier)
            rd.fn(rec)
            n = len(rec.instances)
            if n < rd.floor and not rec.findings:
                raise core.AnalysisError(
                    f"{rd.rid}: matched {n} instances, below the confirmed floor {rd.floor} "
                    f"(an anchor moved or vanished; the rule must not pass vacuously)"
                )
            results.append(rec)
            for f in rec.findings:
                if f.key() in known_keys:
                    known_present.append((f, known_keys[f.key()]))
                else:
                    violations.append(f)
        stats = tree.stats()
        out(
            f"[{prop}] tier={tier} analysed {stats['modules']} modules / {stats['functions']} functions / "
            f"{stats['classes']} classes from {tree.root}"
        )
        for rec in results:
            nbad = len(rec.findings)
            out(
                f"  rule {rec.rdef.rid:<18} instances={len(rec.instances):<4} floor={rec.rdef.floor:<4} "
                f"findings={nbad}  -- {rec.rdef.desc}"
            )
        for f, k in known_present:
            out(f"KNOWN-FINDING: property={prop} {f.rule} {f.site} `{f.construct}`: {k.get('what', f.message)}")
        code = 0
        for f in violations:
            path = os.path.join(REPLAY_DIR, f"{prop}-{f.digest()}.json")
            if write:
                os.makedirs(REPLAY_DIR, exist_ok=True)
                with open(path, "w") as fh:
                    json.dump({"property": prop, "tier": tier, "root": tree.root, **f.as_dict()}, fh, indent=1)
            out(f"  {f.site} line {f.line}: [{f.rule}] {f.message}\n      construct: {f.construct}")
            out(f"VIOLATION property={prop} replay={path}")
            code = 1
        summary = {
            "results": results,
            "violations": violations,
            "known_present": known_present,
            "stats": stats,
            "lines": lines,
        }
        if write:
            write_evidence(prop, tier, seed, results, violations, known_present, stats, time.time() - t0, tree, extra_cov)
        return code, summary
    except core.AnalysisError as e:
        out(f"ANALYSIS-ERROR property={prop} {e}")
        return 2, {"error": str(e), "lines": lines}
    except Exception as e:  # noqa: BLE001 - tracebacks must not look like violations
        import traceback

        out(f"ANALYSIS-ERROR property={prop} internal error: {type(e).__name__}: {e}")
        out(traceback.format_exc())
        return 2, {"error": str(e), "lines": lines}


LEVELS = {"C19": "model_checking"}

TRUSTED = {}


def write_evidence(prop, tier, seed, results, violations, known_present, stats, wall, tree, extra_cov=None):
    os.makedirs(EVIDENCE_DIR, exist_ok=True)
    insts = [dict(i, rule=rec.rdef.rid) for rec in results for i in rec.instances]
    distinct = {(i["rule"], i["site"], i["construct"], i["obligation"]) for i in insts if i["nontrivial"]}
    samples = []
    per_rule = {}
    for rec in results:
        per_rule[rec.rdef.rid] = {
            "description": rec.rdef.desc,
            "family": rec.rdef.family,
            "instances": len(rec.instances),
            "floor": rec.rdef.floor,
            "findings": len(rec.findings),
            **rec.extra,
        }
        for i in rec.instances[:3]:
            samples.append(
                {
                    "rule": rec.rdef.rid,
                    "site": i["site"],
                    "line": i["line"],
                    "construct": i["construct"],
                    "obligation": i["obligation"],
                    "verdict": i["verdict"],
                }
            )
    level = LEVELS.get(prop, "other")
    cov = {
        "explanation": "static analysis of the current working tree ("
        + tree.root
        + "), nothing executed. Rules applied: "
        + "; ".join(f"{rec.rdef.rid} = {rec.rdef.desc}" for rec in results),
        "evaluations": len(insts),
        "distinct_nontrivial": len(distinct),
        "rule": "one evaluation = one rule instance (a construct in the source at which an obligation of the rule "
        "was decided); it is non-trivial when the rule decided an obligation beyond the existence of the anchor, "
        "and distinct by (rule, file::function, normalised construct, obligation)",
        "samples": samples[:40],
        "modules_analysed": stats["modules"],
        "functions_analysed": stats["functions"],
        "classes_analysed": stats["classes"],
        "per_rule": per_rule,
        "known_findings_present": [
            {"rule": f.rule, "site": f.site, "construct": f.construct, "what": k.get("what", "")}
            for f, k in known_present
        ],
        "new_violations": [f.as_dict() for f in violations],
        "exhaustive": True,
    }
    if extra_cov:
        cov.update(extra_cov)
    for rec in results:
        for k in ("states", "transitions", "traces_validated_against_impl"):
            if k in rec.extra:
                cov[k] = cov.get(k, 0) + rec.extra[k]
    ev = {
        "property_id": prop,
        "tier": tier,
        "seed": seed,
        "level": level,
        "coverage": cov,
        "assumptions": ASSUMPTIONS.get(prop, []) + COMMON_ASSUMPTIONS,
        "wall_s": round(wall, 3),
        "violations": len(violations),
    }
    path = os.path.join(EVIDENCE_DIR, f"{prop}.json")
    tmp = path + ".tmp"
    with open(tmp, "w") as f:
        json.dump(ev, f, indent=1, sort_keys=False)
    os.replace(tmp, path)


COMMON_ASSUMPTIONS = [
    "only the structural necessary conditions listed in DESIGN.md §3 for this property are decided; "
    "the behaviour itself (values, answers) is not",
    "name resolution is this framework's own (imports, class table, C3 MRO, literal folding); "
    "dynamic rebinding at run time (monkey-patching) is not modelled",
    "frozen reference tables in sa/refs.py (SMT-LIB meaning of ops, Z3 API names, decimal rounding modes) are trusted",
]

ASSUMPTIONS: dict[str, list[str]] = {}
