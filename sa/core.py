"""Program model for the static checks: loader, import resolution, class table
with C3 MROs, function table, constant evaluator and small AST utilities.

Nothing in here imports or executes code from the repository under analysis.
"""

from __future__ import annotations

import ast
import os
from dataclasses import dataclass, field

REPO = os.environ.get("SA_REPO", "/repo")
PKG = "claripy"

MIN_MODULES = 55
MIN_FUNCTIONS = 1100
MIN_CLASSES = 70


class AnalysisError(Exception):
    """An anchor vanished or a construct is outside the fragment a rule understands."""


# --------------------------------------------------------------------------- loader


@dataclass
class Module:
    name: str  # claripy.ast.base
    path: str  # claripy/ast/base.py (relative to repo root)
    src: str
    tree: ast.Module
    functions: dict = field(default_factory=dict)  # qualname -> FunctionDef
    classes: dict = field(default_factory=dict)  # qualname -> ClassDef
    imports: dict = field(default_factory=dict)  # local -> ("module", dotted) | ("symbol", dotted, name)
    is_pkg: bool = False


def _set_parents(tree: ast.AST) -> None:
    for node in ast.walk(tree):
        for child in ast.iter_child_nodes(node):
            child._parent = node  # type: ignore[attr-defined]


FuncTypes = (ast.FunctionDef, ast.AsyncFunctionDef)


class _Normaliser(ast.NodeTransformer):
    """Normal form applied to every module when it is loaded, so that no rule depends on which of two equivalent
    spellings the source uses: a two-armed `if not X: A else: B` (statement or conditional expression) is read as
    `if X: B else: A`, and directly nested one-armed ifs are read as one conjunction.  Positions are kept (reports still point at the real lines)."""

    def visit_If(self, n):
        self.generic_visit(n)
        if isinstance(n.test, ast.UnaryOp) and isinstance(n.test.op, ast.Not) and n.orelse and not (len(n.orelse) == 1 and isinstance(n.orelse[0], ast.If)):
            n.test, n.body, n.orelse = n.test.operand, n.orelse, n.body
        # `if a:\n    if b: X` (no else on either, nothing else in the outer body) is `if a and b: X`
        while not n.orelse and len(n.body) == 1 and isinstance(n.body[0], ast.If) and not n.body[0].orelse:
            inner = n.body[0]
            left = n.test.values if isinstance(n.test, ast.BoolOp) and isinstance(n.test.op, ast.And) else [n.test]
            right = inner.test.values if isinstance(inner.test, ast.BoolOp) and isinstance(inner.test.op, ast.And) else [inner.test]
            n.test = ast.copy_location(ast.BoolOp(op=ast.And(), values=[*left, *right]), n.test)
            n.body = inner.body
        # `if c: T = A` / `else: T = B` (nothing else in either arm) is `T = A if c else B`
        if (
            len(n.body) == 1
            and len(n.orelse) == 1
            and all(isinstance(a, ast.Assign) and len(a.targets) == 1 and isinstance(a.targets[0], ast.Name) for a in (n.body[0], n.orelse[0]))
            and n.body[0].targets[0].id == n.orelse[0].targets[0].id
        ):
            new = ast.Assign(targets=n.body[0].targets, value=ast.IfExp(test=n.test, body=n.body[0].value, orelse=n.orelse[0].value))
            ast.copy_location(new, n)
            ast.copy_location(new.value, n)
            return new
        return n

    def visit_Call(self, n):
        """reduce(lambda a, b: a OP b, ..) is reduce(operator.__OP__, ..); other two-parameter folding lambdas get
        canonical parameter names"""
        self.generic_visit(n)
        if dotted(n.func) in ("reduce", "functools.reduce") and n.args and isinstance(n.args[0], ast.Lambda):
            n.args[0] = _canonical_fold(n.args[0])
        return n

    def visit_IfExp(self, n):
        self.generic_visit(n)
        if isinstance(n.test, ast.UnaryOp) and isinstance(n.test.op, ast.Not):
            n.test, n.body, n.orelse = n.test.operand, n.orelse, n.body
        return n

    def visit_BoolOp(self, n):
        """`x == 'a' or x == 'b'` is `x in ('a', 'b')` and `x != 'a' and x != 'b'` is `x not in ('a', 'b')` when x is
        a plain access path and the other sides are string / integer literals (no overloaded equality involved)"""
        self.generic_visit(n)
        eq, member, joined = (ast.Eq, ast.In, ast.In()) if isinstance(n.op, ast.Or) else (ast.NotEq, ast.NotIn, ast.NotIn())
        left, consts = None, []
        for v in n.values:
            if not (isinstance(v, ast.Compare) and len(v.ops) == 1 and dotted(v.left)):
                return n
            if left is not None and ast.dump(v.left) != ast.dump(left):
                return n
            c = v.comparators[0]
            if isinstance(v.ops[0], eq) and isinstance(c, ast.Constant) and type(c.value) in (str, int):
                consts.append(c)
            elif isinstance(v.ops[0], member) and isinstance(c, (ast.Tuple, ast.List, ast.Set)) and all(isinstance(e, ast.Constant) and type(e.value) in (str, int) for e in c.elts):
                consts += list(c.elts)
            else:
                return n
            left = v.left
        if left is None or len(consts) < 2:
            return n
        return ast.copy_location(ast.Compare(left=left, ops=[joined], comparators=[ast.copy_location(ast.Tuple(elts=consts, ctx=ast.Load()), n)]), n)


_FOLD_OPS = {ast.Add: "__add__", ast.Sub: "__sub__", ast.Mult: "__mul__", ast.BitAnd: "__and__", ast.BitOr: "__or__", ast.BitXor: "__xor__"}


def _canonical_fold(lam):
    """a two-parameter lambda used as a folding function, in canonical form"""
    a = lam.args
    if len(a.args) != 2 or a.vararg or a.kwarg or a.kwonlyargs or a.defaults or a.posonlyargs:
        return lam
    pa, pb = a.args[0].arg, a.args[1].arg
    b = lam.body
    if isinstance(b, ast.BinOp) and type(b.op) in _FOLD_OPS and isinstance(b.left, ast.Name) and isinstance(b.right, ast.Name) and (b.left.id, b.right.id) == (pa, pb):
        return ast.copy_location(ast.Attribute(value=ast.Name(id="operator", ctx=ast.Load()), attr=_FOLD_OPS[type(b.op)], ctx=ast.Load()), lam)
    used = {x.id for x in ast.walk(b) if isinstance(x, ast.Name)}
    if {"_acc", "_x"} & (used - {pa, pb}):
        return lam

    class Rn(ast.NodeTransformer):
        def visit_Name(self, x):
            if x.id == pa:
                return ast.copy_location(ast.Name(id="_acc", ctx=x.ctx), x)
            if x.id == pb:
                return ast.copy_location(ast.Name(id="_x", ctx=x.ctx), x)
            return x

        def visit_Lambda(self, x):
            return x

    new = ast.Lambda(args=ast.arguments(posonlyargs=[], args=[ast.arg(arg="_acc"), ast.arg(arg="_x")], kwonlyargs=[], kw_defaults=[], defaults=[]), body=Rn().visit(b))
    ast.copy_location(new, lam)
    ast.fix_missing_locations(new)
    return new


def _mentions(node, name):
    return any(isinstance(x, ast.Name) and x.id == name for x in ast.walk(node))


def _boolean_valued(e):
    """syntactically certain to evaluate to a bool (so `if A: return True` + `return B` is `return A or B`)"""
    if isinstance(e, ast.Constant):
        return isinstance(e.value, bool)
    if isinstance(e, ast.Compare):
        return all(isinstance(o, (ast.Is, ast.IsNot, ast.In, ast.NotIn)) for o in e.ops)  # ==, < may be overloaded
    if isinstance(e, ast.UnaryOp) and isinstance(e.op, ast.Not):
        return True
    if isinstance(e, ast.BoolOp):
        return all(_boolean_valued(v) for v in e.values)
    if isinstance(e, ast.Call) and isinstance(e.func, ast.Name) and e.func.id in ("isinstance", "issubclass", "hasattr", "callable", "any", "all", "bool"):
        return True
    return False


def _rewrite_block(stmts):
    """Statement-level normal forms (each an exact equivalence):
    * `for T in IT:\n    if P: return True` + `return False`  ==  `return any(P for T in IT)` (and the negated form);
    * `X = []` + `for T in IT: [if C:] X.append(E)`             ==  `X = [E for T in IT [if C]]`."""
    out = []
    i = 0
    while i < len(stmts):
        st = stmts[i]
        nxt = stmts[i + 1] if i + 1 < len(stmts) else None
        # search loop with early return of a boolean
        if (
            isinstance(st, ast.For)
            and not st.orelse
            and len(st.body) == 1
            and isinstance(st.body[0], ast.If)
            and not st.body[0].orelse
            and len(st.body[0].body) == 1
            and isinstance(st.body[0].body[0], ast.Return)
            and isinstance(st.body[0].body[0].value, ast.Constant)
            and isinstance(st.body[0].body[0].value.value, bool)
            and isinstance(nxt, ast.Return)
            and isinstance(nxt.value, ast.Constant)
            and isinstance(nxt.value.value, bool)
            and nxt.value.value != st.body[0].body[0].value.value
        ):
            gen = ast.GeneratorExp(elt=st.body[0].test, generators=[ast.comprehension(target=st.target, iter=st.iter, ifs=[], is_async=0)])
            call = ast.Call(func=ast.Name(id="any", ctx=ast.Load()), args=[gen], keywords=[])
            val = call if st.body[0].body[0].value.value else ast.UnaryOp(op=ast.Not(), operand=call)
            new = ast.Return(value=val)
            ast.copy_location(new, st)
            ast.fix_missing_locations(new)
            out.append(new)
            i += 2
            continue
        # guard clause returning a boolean constant, followed by a return: one boolean expression
        if (
            isinstance(st, ast.If)
            and not st.orelse
            and len(st.body) == 1
            and isinstance(st.body[0], ast.Return)
            and isinstance(st.body[0].value, ast.Constant)
            and isinstance(st.body[0].value.value, bool)
            and isinstance(nxt, ast.Return)
            and nxt.value is not None
            and _boolean_valued(st.test)
            and _boolean_valued(nxt.value)
        ):
            if st.body[0].value.value:
                left = st.test.values if isinstance(st.test, ast.BoolOp) and isinstance(st.test.op, ast.Or) else [st.test]
                right = nxt.value.values if isinstance(nxt.value, ast.BoolOp) and isinstance(nxt.value.op, ast.Or) else [nxt.value]
                val = ast.BoolOp(op=ast.Or(), values=[*left, *right])
            else:
                neg = st.test.operand if isinstance(st.test, ast.UnaryOp) and isinstance(st.test.op, ast.Not) else ast.UnaryOp(op=ast.Not(), operand=st.test)
                right = nxt.value.values if isinstance(nxt.value, ast.BoolOp) and isinstance(nxt.value.op, ast.And) else [nxt.value]
                val = ast.BoolOp(op=ast.And(), values=[neg, *right])
            new = ast.Return(value=val)
            ast.copy_location(new, st)
            ast.fix_missing_locations(new)
            stmts = [*stmts[:i], new, *stmts[i + 2 :]]
            continue  # re-examine: several guard clauses in a row fold into one expression
        # `return A if c else B` is `if c: return A` / `else: return B` (rules read returns under their guards)
        if isinstance(st, ast.Return) and isinstance(st.value, ast.IfExp):
            def split(v, like):
                if isinstance(v, ast.IfExp):
                    node = ast.If(test=v.test, body=split(v.body, like), orelse=split(v.orelse, like))
                else:
                    node = ast.Return(value=v)
                ast.copy_location(node, like)
                return [node]

            new = split(st.value, st)[0]
            ast.fix_missing_locations(new)
            out.append(new)
            i += 1
            continue
        # folding loop: `ACC = INIT` + `for X in IT: ACC = F(ACC, X)`  ==  `ACC = reduce(lambda ACC, X: F(ACC, X), IT, INIT)`
        if (
            isinstance(st, ast.Assign)
            and len(st.targets) == 1
            and isinstance(st.targets[0], ast.Name)
            and isinstance(nxt, ast.For)
            and not nxt.orelse
            and isinstance(nxt.target, ast.Name)
            and len(nxt.body) == 1
            and isinstance(nxt.body[0], ast.Assign)
            and len(nxt.body[0].targets) == 1
            and isinstance(nxt.body[0].targets[0], ast.Name)
            and nxt.body[0].targets[0].id == st.targets[0].id
            and _mentions(nxt.body[0].value, st.targets[0].id)
            and _mentions(nxt.body[0].value, nxt.target.id)
            and not _mentions(nxt.iter, st.targets[0].id)
            and not any(_mentions(later, nxt.target.id) for later in stmts[i + 2 :])
            and not any(isinstance(x, (ast.Yield, ast.YieldFrom, ast.Await, ast.NamedExpr, ast.Lambda)) for x in ast.walk(nxt.body[0].value))
        ):
            lam = ast.Lambda(
                args=ast.arguments(posonlyargs=[], args=[ast.arg(arg=st.targets[0].id), ast.arg(arg=nxt.target.id)], kwonlyargs=[], kw_defaults=[], defaults=[]),
                body=nxt.body[0].value,
            )
            call = ast.Call(func=ast.Name(id="reduce", ctx=ast.Load()), args=[_canonical_fold(lam), nxt.iter, st.value], keywords=[])
            new = ast.Assign(targets=st.targets, value=call)
            ast.copy_location(new, st)
            ast.fix_missing_locations(new)
            out.append(new)
            i += 2
            continue
        # accumulate-by-append loop
        if (
            isinstance(st, ast.Assign)
            and len(st.targets) == 1
            and isinstance(st.targets[0], ast.Name)
            and isinstance(st.value, ast.List)
            and not st.value.elts
            and isinstance(nxt, ast.For)
            and not nxt.orelse
            and len(nxt.body) == 1
        ):
            x = st.targets[0].id
            inner, conds = nxt.body[0], []
            if isinstance(inner, ast.If) and not inner.orelse and len(inner.body) == 1:
                conds, inner = [inner.test], inner.body[0]
            if (
                isinstance(inner, ast.Expr)
                and isinstance(inner.value, ast.Call)
                and isinstance(inner.value.func, ast.Attribute)
                and inner.value.func.attr == "append"
                and isinstance(inner.value.func.value, ast.Name)
                and inner.value.func.value.id == x
                and len(inner.value.args) == 1
                and not inner.value.keywords
                and not _mentions(inner.value.args[0], x)
                and not _mentions(nxt.iter, x)
                and not any(_mentions(c, x) for c in conds)
            ):
                comp = ast.ListComp(elt=inner.value.args[0], generators=[ast.comprehension(target=nxt.target, iter=nxt.iter, ifs=conds, is_async=0)])
                new = ast.Assign(targets=st.targets, value=comp)
                ast.copy_location(new, st)
                ast.fix_missing_locations(new)
                out.append(new)
                i += 2
                continue
        out.append(st)
        i += 1
    return out


def _inline_adjacent_temps(fn):
    """`t = E` immediately followed by the only statement that uses `t`, exactly once and not under a loop, lambda or
    comprehension of that statement: read as if E were written in place (whether a sub-expression got a name of
    its own is not semantics for any rule)."""
    counts_store, counts_load = {}, {}
    for n in ast.walk(fn):
        if isinstance(n, ast.Name):
            d = counts_store if isinstance(n.ctx, (ast.Store, ast.Del)) else counts_load
            d[n.id] = d.get(n.id, 0) + 1
        elif isinstance(n, (ast.Global, ast.Nonlocal)):
            for nm in n.names:
                counts_store[nm] = counts_store.get(nm, 0) + 2
    params = {a.arg for a in fn.args.args + fn.args.kwonlyargs + fn.args.posonlyargs}

    def one_use(st, name):
        hits = []
        stack = [(st, False)]
        while stack:
            node, shielded = stack.pop()
            if isinstance(node, ast.Name) and node.id == name and isinstance(node.ctx, ast.Load):
                hits.append((node, shielded))
            sh = shielded or isinstance(node, (ast.Lambda, ast.GeneratorExp, ast.ListComp, ast.SetComp, ast.DictComp, ast.FunctionDef, ast.AsyncFunctionDef))
            for ch in ast.iter_child_nodes(node):
                stack.append((ch, sh))
        return hits

    def block(stmts):
        out = []
        i = 0
        while i < len(stmts):
            st = stmts[i]
            nxt = stmts[i + 1] if i + 1 < len(stmts) else None
            if (
                isinstance(st, ast.Assign)
                and len(st.targets) == 1
                and isinstance(st.targets[0], ast.Name)
                and st.targets[0].id not in params
                and counts_store.get(st.targets[0].id) == 1
                and counts_load.get(st.targets[0].id) == 1
                and nxt is not None
                and isinstance(nxt, (ast.Assign, ast.AugAssign, ast.AnnAssign, ast.Return, ast.Expr, ast.Raise, ast.Assert, ast.If, ast.While))
            ):
                name = st.targets[0].id
                # for compound statements only the header expression counts as "the next statement"
                header = nxt.test if isinstance(nxt, (ast.If, ast.While)) else nxt
                hits = one_use(header, name)
                if len(hits) == 1 and not hits[0][1]:
                    use = hits[0][0]
                    val = st.value

                    class S(ast.NodeTransformer):
                        def visit_Name(self, x):
                            return val if x is use else x

                    if isinstance(nxt, (ast.If, ast.While)):
                        nxt.test = S().visit(nxt.test)
                    else:
                        stmts[i + 1] = S().visit(nxt)
                    i += 1
                    continue
            out.append(st)
            i += 1
        return out

    def rec(node):
        for fld in ("body", "orelse", "finalbody"):
            b = getattr(node, fld, None)
            if isinstance(b, list) and b and isinstance(b[0], ast.stmt):
                for ch in b:
                    if not isinstance(ch, (ast.FunctionDef, ast.AsyncFunctionDef, ast.ClassDef)):
                        rec(ch)
                prev = None
                while prev != len(b):  # chains of temporaries fold one after another
                    prev = len(b)
                    b = block(b)
                setattr(node, fld, b)
        for h in getattr(node, "handlers", []) or []:
            rec(h)
        for c in getattr(node, "cases", []) or []:
            rec(c)

    rec(fn)


class _BlockNormaliser(ast.NodeTransformer):
    def generic_visit(self, node):
        super().generic_visit(node)
        for fld in ("body", "orelse", "finalbody"):
            b = getattr(node, fld, None)
            if isinstance(b, list) and b and isinstance(b[0], ast.stmt):
                setattr(node, fld, _rewrite_block(b))
        return node


def _normalise(tree: ast.AST) -> None:
    def temps():
        for n in ast.walk(tree):
            if isinstance(n, (ast.FunctionDef, ast.AsyncFunctionDef)):
                _inline_adjacent_temps(n)

    temps()  # first: a temporary inside a loop body would hide the loop's shape from the block rewrites
    _Normaliser().visit(tree)
    _BlockNormaliser().visit(tree)
    temps()  # again: the rewrites create new adjacencies


def _collect_defs(mod: Module) -> None:
    def rec(body, prefix, owner_class):
        for st in body:
            if isinstance(st, FuncTypes):
                q = prefix + st.name
                # overloads: keep the last definition (the implementation)
                mod.functions[q] = st
                st._qualname = q
                st._module = mod
                st._class = owner_class
                rec_nested(st, q + ".")
            elif isinstance(st, ast.ClassDef):
                q = prefix + st.name
                mod.classes[q] = st
                st._qualname = q
                st._module = mod
                rec(st.body, q + ".", st)
            elif isinstance(st, (ast.If, ast.Try, ast.With)):
                for sub in _stmt_bodies(st):
                    rec(sub, prefix, owner_class)

    def rec_nested(fn, prefix):
        for node in ast.walk(fn):
            if node is fn:
                continue
            if isinstance(node, FuncTypes) and _enclosing_function(node) is fn:
                q = prefix + node.name
                mod.functions[q] = node
                node._qualname = q
                node._module = mod
                node._class = None
                rec_nested(node, q + ".")

    rec(mod.tree.body, "", None)


def _stmt_bodies(st):
    for f in ("body", "orelse", "finalbody"):
        b = getattr(st, f, None)
        if b:
            yield b
    for h in getattr(st, "handlers", []) or []:
        yield h.body


def _enclosing_function(node):
    p = getattr(node, "_parent", None)
    while p is not None and not isinstance(p, FuncTypes + (ast.Lambda,)):
        p = getattr(p, "_parent", None)
    return p


def enclosing_function(node):
    """Innermost def (not lambda) enclosing `node`."""
    p = getattr(node, "_parent", None)
    while p is not None and not isinstance(p, FuncTypes):
        p = getattr(p, "_parent", None)
    return p


def enclosing_stmt(node):
    p = node
    while p is not None and not isinstance(p, ast.stmt):
        p = getattr(p, "_parent", None)
    return p


def _resolve_relative(modname: str, is_pkg: bool, level: int, target: str | None) -> str:
    parts = modname.split(".")
    if not is_pkg:
        parts = parts[:-1]
    if level > 1:
        parts = parts[: len(parts) - (level - 1)]
    if target:
        parts = parts + target.split(".")
    return ".".join(parts)


def _collect_imports(mod: Module) -> None:
    for node in ast.walk(mod.tree):
        if isinstance(node, ast.Import):
            for a in node.names:
                if a.asname:
                    mod.imports[a.asname] = ("module", a.name)
                else:
                    top = a.name.split(".")[0]
                    mod.imports[top] = ("module", top)
        elif isinstance(node, ast.ImportFrom):
            base = _resolve_relative(mod.name, mod.is_pkg, node.level, node.module) if node.level else node.module
            for a in node.names:
                mod.imports[a.asname or a.name] = ("symbol", base, a.name)


class Tree:
    """All modules of the package, parsed from disk (or from an overlay)."""

    def __init__(self, root: str | None = None, overlay: dict | None = None):
        self.root = root or REPO
        self.overlay = overlay or {}
        self.modules: dict[str, Module] = {}
        self.by_path: dict[str, Module] = {}
        self._load()
        self._classes = None
        self._mro_cache = {}
        self._const_cache = {}

    def _load(self):
        pkgdir = os.path.join(self.root, PKG)
        if not os.path.isdir(pkgdir):
            raise AnalysisError(f"package directory {pkgdir} not found")
        for dirpath, dirnames, filenames in os.walk(pkgdir):
            dirnames[:] = sorted(d for d in dirnames if d != "__pycache__")
            for fn in sorted(filenames):
                if not fn.endswith(".py"):
                    continue
                full = os.path.join(dirpath, fn)
                rel = os.path.relpath(full, self.root)
                if rel in self.overlay:
                    src = self.overlay[rel]
                else:
                    with open(full, encoding="utf-8") as f:
                        src = f.read()
                try:
                    tree = ast.parse(src, filename=rel)
                except SyntaxError as e:
                    raise AnalysisError(f"cannot parse {rel}: {e}") from e
                is_pkg = fn == "__init__.py"
                name = rel[:-3].replace(os.sep, ".")
                if is_pkg:
                    name = name[: -len(".__init__")]
                _normalise(tree)
                _set_parents(tree)
                mod = Module(name=name, path=rel, src=src, tree=tree, is_pkg=is_pkg)
                _collect_defs(mod)
                _collect_imports(mod)
                self.modules[name] = mod
                self.by_path[rel] = mod
        nf = sum(len(m.functions) for m in self.modules.values())
        nc = sum(len(m.classes) for m in self.modules.values())
        if len(self.modules) < MIN_MODULES or nf < MIN_FUNCTIONS or nc < MIN_CLASSES:
            raise AnalysisError(
                f"parsed only {len(self.modules)} modules / {nf} functions / {nc} classes "
                f"(floors {MIN_MODULES}/{MIN_FUNCTIONS}/{MIN_CLASSES})"
            )

    # ----------------------------------------------------------------- lookups
    def stats(self):
        return {
            "modules": len(self.modules),
            "functions": sum(len(m.functions) for m in self.modules.values()),
            "classes": sum(len(m.classes) for m in self.modules.values()),
        }

    def mod(self, path_or_name: str) -> Module:
        m = self.by_path.get(path_or_name) or self.modules.get(path_or_name)
        if m is None:
            raise AnalysisError(f"module {path_or_name} not found")
        return m

    def func(self, path: str, qualname: str) -> ast.FunctionDef:
        m = self.mod(path)
        f = m.functions.get(qualname)
        if f is None:
            raise AnalysisError(f"function {path}::{qualname} not found")
        return f

    def func_inlined(self, path: str, qualname: str, exclude=()):
        """The function with the private helpers of its class / module that it calls inlined (two levels), so that
        a rule sees the same statements whether or not a block or expression was moved into a helper.  `exclude`:
        helper names the rule itself anchors on (they stay calls)."""
        from . import util

        key = ("inl", path, qualname, tuple(sorted(exclude)))
        cache = self.__dict__.setdefault("_inl_cache", {})
        if key not in cache:
            f = self.func(path, qualname)
            m = self.mod(path)
            cls = m.classes.get(qualname.rsplit(".", 1)[0]) if "." in qualname else None
            cache[key] = util.inline_helpers(f, util.helper_resolver(self, m, cls, exclude=set(exclude) | {f.name}))
        return cache[key]

    def func_opt(self, path: str, qualname: str):
        m = self.by_path.get(path) or self.modules.get(path)
        return m.functions.get(qualname) if m else None

    def cls(self, path: str, qualname: str) -> ast.ClassDef:
        m = self.mod(path)
        c = m.classes.get(qualname)
        if c is None:
            raise AnalysisError(f"class {path}::{qualname} not found")
        return c

    def all_functions(self):
        for m in self.modules.values():
            for q, f in m.functions.items():
                yield m, q, f

    def all_classes(self):
        for m in self.modules.values():
            for q, c in m.classes.items():
                yield m, q, c

    # ------------------------------------------------------- symbol resolution
    def resolve_symbol(self, mod: Module, name: str, depth=0):
        """Resolve a module-level name to ('class', ClassDef) / ('func', FunctionDef) /
        ('module', Module) / ('assign', Module, value-node) / ('ext', dotted) / None."""
        if depth > 12:
            return None
        if name in mod.classes:
            return ("class", mod.classes[name])
        if name in mod.functions:
            return ("func", mod.functions[name])
        # module-level assignment (last one wins)
        val = self.module_assign(mod, name)
        if val is not None:
            return ("assign", mod, val)
        imp = mod.imports.get(name)
        if imp is None:
            return None
        if imp[0] == "module":
            m = self.modules.get(imp[1])
            return ("module", m) if m else ("ext", imp[1])
        _, base, sym = imp
        sub = self.modules.get(base + "." + sym)
        tgt = self.modules.get(base)
        if tgt is not None:
            r = self.resolve_symbol(tgt, sym, depth + 1)
            if r is not None:
                return r
        if sub is not None:
            return ("module", sub)
        if tgt is None:
            return ("ext", base + "." + sym)
        return None

    def module_assign(self, mod: Module, name: str):
        found = None
        for st in _flat_module_body(mod.tree):
            if isinstance(st, ast.Assign):
                for t in st.targets:
                    if isinstance(t, ast.Name) and t.id == name:
                        found = st.value
            elif isinstance(st, ast.AnnAssign) and isinstance(st.target, ast.Name) and st.target.id == name:
                if st.value is not None:
                    found = st.value
        return found

    def resolve_expr(self, mod: Module, node: ast.AST, depth=0):
        """Resolve a Name / dotted Attribute expression at module scope."""
        if isinstance(node, ast.Name):
            return self.resolve_symbol(mod, node.id, depth)
        if isinstance(node, ast.Attribute):
            base = self.resolve_expr(mod, node.value, depth + 1)
            if base is None:
                return None
            if base[0] == "module":
                m = base[1]
                sub = self.modules.get(m.name + "." + node.attr)
                r = self.resolve_symbol(m, node.attr, depth + 1)
                if r is not None:
                    return r
                if sub is not None:
                    return ("module", sub)
                return None
            if base[0] == "ext":
                return ("ext", base[1] + "." + node.attr)
            if base[0] == "class":
                c = base[1]
                for st in c.body:
                    if isinstance(st, FuncTypes) and st.name == node.attr:
                        return ("func", st)
                return ("classattr", c, node.attr)
        return None

    # ---------------------------------------------------------------- classes
    def class_bases(self, cdef: ast.ClassDef):
        out = []
        for b in cdef.bases:
            if isinstance(b, ast.Subscript):
                b = b.value
            r = self.resolve_expr(cdef._module, b)
            if r and r[0] == "class":
                out.append(r[1])
            else:
                out.append(dotted(b) or ast.unparse(b))
        return out

    def mro(self, cdef: ast.ClassDef):
        """C3 linearisation; external bases appear as strings."""
        key = id(cdef)
        if key in self._mro_cache:
            return self._mro_cache[key]
        bases = self.class_bases(cdef)
        seqs = []
        for b in bases:
            if isinstance(b, ast.ClassDef):
                seqs.append(list(self.mro(b)))
            else:
                seqs.append([b])
        seqs.append(list(bases))
        res = [cdef]
        seqs = [s for s in seqs if s]
        while seqs:
            for s in seqs:
                cand = s[0]
                if not any(_in_tail(cand, t) for t in seqs):
                    break
            else:
                raise AnalysisError(f"inconsistent MRO for {cdef.name}")
            res.append(cand)
            seqs = [[x for x in s if not _same(x, cand)] for s in seqs]
            seqs = [s for s in seqs if s]
        self._mro_cache[key] = res
        return res

    def class_methods(self, cdef: ast.ClassDef):
        return {st.name: st for st in cdef.body if isinstance(st, FuncTypes)}

    def find_method(self, cdef: ast.ClassDef, name: str):
        """First definer in the MRO (source classes only)."""
        for c in self.mro(cdef):
            if isinstance(c, ast.ClassDef):
                m = self.class_methods(c).get(name)
                if m is not None:
                    return c, m
        return None, None

    # -------------------------------------------------------- constant folding
    def const(self, mod: Module, name: str):
        key = (mod.name, name)
        if key in self._const_cache:
            return self._const_cache[key]
        val = self.module_assign(mod, name)
        if val is None:
            imp = mod.imports.get(name)
            if imp and imp[0] == "symbol" and imp[1] in self.modules:
                return self.const(self.modules[imp[1]], imp[2])
            raise AnalysisError(f"constant {mod.path}::{name} not found")
        self._const_cache[key] = None  # recursion guard
        v = self.eval_const(mod, val)
        self._const_cache[key] = v
        return v

    def eval_const(self, mod: Module, node: ast.AST):
        if isinstance(node, ast.Constant):
            return node.value
        if isinstance(node, ast.Set):
            return frozenset(self.eval_const(mod, e) for e in node.elts)
        if isinstance(node, (ast.Tuple, ast.List)):
            return tuple(self.eval_const(mod, e) for e in node.elts)
        if isinstance(node, ast.Dict):
            out = {}
            for k, v in zip(node.keys, node.values):
                if k is None:
                    out.update(self.eval_const(mod, v))
                else:
                    out[self.eval_const(mod, k)] = self.eval_const(mod, v)
            return out
        if isinstance(node, ast.BinOp) and isinstance(node.op, (ast.BitOr, ast.BitAnd, ast.Sub)):
            left, right = self.eval_const(mod, node.left), self.eval_const(mod, node.right)
            if isinstance(left, dict) and isinstance(right, dict) and isinstance(node.op, ast.BitOr):
                return {**left, **right}
            if isinstance(node.op, ast.BitOr):
                return left | right
            if isinstance(node.op, ast.BitAnd):
                return left & right
            return left - right
        if isinstance(node, ast.Name):
            if node.id in ("True", "False", "None"):
                return {"True": True, "False": False, "None": None}[node.id]
            r = self.resolve_symbol(mod, node.id)
            if r and r[0] == "assign":
                return self.const(r[1], node.id) if r[1] is mod else self.eval_const(r[1], r[2])
            if r and r[0] == "class":
                return Sym("class:" + r[1].name)
            if r and r[0] == "func":
                return Sym("func:" + r[1].name)
            return Sym(node.id)
        if isinstance(node, ast.Attribute):
            d = dotted(node)
            r = self.resolve_expr(mod, node)
            if r and r[0] == "assign":
                return self.eval_const(r[1], r[2])
            if r and r[0] == "class":
                return Sym("class:" + r[1].name)
            if r and r[0] == "func":
                return Sym("func:" + r[1].name)
            return Sym(d or ast.unparse(node))
        if isinstance(node, ast.Call):
            fn = dotted(node.func)
            if fn in ("frozenset", "set", "tuple", "list") and len(node.args) <= 1:
                if not node.args:
                    return frozenset() if fn in ("frozenset", "set") else ()
                v = self.eval_const(mod, node.args[0])
                return frozenset(v) if fn in ("frozenset", "set") else tuple(v)
            return Sym(ast.unparse(node))
        if isinstance(node, ast.UnaryOp) and isinstance(node.op, ast.USub):
            v = self.eval_const(mod, node.operand)
            if isinstance(v, (int, float)):
                return -v
        return Sym(ast.unparse(node))


class Sym(str):
    """A symbolic (non-literal) constant, compared by its text."""

    def __repr__(self):
        return f"Sym({str.__repr__(self)})"


def _flat_module_body(tree):
    def rec(body):
        for st in body:
            yield st
            if isinstance(st, (ast.If, ast.Try, ast.With)):
                for b in _stmt_bodies(st):
                    yield from rec(b)

    yield from rec(tree.body)


def _same(a, b):
    return a is b or (isinstance(a, str) and isinstance(b, str) and a == b)


def _in_tail(c, seq):
    return any(_same(c, x) for x in seq[1:])


# --------------------------------------------------------------------------- utils


def dotted(node) -> str | None:
    """a.b.c -> 'a.b.c' for Name/Attribute chains, else None."""
    parts = []
    while isinstance(node, ast.Attribute):
        parts.append(node.attr)
        node = node.value
    if isinstance(node, ast.Name):
        parts.append(node.id)
        return ".".join(reversed(parts))
    return None


def unparse(node) -> str:
    return ast.unparse(node)


def norm(node) -> str:
    """Normalised text of a construct, used in finding keys (never line numbers)."""
    s = ast.unparse(node)
    s = " ".join(s.split())
    return s if len(s) <= 160 else s[:157] + "..."


def call_name(call: ast.Call) -> str | None:
    return dotted(call.func)


def attr_tail(node) -> str | None:
    if isinstance(node, ast.Attribute):
        return node.attr
    if isinstance(node, ast.Name):
        return node.id
    return None


def walk_no_nested(fn):
    """Walk a function body without descending into nested defs/lambdas/classes."""
    stack = list(reversed(fn.body)) if hasattr(fn, "body") and isinstance(fn.body, list) else [fn]
    while stack:
        n = stack.pop()
        yield n
        if isinstance(n, FuncTypes + (ast.Lambda, ast.ClassDef)):
            continue  # the nested definition itself is visited, its body is not
        for c in reversed(list(ast.iter_child_nodes(n))):
            stack.append(c)


def calls_in(node, nested=True):
    it = ast.walk(node) if nested else walk_no_nested(node)
    for n in it:
        if isinstance(n, ast.Call):
            yield n


def names_in(node):
    return {n.id for n in ast.walk(node) if isinstance(n, ast.Name)}


def params_of(fn) -> list[str]:
    a = fn.args
    out = [x.arg for x in a.posonlyargs + a.args]
    if a.vararg:
        out.append("*" + a.vararg.arg)
    out += [x.arg for x in a.kwonlyargs]
    if a.kwarg:
        out.append("**" + a.kwarg.arg)
    return out


def positional_params(fn) -> list[str]:
    a = fn.args
    return [x.arg for x in a.posonlyargs + a.args]


def decorators(fn) -> list[str]:
    out = []
    for d in fn.decorator_list:
        if isinstance(d, ast.Call):
            d = d.func
        out.append(dotted(d) or ast.unparse(d))
    return out


def always_leaves(body) -> bool:
    """True if the statement list cannot fall through (ends in return/raise/continue/break on all paths)."""
    if not body:
        return False
    last = body[-1]
    if isinstance(last, (ast.Return, ast.Raise, ast.Continue, ast.Break)):
        return True
    if isinstance(last, ast.If):
        return bool(last.orelse) and always_leaves(last.body) and always_leaves(last.orelse)
    if isinstance(last, ast.With):
        # a context manager that swallows exceptions (contextlib.suppress) lets control fall out of the block
        if any(isinstance(it.context_expr, ast.Call) and (dotted(it.context_expr.func) or "").split(".")[-1] == "suppress" for it in last.items):
            return False
        return always_leaves(last.body)
    if isinstance(last, ast.Try):
        if last.finalbody and always_leaves(last.finalbody):
            return True
        bodies = [last.body + last.orelse] + [h.body for h in last.handlers]
        return all(always_leaves(b) for b in bodies)
    if isinstance(last, ast.Match):
        has_default = any(
            isinstance(c.pattern, ast.MatchAs) and c.pattern.pattern is None and c.guard is None for c in last.cases
        )
        return has_default and all(always_leaves(c.body) for c in last.cases)
    return False


def site(mod: Module, node) -> str:
    fn = node if isinstance(node, FuncTypes) else enclosing_function(node)
    q = getattr(fn, "_qualname", None) if fn is not None else None
    return f"{mod.path}::{q or '<module>'}"


def loc(mod: Module, node) -> str:
    return f"{mod.path}:{getattr(node, 'lineno', 0)}"
