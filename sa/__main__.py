"""CLI: python -m sa check Cnn [--tier quick|thorough] | all | replay <file> | selfcheck | list"""

from __future__ import annotations

import argparse
import json
import os
import sys

from . import core, report
from .rules import load_all


def main(argv=None):
    ap = argparse.ArgumentParser(prog="sa")
    sub = ap.add_subparsers(dest="cmd", required=True)
    c = sub.add_parser("check")
    c.add_argument("prop")
    c.add_argument("--tier", default=os.environ.get("VERIF_TIER") or "quick", choices=["quick", "thorough"])
    c.add_argument("--rule", action="append")
    a = sub.add_parser("all")
    a.add_argument("--tier", default="quick", choices=["quick", "thorough"])
    r = sub.add_parser("replay")
    r.add_argument("path")
    s = sub.add_parser("selfcheck")
    s.add_argument("--full", action="store_true")
    sub.add_parser("list")
    st = sub.add_parser("selftest")
    st.add_argument("--prop")
    st.add_argument("--jobs", type=int, default=min(16, os.cpu_count() or 1))
    st.add_argument("-v", action="store_true")
    args = ap.parse_args(argv)
    load_all()

    if args.cmd == "check":
        extra = None
        st_code = 0
        if args.tier == "thorough" and not args.rule:
            from . import selftest

            st_code, st = selftest.run_all(jobs=min(16, os.cpu_count() or 1), prop=args.prop)
            extra = {"selftest": st}
        code, summ = report.run_property(args.prop, args.tier, rules=args.rule, extra_cov=extra)
        return max(code, st_code) if st_code == 2 else code
    if args.cmd == "all":
        tree = core.Tree()
        props = sorted({p for r in report.RULES.values() for p in r.props})
        worst = 0
        for p in props:
            code, _ = report.run_property(p, args.tier, tree=tree)
            worst = max(worst, code)
        return worst
    if args.cmd == "list":
        for rid, rd in sorted(report.RULES.items()):
            print(f"{rid:<20} props={','.join(rd.props):<16} floor={rd.floor:<4} {rd.desc}")
        return 0
    if args.cmd == "replay":
        with open(args.path) as f:
            d = json.load(f)
        code, summ = report.run_property(d["property"], d.get("tier", "quick"), rules=[d["rule"]], quiet=True, write=False)
        if code == 2:
            print("\n".join(summ["lines"]))
            return 2
        allf = summ["violations"] + [f for f, _ in summ["known_present"]]
        hit = [f for f in allf if (f.rule, f.site, f.construct) == (d["rule"], d["site"], d["construct"])]
        rd = report.RULES[d["rule"]]
        print(f"rule {rd.rid}: {rd.desc}")
        if hit:
            f = hit[0]
            print(f"STILL PRESENT at {f.site} line {f.line}\n  construct: {f.construct}\n  {f.message}")
            return 1
        print(f"no longer present: {d['site']} `{d['construct']}`")
        return 0
    if args.cmd == "selfcheck":
        try:
            tree = core.Tree()
        except core.AnalysisError as e:
            print(f"ANALYSIS-ERROR {e}")
            return 2
        print("parsed", tree.stats(), "rules", len(report.RULES))
        if args.full:
            from . import selftest

            return selftest.run_all(jobs=16)[0]
        return 0
    if args.cmd == "selftest":
        from . import selftest

        return selftest.run_all(jobs=args.jobs, prop=args.prop, verbose=args.v)[0]
    return 2


if __name__ == "__main__":
    try:
        rc = main()
    except core.AnalysisError as e:
        print(f"ANALYSIS-ERROR {e}")
        rc = 2
    except Exception as e:  # noqa: BLE001
        import traceback

        traceback.print_exc()
        print(f"ANALYSIS-ERROR internal: {type(e).__name__}: {e}")
        rc = 2
    sys.stdout.flush()
    sys.exit(rc)
