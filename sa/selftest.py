"""Both-ways self-test of the rules.

Each variant is a small source edit applied in memory (loader overlay; nothing is
written to disk, nothing is executed):

* kind "break": one instance of a rule is broken in a way that still compiles; the rule
  must report a finding it does not report on the unedited tree;
* kind "keep": a behaviour-preserving edit (rename, reorder, equivalent idiom); the rule's
  findings must be exactly those of the unedited tree.

If the anchor text of a variant no longer occurs in /repo (because /repo was edited), the
variant is skipped and counted as such: the self-test validates the checker, not the tree.
"""

from __future__ import annotations

import importlib
import os
import pkgutil
import time
from concurrent.futures import ProcessPoolExecutor
from dataclasses import dataclass, field

from . import core, report


@dataclass
class Variant:
    vid: str
    rule: str
    kind: str  # break | keep
    path: str
    old: str
    new: str
    note: str = ""
    count: int = 1  # expected number of occurrences of `old`
    extra: list = field(default_factory=list)  # further (path, old, new) edits


VARIANTS: list[Variant] = []


def V(vid, rule, kind, path, old, new, note="", count=1, extra=None):
    VARIANTS.append(Variant(vid, rule, kind, path, old, new, note, count, extra or []))


def load_variants():
    if VARIANTS:
        return
    from . import variants as pkg

    for m in pkgutil.iter_modules(pkg.__path__):
        importlib.import_module(f"{pkg.__name__}.{m.name}")


def _findings(rule_id, tree):
    rd = report.RULES[rule_id]
    rec = report.R(rd, tree, "quick")
    rd.fn(rec)
    return {f.key(): f for f in rec.findings}, len(rec.instances)


_BASE = {}


def _baseline(rule_id):
    if rule_id not in _BASE:
        _BASE[rule_id] = _findings(rule_id, _base_tree())
    return _BASE[rule_id]


_TREE = None


def _base_tree():
    global _TREE
    if _TREE is None:
        _TREE = core.Tree()
    return _TREE


def run_variant(v: Variant):
    from .rules import load_all

    load_all()
    try:
        edits = [(v.path, v.old, v.new)] + list(v.extra)
        overlay = {}
        for path, old, new in edits:
            full = os.path.join(core.REPO, path)
            src = overlay.get(path)
            if src is None:
                with open(full, encoding="utf-8") as f:
                    src = f.read()
            n = src.count(old)
            want = v.count if path == v.path and old == v.old else 1
            if n != want:
                return (v.vid, "skipped", f"anchor occurs {n} times (expected {want}) in {path}")
            overlay[path] = src.replace(old, new)
        for path, src in overlay.items():
            try:
                compile(src, path, "exec", dont_inherit=True)
            except SyntaxError as e:
                return (v.vid, "error", f"variant does not compile: {e}")
        base, _ = _baseline(v.rule)
        try:
            tree = core.Tree(overlay=overlay)
            got, _ = _findings(v.rule, tree)
        except core.AnalysisError as e:
            if v.kind == "break":
                return (v.vid, "fired", f"analysis refused the variant (fail-closed): {e}")
            return (v.vid, "FAILED", f"keep-variant raised ANALYSIS-ERROR: {e}")
        new = [k for k in got if k not in base]
        gone = [k for k in base if k not in got]
        if v.kind == "break":
            if new:
                f = got[new[0]]
                return (v.vid, "fired", f"{f.site}: {f.message[:140]}")
            return (v.vid, "FAILED", "breaking variant was not reported")
        if new or gone:
            what = got[new[0]].message[:140] if new else f"finding disappeared: {gone[0]}"
            return (v.vid, "FAILED", f"behaviour-preserving variant changed the verdict: {what}")
        return (v.vid, "silent", "")
    except Exception as e:  # noqa: BLE001
        import traceback

        return (v.vid, "error", f"{type(e).__name__}: {e}\n{traceback.format_exc()[-600:]}")


def run_all(jobs=16, prop=None, verbose=False, quiet=False):
    from .rules import load_all

    load_all()
    load_variants()
    vs = VARIANTS
    if prop:
        vs = [v for v in vs if v.rule in report.RULES and prop in report.RULES[v.rule].props]
    for v in vs:
        if v.rule not in report.RULES:
            print(f"ANALYSIS-ERROR selftest variant {v.vid} names unknown rule {v.rule}")
            return 2, {}
    t0 = time.time()
    if not vs:
        return 0, {"variants": 0}
    if jobs > 1 and len(vs) > 2:
        with ProcessPoolExecutor(max_workers=min(jobs, len(vs))) as ex:
            results = list(ex.map(run_variant, vs, chunksize=max(1, len(vs) // (jobs * 2))))
    else:
        results = [run_variant(v) for v in vs]
    summary = {"variants": len(vs), "fired": 0, "silent": 0, "skipped": 0, "failed": 0, "errors": 0}
    failures = []
    for (vid, status, msg), v in zip(results, vs):
        if status == "fired":
            summary["fired"] += 1
        elif status == "silent":
            summary["silent"] += 1
        elif status == "skipped":
            summary["skipped"] += 1
        elif status == "FAILED":
            summary["failed"] += 1
            failures.append((vid, v.rule, v.kind, msg))
        else:
            summary["errors"] += 1
            failures.append((vid, v.rule, v.kind, msg))
        if verbose or status in ("FAILED", "error"):
            print(f"  selftest {vid:<34} [{v.rule} {v.kind}] {status} {msg}")
    summary["wall_s"] = round(time.time() - t0, 2)
    summary["failures"] = [dict(zip(("variant", "rule", "kind", "message"), f)) for f in failures]
    if not quiet:
        print(
            f"selftest{(' ' + prop) if prop else ''}: {summary['variants']} variants: {summary['fired']} breaking "
            f"variants reported, {summary['silent']} behaviour-preserving variants silent, "
            f"{summary['skipped']} skipped (anchor edited), {summary['failed']} FAILED, {summary['errors']} errors "
            f"in {summary['wall_s']}s"
        )
    code = 0 if not failures else 2
    if failures and not quiet:
        print("ANALYSIS-ERROR selftest: the checker does not behave as specified on its own variants")
    return code, summary
