"""Structured control dependence: which tests (with polarity) dominate a node.

All code under analysis is structured, so the guard set of a node is the
conjunction of the enclosing if/elif/else/while/ternary/boolean-operator tests
with polarity, plus the negation of every preceding sibling `if` whose body
always leaves (return/raise/continue/break).
"""

from __future__ import annotations

import ast

from .core import FuncTypes, always_leaves, dotted


def _split_bool(test, polarity):
    """Flatten a test into atomic (expr, polarity) facts that are *implied* by it."""
    if isinstance(test, ast.UnaryOp) and isinstance(test.op, ast.Not):
        return _split_bool(test.operand, not polarity)
    if isinstance(test, ast.BoolOp):
        if isinstance(test.op, ast.And) and polarity:
            out = []
            for v in test.values:
                out += _split_bool(v, True)
            return out
        if isinstance(test.op, ast.Or) and not polarity:
            out = []
            for v in test.values:
                out += _split_bool(v, False)
            return out
    return [(test, polarity)]


def guards_of(node, stop=None):
    """List of (test_expr, polarity) that hold whenever `node` is evaluated,
    walking outwards to the enclosing function (or `stop`)."""
    facts = []
    child = node
    parent = getattr(node, "_parent", None)
    while parent is not None and parent is not stop:
        if isinstance(parent, ast.Lambda):
            break
        if isinstance(parent, FuncTypes):
            if _in_list(child, parent.body):
                idx = _index_of(child, parent.body)
                for prev in parent.body[:idx]:
                    facts += _leaving_facts(prev)
            break
        if isinstance(parent, (ast.If, ast.While)):
            if _in_list(child, parent.body):
                facts += _split_bool(parent.test, True)
            elif _in_list(child, parent.orelse) and isinstance(parent, ast.If):
                facts += _split_bool(parent.test, False)
        elif isinstance(parent, ast.IfExp):
            if child is parent.body:
                facts += _split_bool(parent.test, True)
            elif child is parent.orelse:
                facts += _split_bool(parent.test, False)
        elif isinstance(parent, ast.BoolOp):
            idx = _index_of(child, parent.values)
            if idx is not None:
                for prev in parent.values[:idx]:
                    facts += _split_bool(prev, isinstance(parent.op, ast.And))
        elif isinstance(parent, (ast.ListComp, ast.SetComp, ast.GeneratorExp, ast.DictComp)):
            # element expression is guarded by the comprehension's ifs
            if not any(child is g or _contains(g, child) for g in parent.generators):
                for g in parent.generators:
                    for cond in g.ifs:
                        facts += _split_bool(cond, True)
        elif isinstance(parent, ast.comprehension):
            idx = _index_of(child, parent.ifs)
            if idx is not None:
                for prev in parent.ifs[:idx]:
                    facts += _split_bool(prev, True)
        elif isinstance(parent, ast.match_case):
            m = getattr(parent, "_parent", None)
            if isinstance(m, ast.Match) and _in_list(child, parent.body):
                facts.append((_MatchFact(m.subject, parent.pattern), True))
                if parent.guard is not None:
                    facts += _split_bool(parent.guard, True)
        # preceding siblings that always leave
        for fld in ("body", "orelse", "finalbody"):
            lst = getattr(parent, fld, None)
            if isinstance(lst, list) and _in_list(child, lst):
                idx = _index_of(child, lst)
                for prev in lst[:idx]:
                    facts += _leaving_facts(prev)
        if isinstance(parent, ast.ExceptHandler) and _in_list(child, parent.body):
            idx = _index_of(child, parent.body)
            for prev in parent.body[:idx]:
                facts += _leaving_facts(prev)
        if isinstance(parent, ast.match_case) and _in_list(child, parent.body):
            idx = _index_of(child, parent.body)
            for prev in parent.body[:idx]:
                facts += _leaving_facts(prev)
        child = parent
        parent = getattr(parent, "_parent", None)
    return facts


class _MatchFact(ast.AST):
    """Pseudo-expression: `subject` matched `pattern`."""

    _fields = ("subject", "pattern")

    def __init__(self, subject, pattern):
        super().__init__()
        self.subject = subject
        self.pattern = pattern


def _leaving_facts(prev):
    """Facts established for later siblings by an earlier statement that leaves."""
    out = []
    if isinstance(prev, ast.If):
        if always_leaves(prev.body) and not prev.orelse:
            out += _split_bool(prev.test, False)
        elif prev.orelse and always_leaves(prev.orelse) and not always_leaves(prev.body):
            out += _split_bool(prev.test, True)
        elif prev.orelse and always_leaves(prev.body) and not always_leaves(prev.orelse):
            out += _split_bool(prev.test, False)
    elif isinstance(prev, ast.Assert):
        out += _split_bool(prev.test, True)
    return out


def _in_list(child, lst):
    return isinstance(lst, list) and any(child is x for x in lst)


def _index_of(child, lst):
    for i, x in enumerate(lst):
        if x is child:
            return i
    return None


def _contains(root, node):
    return any(n is node for n in ast.walk(root))


# ------------------------------------------------------------------ normal forms


def emptiness(test, polarity, name_pred):
    """If the fact says a collection is empty / non-empty, return ('empty'|'nonempty', expr-text).
    `name_pred(expr)` selects the collection expressions of interest."""
    t = test
    # not X / X
    if name_pred(t):
        return ("nonempty" if polarity else "empty", ast.unparse(t))
    if isinstance(t, ast.Compare) and len(t.ops) == 1:
        left, op, right = t.left, t.ops[0], t.comparators[0]
        # len(X) <op> K
        if isinstance(left, ast.Call) and dotted(left.func) == "len" and len(left.args) == 1 and name_pred(left.args[0]):
            if isinstance(right, ast.Constant) and isinstance(right.value, int):
                k = right.value
                kind = None
                if isinstance(op, ast.Eq) and k == 0:
                    kind = "empty"
                elif isinstance(op, ast.NotEq) and k == 0:
                    kind = "nonempty"
                elif isinstance(op, ast.Gt) and k == 0:
                    kind = "nonempty"
                elif isinstance(op, ast.GtE) and k == 1:
                    kind = "nonempty"
                elif isinstance(op, ast.Lt) and k == 1:
                    kind = "empty"
                elif isinstance(op, ast.LtE) and k == 0:
                    kind = "empty"
                if kind:
                    if not polarity:
                        kind = "empty" if kind == "nonempty" else "nonempty"
                    return (kind, ast.unparse(left.args[0]))
        # X == () / X != ()
        if name_pred(left) and isinstance(right, (ast.Tuple, ast.List)) and not right.elts:
            if isinstance(op, ast.Eq):
                return ("empty" if polarity else "nonempty", ast.unparse(left))
            if isinstance(op, ast.NotEq):
                return ("nonempty" if polarity else "empty", ast.unparse(left))
    return None


def dominated_by_empty(node, varnames):
    """True if `node` only executes when one of the collections named in `varnames` is empty."""
    pred = lambda e: isinstance(e, ast.Name) and e.id in varnames  # noqa: E731
    for t, pol in guards_of(node):
        r = emptiness(t, pol, pred)
        if r and r[0] == "empty":
            return True
    return False


def facts_text(node):
    return [("" if pol else "not ") + _txt(t) for t, pol in guards_of(node)]


def _txt(t):
    if isinstance(t, _MatchFact):
        return f"match {ast.unparse(t.subject)} case {ast.unparse(t.pattern)}"
    return ast.unparse(t)


def is_none_fact(test, polarity):
    """('none'|'notnone', text) for `X is None` / `X is not None` facts."""
    if isinstance(test, ast.Compare) and len(test.ops) == 1:
        r = test.comparators[0]
        if isinstance(r, ast.Constant) and r.value is None:
            if isinstance(test.ops[0], ast.Is):
                return ("none" if polarity else "notnone", ast.unparse(test.left))
            if isinstance(test.ops[0], ast.IsNot):
                return ("notnone" if polarity else "none", ast.unparse(test.left))
    return None


_FLIP = {ast.Eq: ast.NotEq, ast.NotEq: ast.Eq, ast.Lt: ast.GtE, ast.GtE: ast.Lt, ast.Gt: ast.LtE, ast.LtE: ast.Gt, ast.In: ast.NotIn, ast.NotIn: ast.In, ast.Is: ast.IsNot, ast.IsNot: ast.Is}


def holds(node, stop=None):
    """The facts that hold at `node`, each as the source text of a *true* statement: a comparison known to be false
    is given as its complement (`x != 2` false -> `x == 2`), anything else false as `not (...)`.  Lets a rule read a
    guard clause (`if x != 2: return`) and a positive test (`if x == 2: ...`) the same way."""
    out = []
    for t, pol in guards_of(node, stop):
        if pol:
            out.append(ast.unparse(t))
        elif isinstance(t, ast.Compare) and len(t.ops) == 1 and type(t.ops[0]) in _FLIP:
            c = ast.Compare(left=t.left, ops=[_FLIP[type(t.ops[0])]()], comparators=t.comparators)
            out.append(ast.unparse(c))
        elif isinstance(t, ast.UnaryOp) and isinstance(t.op, ast.Not):
            out.append(ast.unparse(t.operand))
        elif isinstance(t, _MatchFact):
            continue
        else:
            out.append(f"not ({ast.unparse(t)})")
    return out
