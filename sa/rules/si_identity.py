"""Two clauses about *which value an interval object stands for* (C21).

C21.eqident     An interval is a set of values; `a == b` is definitely true only if both are the same single value, or
                if the two operands are one and the same abstract value.  The name of an interval does not say that:
                copy() keeps it, and zero_extend / sign_extend / extract / the reversals return such copies with other
                values.  Every `return TrueResult()` of StridedInterval.eq is therefore under single-value facts with
                equal bounds, or under an identity test of the two operands - never under a comparison of names.

C21.revcommute  A lazily reversed interval (flag `_reversed`) stands for the byte reversal of what its bounds say.
                normalize_types may compute `reverse(a) op reverse(b)` as `reverse(a op b)` - on the unreversed
                representations, reversing the result - only for operations that commute with the byte reversal: the
                bytewise ones, equality and the set operations.  The site that asks for the result to be reversed back
                is under a fact that restricts the wrapped function to such operations, and clears both flags (the
                operation and what it calls would otherwise undo the reversal themselves).
"""

from __future__ import annotations

import ast
import re

from .. import guards, util
from ..core import norm, walk_no_nested
from ..report import rule
from .joinstride import SI

# operations op with reverse(a) op reverse(b) == reverse(a op b): each output byte depends on the same byte of the
# inputs (and / or / xor), the answer does not depend on the byte order (equality), or the operation works on the
# operands as sets of values (union, intersection, widening: reversal is a bijection on values)
_COMMUTES = {
    "__or__", "__and__", "__xor__", "bitwise_or", "bitwise_and", "bitwise_xor", "eq", "__eq__", "__ne__",
    "union", "_union", "intersection", "_multi_valued_intersection", "widen", "pseudo_join", "least_upper_bound",
}  # fmt: skip


def _module_literal_set(m, name):
    """the strings of a module-level `NAME = {..}` / `frozenset({..})` / tuple / list literal, assigned once"""
    found = [st.value for st in m.tree.body if isinstance(st, (ast.Assign, ast.AnnAssign)) and any(isinstance(t, ast.Name) and t.id == name for t in (st.targets if isinstance(st, ast.Assign) else [st.target]))]
    rebound = any(
        (isinstance(g, ast.Global) and name in g.names)
        or (isinstance(g, ast.AugAssign) and isinstance(g.target, ast.Name) and g.target.id == name)
        or (isinstance(g, ast.Attribute) and isinstance(g.value, ast.Name) and g.value.id == name and g.attr in ("add", "update", "append", "extend", "insert"))
        for g in ast.walk(m.tree)
    )
    if len(found) != 1 or found[0] is None or rebound:
        return None
    v = found[0]
    while isinstance(v, ast.Call) and isinstance(v.func, ast.Name) and v.func.id in ("frozenset", "set", "tuple", "list") and len(v.args) == 1 and not v.keywords:
        v = v.args[0]
    if isinstance(v, (ast.Set, ast.Tuple, ast.List)) and all(isinstance(e, ast.Constant) for e in v.elts):
        return {e.value for e in v.elts}
    return None


def _facts(node):
    return [re.sub(r"\s+", " ", f) for f in guards.holds(node)]


@rule(
    "C21.eqident",
    props=("C21", "C24"),
    floor=1,
    family="GRD",
    desc="StridedInterval.eq answers definitely-true only for two equal single values or for an operand compared with "
    "itself (identity), never because two intervals carry the same name: copy() keeps the name and the extensions, "
    "slices and reversals return such copies with other values",
)
def c21_eqident(R):
    tree = R.tree
    m = tree.mod(SI)
    fn = util.resolve_locals(tree.func_inlined(SI, "StridedInterval.eq"))
    ps = [a.arg for a in fn.args.args]
    R.need(len(ps) == 2, "StridedInterval.eq no longer takes (self, o)")
    a, b = ps
    n = 0
    for r in walk_no_nested(fn):
        if not (isinstance(r, ast.Return) and isinstance(r.value, ast.Call) and ast.unparse(r.value.func).split(".")[-1] == "TrueResult"):
            continue
        n += 1
        facts = _facts(r)
        singles = f"{a}.is_integer" in facts and f"{b}.is_integer" in facts and any(
            re.fullmatch(rf"{a}\._?lower_bound == {b}\._?lower_bound|{b}\._?lower_bound == {a}\._?lower_bound", f) for f in facts
        )
        ident = any(f in (f"{a} is {b}", f"{b} is {a}") for f in facts)
        R.check(
            singles or ident,
            m,
            r,
            "definitely equal only as equal single values or as one object",
            f"StridedInterval.eq returns TrueResult() under {facts or ['no condition']}: neither two equal single values nor an "
            f"identity test of the operands - with a comparison of names ZeroExt(8, x) == SignExt(8, x) is True for x in "
            f"[0x80, 0x90] (both are copies of x with its name), where the two sides are disjoint",
            construct=f"eq: definitely-true answer under [{'; '.join(f for f in facts if 'is_integer' not in f)[:80]}]",
        )
    R.need(n >= 1, "StridedInterval.eq: no definitely-true answer found")


@rule(
    "C21.revcommute",
    props=("C21", "C24"),
    floor=2,
    family="GRD",
    desc="normalize_types computes on the unreversed representations and reverses the result only for wrapped operations "
    "that commute with the byte reversal (bytewise operations, equality, set operations), and with both reversal flags "
    "cleared",
)
def c21_revcommute(R):
    tree = R.tree
    m = tree.mod(SI)
    outer = tree.func(SI, "normalize_types")
    wrapped = outer.args.args[0].arg
    inner = [n for n in ast.walk(outer) if isinstance(n, ast.FunctionDef) and n is not outer and any(isinstance(c, ast.Call) and isinstance(c.func, ast.Name) and c.func.id == wrapped for c in ast.walk(n))]
    R.need(len(inner) == 1, "normalize_types: the wrapper that calls the wrapped operation was not found")
    fn = inner[0]
    ps = [p.arg for p in fn.args.args]
    R.need(len(ps) >= 2, "normalize_types wrapper no longer takes two operands")
    # the flag that asks for the result to be reversed back: tested where the result's .reverse() is taken
    flags = set()
    for st in walk_no_nested(fn):
        if isinstance(st, ast.If) and any(isinstance(c, ast.Call) and isinstance(c.func, ast.Attribute) and c.func.attr == "reverse" for b_ in st.body for c in ast.walk(b_)):
            flags |= {x.id for x in ast.walk(st.test) if isinstance(x, ast.Name)}
    flags = {f for f in flags if any(isinstance(a, ast.Assign) and any(isinstance(t, ast.Name) and t.id == f for t in a.targets) and isinstance(a.value, ast.Constant) and a.value.value is True for a in walk_no_nested(fn))}
    R.need(len(flags) == 1, "normalize_types: the flag that asks for the result to be reversed back was not found")
    flag = next(iter(flags))
    # single-assignment locals that hold a test are read through
    defs = {}
    for st in walk_no_nested(fn):
        if isinstance(st, ast.Assign) and len(st.targets) == 1 and isinstance(st.targets[0], ast.Name):
            defs.setdefault(st.targets[0].id, []).append(st.value)

    def op_sets(t, pol):
        """sets S with a fact `wrapped.__name__ in S` (pol) / `not in` ..., through one local"""
        if isinstance(t, ast.Name) and len(defs.get(t.id, [])) == 1:
            t = defs[t.id][0]
        if isinstance(t, ast.UnaryOp) and isinstance(t.op, ast.Not):
            return op_sets(t.operand, not pol)
        if isinstance(t, ast.Compare) and len(t.ops) == 1 and ast.unparse(t.left) == f"{wrapped}.__name__":
            c = t.comparators[0]
            vals = None
            if isinstance(c, (ast.Set, ast.Tuple, ast.List)) and all(isinstance(e, ast.Constant) for e in c.elts):
                vals = {e.value for e in c.elts}
            elif isinstance(c, ast.Constant):
                vals = {c.value}
            elif isinstance(c, ast.Name) and c.id not in defs:
                vals = _module_literal_set(m, c.id)
            if vals is not None:
                positive = isinstance(t.ops[0], (ast.In, ast.Eq)) == pol
                return [("in" if positive else "notin", vals)]
        return []

    n = 0
    for st in walk_no_nested(fn):
        if not (isinstance(st, ast.Assign) and any(isinstance(t, ast.Name) and t.id == flag for t in st.targets) and isinstance(st.value, ast.Constant) and st.value.value is True):
            continue
        n += 1
        allowed = None
        for t, pol in guards.guards_of(st):
            for kind, vals in op_sets(t, pol):
                if kind == "in":
                    allowed = vals if allowed is None else allowed & vals
        bad = sorted(allowed - _COMMUTES) if allowed is not None else None
        R.check(
            allowed is not None and not bad,
            m,
            st,
            "result reversed back only for operations that commute with the reversal",
            "normalize_types asks for the result to be reversed back "
            + ("with no restriction of the wrapped operation" if allowed is None else f"for {bad} as well")
            + ": reverse(a) op reverse(b) == reverse(a op b) holds for bytewise operations, equality and set operations only - "
            "Reverse(0x00ff) + Reverse(0x0001) is 0xff00 + 0x0100 = 0, not Reverse(0x0100) = 1",
            construct="normalize_types: reverse_back for " + ("any operation" if allowed is None else ", ".join(bad)),
        )
        # both flags cleared in the same block
        block = getattr(st, "_parent", None)
        body = []
        for fld in ("body", "orelse"):
            b_ = getattr(block, fld, None)
            if isinstance(b_, list) and st in b_:
                body = b_
        cleared = set()
        for s2 in body:
            if isinstance(s2, ast.Assign) and isinstance(s2.value, ast.Constant) and s2.value.value is False:
                for t in s2.targets:
                    if isinstance(t, ast.Attribute) and t.attr == "_reversed" and isinstance(t.value, ast.Name):
                        cleared.add(t.value.id)
        R.check(
            set(ps[:2]) <= cleared,
            m,
            st,
            "both reversal flags cleared where the result is reversed back",
            f"normalize_types reverses the result back but leaves the reversal flag of {sorted(set(ps[:2]) - cleared)} set: the "
            f"wrapped operation (and what it calls) then undoes the reversal itself and the result is reversed once more - "
            f"0x204f & Reverse(0xfda9) came out as 0x4d20 instead of 0x204d",
            construct="normalize_types: reversal flags cleared with reverse_back",
        )
    R.need(n >= 1, "normalize_types: no site asks for the result to be reversed back")


# fields that determine which values an interval stands for
_VALUE_FIELDS = {"_bits", "_stride", "_lower_bound", "_upper_bound", "_reversed", "_is_bottom", "bits", "stride", "lower_bound", "upper_bound"}
_FRESH_CALLS = {"copy", "nameless_copy", "top", "empty", "StridedInterval"}


def _assigns_to(st, name):
    if isinstance(st, ast.Assign) and any(isinstance(t, ast.Name) and t.id == name for t in st.targets):
        return [("value", st.value)]
    if isinstance(st, ast.For) and any(isinstance(t, ast.Name) and t.id == name for t in ast.walk(st.target)):
        return [("element", st.iter)]
    return []


def _reaching(name, at, fn):
    """definitions of `name` that can reach the statement `at`: walking backwards through the earlier siblings, block by
    block; an unconditional assignment ends the search, a compound statement contributes whatever it assigns inside"""
    out = []
    child, par = at, getattr(at, "_parent", None)
    while par is not None:
        for fld in ("body", "orelse", "finalbody"):
            b = getattr(par, fld, None)
            if isinstance(b, list) and child in b:
                for prev in reversed(b[: b.index(child)]):
                    direct = _assigns_to(prev, name)
                    if direct and isinstance(prev, ast.Assign):
                        return out + direct
                    out += direct
                    if isinstance(prev, (ast.If, ast.For, ast.While, ast.Try, ast.With)):
                        for inner in ast.walk(prev):
                            if inner is not prev:
                                out += _assigns_to(inner, name)
        if isinstance(par, ast.For):
            out += _assigns_to(par, name)
            # a loop body runs again: assignments further down in the body reach the top of the next round
            for inner in ast.walk(par):
                if inner is not par and inner is not at:
                    out += [d for d in _assigns_to(inner, name) if d not in out]
        if par is fn:
            break
        child, par = par, getattr(par, "_parent", None)
    return out or None


def _fresh(e, fn, methods, depth=0, seen=None, at=None):
    """does `e` evaluate to an interval object created during this call (so that nobody else holds it)?"""
    seen = seen or set()
    if isinstance(e, ast.IfExp):
        return _fresh(e.body, fn, methods, depth, seen) and _fresh(e.orelse, fn, methods, depth, seen)
    if isinstance(e, ast.Call):
        f = e.func
        name = f.attr if isinstance(f, ast.Attribute) else (f.id if isinstance(f, ast.Name) else None)
        if name in _FRESH_CALLS:
            return True
        if name in methods and isinstance(f, ast.Attribute):
            rets = [r.value for r in walk_no_nested(methods[name]) if isinstance(r, ast.Return) and r.value is not None]
            if rets and all(isinstance(r, ast.Name) and r.id == "self" for r in rets):
                # the method hands back its receiver (normalize): as fresh as the receiver is
                return _fresh(f.value, fn, methods, depth, seen, at)
        if name in methods and name in seen:
            return True  # recursion only passes objects on
        if name in methods and depth < 4:
            return _returns_fresh(methods[name], methods, depth + 1, seen | {name})
        return False
    if isinstance(e, ast.Constant) and e.value is None:
        return True  # no object at all
    if isinstance(e, ast.Name):
        if e.id == "self":
            return False
        defs = _reaching(e.id, at, fn) if at is not None else None
        if defs is None:
            defs = []
            for st in walk_no_nested(fn):
                if isinstance(st, ast.Assign) and any(isinstance(t, ast.Name) and t.id == e.id for t in st.targets):
                    defs.append(("value", st.value))
                elif isinstance(st, ast.For) and any(isinstance(t, ast.Name) and t.id == e.id for t in ast.walk(st.target)):
                    defs.append(("element", st.iter))
        at = None
        if e.id in seen:
            return True  # a cycle only passes objects on: the other definitions decide (greatest fixed point)
        if not defs:
            return False
        ok = True
        for kind, v in defs:
            if kind == "value":
                ok = ok and _fresh(v, fn, methods, depth, seen | {e.id})
            else:
                ok = ok and _fresh_elements(v, fn, methods, depth, seen | {e.id})
        return ok
    return False


def _fresh_elements(e, fn, methods, depth, seen):
    """is every element of the sequence `e` a fresh interval?"""
    if isinstance(e, (ast.List, ast.Tuple)):
        return all(_fresh(x, fn, methods, depth, seen) for x in e.elts)
    if isinstance(e, ast.Call):
        f = e.func
        name = f.attr if isinstance(f, ast.Attribute) else (f.id if isinstance(f, ast.Name) else None)
        if name in methods and depth < 3 and name not in seen:
            m_ = methods[name]
            rets = [r.value for r in walk_no_nested(m_) if isinstance(r, ast.Return) and r.value is not None]
            return bool(rets) and all(_fresh_elements(r, m_, methods, depth + 1, seen | {name}) for r in rets)
    if isinstance(e, ast.Name):
        defs = [st.value for st in walk_no_nested(fn) if isinstance(st, ast.Assign) and any(isinstance(t, ast.Name) and t.id == e.id for t in st.targets)]
        appended = [c.args[0] for c in walk_no_nested(fn) if isinstance(c, ast.Call) and isinstance(c.func, ast.Attribute) and c.func.attr == "append" and ast.unparse(c.func.value) == e.id and c.args]
        if e.id in seen:
            return True
        if not defs:
            return False
        return all(_fresh_elements(d, fn, methods, depth, seen | {e.id}) for d in defs) and all(_fresh(a, fn, methods, depth, seen | {e.id}) for a in appended)
    return False


def _returns_fresh(m_, methods, depth, seen):
    rets = [r.value for r in walk_no_nested(m_) if isinstance(r, ast.Return) and r.value is not None]
    return bool(rets) and all(_fresh(r, m_, methods, depth, seen) for r in rets)


# confirmed by reading, one line of reason each: writes whose receiver the freshness analysis cannot follow
_FRESH_CONFIRMED = {
    ("_reverse", "_reversed"): "the result is built from the byte slices of the copy o (each the result of a shift or cast_low, i.e. of a "
    "constructor, or a copy) joined by concat, which always constructs its result; only the shift-by-zero path of "
    "_rshift_logical hands back its receiver, and that receiver is the copy o",
}


@rule(
    "C21.fresh",
    props=("C21", "C24"),
    floor=8,
    family="TS",
    desc="interval objects are shared (operands, cached conversions of ASTs): a transfer function writes a "
    "value-determining field (_bits, _stride, bounds, _reversed) only of an object created during the call - a copy, a "
    "constructor result, or the result / an element of the result of a method whose every return is such an object",
)
def c21_fresh(R):
    tree = R.tree
    m = tree.mod(SI)
    cls = tree.cls(SI, "StridedInterval")
    methods = util.methods_of(cls)
    n = 0
    for name, fn in methods.items():
        if name in ("__init__",):
            continue
        for st in walk_no_nested(fn):
            tg = st.targets if isinstance(st, ast.Assign) else ([st.target] if isinstance(st, ast.AugAssign) else [])
            for x in tg:
                if not (isinstance(x, ast.Attribute) and x.attr in _VALUE_FIELDS and isinstance(x.value, ast.Name) and x.value.id != "self"):
                    continue
                n += 1
                if (name, x.attr) in _FRESH_CONFIRMED and not _fresh(x.value, fn, methods, at=st):
                    R.ok(m, st, f"{name}: `{x.value.id}.{x.attr}` - {_FRESH_CONFIRMED[(name, x.attr)]}")
                    continue
                R.check(
                    _fresh(x.value, fn, methods, at=st),
                    m,
                    st,
                    f"{name}: `{x.value.id}` is created during the call",
                    f"StridedInterval.{name} writes `{norm(st)[:60]}` to `{x.value.id}`, which is not known to be an object created "
                    f"during this call (a copy, a constructor result, or what a method returns on every path): operands and "
                    f"cached conversions are shared - after ZeroExt(8, x) had rewritten the width of x itself, SignExt(8, x) was "
                    f"computed from a 16-bit x and x <s 0 answered False for x in [0x80, 0x90]",
                    construct=f"{name}: in-place write to {x.value.id}.{x.attr}",
                )
    R.need(n >= 8, f"only {n} in-place writes to value fields found")


@rule(
    "C24.booleq",
    props=("C24", "C10"),
    floor=2,
    family="TAB",
    desc="the VSA backend has a handler of its own for == and != that treats two abstract Booleans three-valued (Maybe when "
    "either side is Maybe): Python's operator fallback reaches BoolResult.__eq__, a structural comparison that answers "
    "with a Python bool",
)
def c24_booleq(R):
    from .ast_tables import dispatch

    tree = R.tree
    BVP = "claripy/backends/backend_vsa/backend_vsa.py"
    m = tree.mod(BVP)
    d = dispatch(tree, "vsa")
    for op in ("__eq__", "__ne__"):
        h = d.handler(op)
        own = h.kind in ("method", "func") and h.fn is not None
        R.check(
            own,
            m,
            tree.cls(BVP, "BackendVSA"),
            f"vsa: {op} has a handler of its own",
            f"vsa: {op} is left to Python's operator.{op}: for two abstract Booleans that is BoolResult.__eq__, which compares the "
            f"abstract values structurally - Maybe == Maybe is a definite True, and SolverVSA().is_true((x == y) == (x != y)) was True "
            f"for an unsatisfiable expression",
            construct=f"vsa dispatch {op} for Booleans",
        )
        if not own:
            continue
        fn = h.fn
        txt = ast.unparse(fn)
        # through a sibling handler (`~_op_eq(a, b)`) or directly: Boolean operands are recognised and Maybe is contagious
        target = fn
        for c in ast.walk(fn):
            if isinstance(c, ast.Call) and isinstance(c.func, ast.Attribute) and c.func.attr.startswith("_op_") and c.func.attr != fn.name:
                sib = util.methods_of(tree.cls(BVP, "BackendVSA")).get(c.func.attr)
                if sib is not None and "MaybeResult" in ast.unparse(sib):
                    target = sib
        ttxt = ast.unparse(target)
        R.check(
            "BoolResult" in txt and "MaybeResult" in ttxt and "is_maybe" in ttxt,
            m,
            fn,
            f"vsa: {op} of two Booleans is Maybe when either is",
            f"BackendVSA's handler for {op} does not give Maybe for a Maybe operand",
            construct=f"vsa {op}: three-valued equality",
        )
