"""Shape clauses of strided-interval arithmetic (C21 / C22) - each one a necessary condition that is visible in the
code without evaluating it, each one found by a defect of the unchanged tree (see known_findings.json -> fixed).

C22.congruence   "v is a member of <w>s[lb, ub]" means v = lb + k*s (mod 2**w) for some k >= 0 within the arc.  A test
                 `D % X.stride == 0` therefore has to take D as the distance walked *upwards* from the lower bound,
                 reduced modulo 2**w (`_modular_sub(v, lb, w)`), or as a plain difference that a dominating fact shows to
                 be non-negative.  Divisibility of a possibly negative integer difference says nothing about the wrapped
                 members unless the stride divides 2**w.
C21.shiftstride  (lb + k*s) >> n is equally spaced only if 2**n divides s: a result stride derived by shifting the operand's
                 stride right needs that divisibility fact, anything else must fall back to 1.
C21.modform      x mod t is x - (x div t) * t: where the quotient is a single value the remainder is computed with that
                 shape, and the coarse bound [0, t_max - 1] is taken from the divisor *piece* the loop is at.
C21.stridezero   a stride of 0 denotes a single value: every division or remainder by a stride is dominated by a fact that
                 excludes it (an explicit test, not-a-single-value, a wrapping pair of bounds, a power of two just
                 written), so that no operation answers with ZeroDivisionError instead of an interval.
"""

from __future__ import annotations

import ast
import re

from .. import guards, util
from ..core import FuncTypes, dotted, norm, walk_no_nested
from ..report import rule
from .joinstride import SI, _is_mask, _is_pow2w
from .si_shape import _arith


def _methods(tree, want=None):
    cls = tree.cls(SI, "StridedInterval")
    for name, raw in util.methods_of(cls).items():
        if want is not None and not want(name, raw):
            continue
        fn = tree.func_inlined(SI, f"StridedInterval.{name}", exclude=("_modular_sub", "_modular_add", "_wrapped_cardinality", "_surrounds_member", "_is_surrounded"))
        for _ in range(4):
            new = util.inline_aliases(fn, _arith)
            if new is fn:
                break
            fn = new
        yield name, fn


_EXCLUDED = ("_modular_sub", "_modular_add", "_wrapped_cardinality", "_surrounds_member", "_is_surrounded")


def _caller_context_only(tree):
    """private helpers of StridedInterval that are referenced only as calls which the inliner expands in every caller:
    their bodies are judged where they are used, under the facts of the call site (a helper that divides by the stride
    of an operand its callers have already found to be no single value carries no such fact itself)"""
    cached = getattr(tree, "_si_caller_ctx", None)
    if cached is not None:
        return cached
    cls = tree.cls(SI, "StridedInterval")
    raws = util.methods_of(cls)
    out = set()
    for h in raws:
        if not h.startswith("_") or h.startswith("__") or h in _EXCLUDED:
            continue
        callers = [nm for nm, raw in raws.items() if nm != h and any(isinstance(x, ast.Attribute) and x.attr == h for x in ast.walk(raw))]
        if not callers:
            continue
        other_refs = any(isinstance(x, ast.Attribute) and x.attr == h for mm in tree.modules.values() for x in ast.walk(mm.tree) if mm.path != SI) if hasattr(tree, "modules") else False
        if other_refs:
            continue
        ok = True
        for nm in callers:
            fn = tree.func_inlined(SI, f"StridedInterval.{nm}", exclude=_EXCLUDED)
            if any(isinstance(x, ast.Attribute) and x.attr == h for x in ast.walk(fn)):
                ok = False
                break
        if ok:
            out.add(h)
    try:
        tree._si_caller_ctx = out
    except AttributeError:
        pass
    return out


def _facts(node):
    """facts in positive text form, plus unit propagation: from `not (A and B)` and `A` follows `not B`"""
    out = [re.sub(r"^not \((.*)\)$", r"not \1", re.sub(r"\s+", " ", f)) for f in guards.holds(node)]
    known = set(out)
    for t, pol in guards.guards_of(node):
        if not pol and isinstance(t, ast.BoolOp) and isinstance(t.op, ast.And):
            rest = [v for v in t.values if re.sub(r"\s+", " ", ast.unparse(v)) not in known]
            if len(rest) == 1:
                v = rest[0]
                if isinstance(v, ast.UnaryOp) and isinstance(v.op, ast.Not):
                    out.append(re.sub(r"\s+", " ", ast.unparse(v.operand)))
                else:
                    out.append("not " + re.sub(r"\s+", " ", ast.unparse(v)))
    return out


def _enclosing_fn(node):
    while node is not None and not isinstance(node, FuncTypes):
        node = getattr(node, "_parent", None)
    return node


def _is_stride(e):
    return isinstance(e, ast.Attribute) and e.attr in ("stride", "_stride")


def _modular(e):
    if isinstance(e, ast.Call) and (dotted(e.func) or "").split(".")[-1] in ("_modular_sub", "_modular_add"):
        return True
    if isinstance(e, ast.BinOp) and isinstance(e.op, ast.Mod) and _is_pow2w(e.right):
        return True
    return isinstance(e, ast.BinOp) and isinstance(e.op, ast.BitAnd) and (_is_mask(e.right) or _is_mask(e.left))


@rule(
    "C22.congruence",
    props=("C22", "C21", "C24"),
    floor=3,
    family="GRD",
    desc="a membership / congruence test `D % X.stride == 0` on a strided interval takes D as the distance walked upwards "
    "from the lower bound modulo 2**w, or as a plain difference known to be non-negative: divisibility of a possibly "
    "negative integer difference says nothing about the members of an interval that wraps past zero",
)
def c22_congruence(R):
    tree = R.tree
    m = tree.mod(SI)
    n = 0
    for name, fn in _methods(tree, lambda nm, raw: "stride" in ast.unparse(raw) and "%" in ast.unparse(raw)):
        for c in walk_no_nested(fn):
            if not (isinstance(c, ast.Compare) and len(c.ops) == 1 and isinstance(c.ops[0], (ast.Eq, ast.NotEq)) and isinstance(c.comparators[0], ast.Constant) and c.comparators[0].value == 0):
                continue
            d = c.left
            if not (isinstance(d, ast.BinOp) and isinstance(d.op, ast.Mod) and _is_stride(d.right)):
                continue
            dist = d.left
            if _is_stride(dist) or isinstance(dist, ast.Constant):
                continue  # divisibility between two strides: no distance on the circle is involved
            n += 1
            ok = _modular(dist)
            why = "reduced modulo 2**w"
            if not ok and isinstance(dist, ast.Name):
                # a local holding the distance
                defs = [st.value for st in walk_no_nested(fn) if isinstance(st, ast.Assign) and len(st.targets) == 1 and isinstance(st.targets[0], ast.Name) and st.targets[0].id == dist.id]
                if len(defs) == 1 and _modular(defs[0]):
                    ok = True
            if not ok and isinstance(dist, ast.BinOp) and isinstance(dist.op, ast.Sub):
                a, b = ast.unparse(dist.left), ast.unparse(dist.right)
                facts = _facts(c)
                ok = any(f in (f"{a} >= {b}", f"{b} <= {a}", f"{a} > {b}", f"{b} < {a}") for f in facts)
                why = f"plain difference, non-negative by a dominating fact ({a} >= {b})"
            R.check(
                ok,
                m,
                c,
                f"{name}: congruence test over an upward distance ({why})",
                f"StridedInterval.{name} tests `{norm(c)[:110]}`: the difference is a plain integer that may be negative (the "
                f"interval may wrap past zero), and its divisibility by the stride does not decide membership unless the "
                f"stride divides 2**w (<3>7[1, 0] = {{1, 0}} was said not to contain 0)",
                construct=f"{name}: congruence test `{norm(d)[:70]}`",
            )
    R.need(n >= 2, f"only {n} congruence tests found")  # 3 today; the two mirror-image tests of the intersection may share a helper
    # the same for residues used as numbers (the last member before a pole is `pole - (pole - lb) % stride`)
    k = 0
    for name, fn in _methods(tree, lambda nm, raw: nm in ("_ssplit", "_nsplit", "_psplit")):
        for d in walk_no_nested(fn):
            if not (isinstance(d, ast.BinOp) and isinstance(d.op, ast.Mod) and _is_stride(d.right)):
                continue
            dist = d.left
            if not (_modular(dist) or (isinstance(dist, ast.BinOp) and isinstance(dist.op, ast.Sub))):
                continue
            k += 1
            ok = _modular(dist)
            if not ok:
                a, b = ast.unparse(dist.left), ast.unparse(dist.right)
                facts = _facts(d)
                if isinstance(dist.left, ast.Name):
                    defs = [st.value for st in walk_no_nested(fn) if isinstance(st, ast.Assign) and len(st.targets) == 1 and isinstance(st.targets[0], ast.Name) and st.targets[0].id == a]
                    if len(defs) == 1:
                        a = ast.unparse(defs[0])
                # the largest value of the width is not below any bound
                ok = bool(re.fullmatch(r"\w+\.max_int\(\w+\.bits\)", a)) or any(f in (f"{a} >= {b}", f"{b} <= {a}", f"{a} > {b}", f"{b} < {a}") for f in facts)
            R.check(
                ok,
                m,
                d,
                f"{name}: residue of an upward distance",
                f"StridedInterval.{name} takes `{norm(d)[:100]}`: the lower bound may lie beyond the pole (an interval that also "
                f"wraps past zero), the difference is then negative and Python's % yields the residue of another number than "
                f"the distance walked upwards (<3>3[7, 5] was split into [7, 1] and [4, 5], losing 2)",
                construct=f"{name}: residue `{norm(d)[:70]}`",
            )
    R.need(k >= 2, f"only {k} pole distances found in the split routines")


@rule(
    "C21.shiftstride",
    props=("C21", "C24"),
    floor=2,
    family="GRD",
    desc="a right shift keeps (a shifted copy of) the operand's stride only under a fact that 2**n divides it; otherwise "
    "the shifted values are not equally spaced and the stride has to fall back to 1",
)
def c21_shiftstride(R):
    tree = R.tree
    m = tree.mod(SI)
    n = 0
    for name, fn in _methods(tree, lambda nm, raw: nm in ("_rshift_logical", "_rshift_arithmetic", "rshift_logical", "rshift_arithmetic")):
        for x in walk_no_nested(fn):
            if not (isinstance(x, ast.BinOp) and isinstance(x.op, (ast.RShift, ast.FloorDiv)) and _is_stride(x.left)):
                continue
            n += 1
            amt = ast.unparse(x.right)
            st = ast.unparse(x.left)
            facts = _facts(x)
            pats = (
                rf"^{re.escape(st)} % \(?(2 \*\* {re.escape(amt)}|1 << {re.escape(amt)})\)? == 0$",
                rf"^{re.escape(st)} & \(?(2 \*\* {re.escape(amt)}|1 << {re.escape(amt)})\)? - 1\)? == 0$",
                rf"^{re.escape(st)} & \(\(?(2 \*\* {re.escape(amt)}|1 << {re.escape(amt)})\)? - 1\) == 0$",
                rf"_ntz\({re.escape(st)}\) >= {re.escape(amt)}$",
                rf"^{re.escape(amt)} <= \S*_ntz\({re.escape(st)}\)$",
            )
            ok = any(re.search(p, f) for p in pats for f in facts)
            R.check(
                ok,
                m,
                x,
                f"{name}: stride shifted only where 2**n divides it",
                f"StridedInterval.{name} derives a stride as `{norm(x)[:60]}` with no dominating fact that 2**{amt} divides "
                f"{st} (facts: {facts[-2:]}): <3>5[1, 6] >> 1 is {{0, 3}}, not a subset of <3>2[0, 3]",
                construct=f"{name}: stride of a right-shifted interval",
            )
    R.need(n >= 2, f"only {n} shifted strides found in the right-shift kernels")


@rule(
    "C21.modform",
    props=("C21", "C24"),
    floor=2,
    family="TAB",
    desc="interval remainder: where the quotient is a single value the result is x - (x div t) * t over the pieces the "
    "loops are at, and the coarse bound [0, t_max - 1] reads the divisor piece, not the whole (possibly wrapping) divisor",
)
def c21_modform(R):
    tree = R.tree
    m = tree.mod(SI)
    fn = tree.func_inlined(SI, "StridedInterval.__mod__")
    fn = util.resolve_locals(fn)
    ps = [a.arg for a in fn.args.args]
    R.need(len(ps) == 2, "__mod__ no longer takes two operands")
    loops = [x for x in walk_no_nested(fn) if isinstance(x, (ast.For, ast.comprehension))]
    piece = {}
    for lp in loops:
        it = ast.unparse(lp.iter)
        if isinstance(lp.target, ast.Name) and it.endswith("._ssplit()"):
            piece[it[: -len("._ssplit()")]] = lp.target.id
    R.need(ps[0] in piece and ps[1] in piece, "__mod__ no longer iterates over the south-pole pieces of both operands")
    x, t = piece[ps[0]], piece[ps[1]]
    subs = [c for c in ast.walk(fn) if isinstance(c, ast.Call) and isinstance(c.func, ast.Attribute) and c.func.attr in ("sub", "__sub__") and len(c.args) == 1]
    subs += [ast.Call(func=ast.Attribute(value=b.left, attr="sub", ctx=ast.Load()), args=[b.right], keywords=[]) for b in ast.walk(fn) if isinstance(b, ast.BinOp) and isinstance(b.op, ast.Sub) and ast.unparse(b.left) == x]
    good = False
    seen = None
    for c in subs:
        if ast.unparse(c.func.value) != x:
            continue
        seen = c
        a = c.args[0]
        fs = []
        if isinstance(a, ast.Call) and isinstance(a.func, ast.Attribute) and a.func.attr in ("mul", "__mul__") and len(a.args) == 1:
            fs = [a.func.value, a.args[0]]
        elif isinstance(a, ast.BinOp) and isinstance(a.op, ast.Mult):
            fs = [a.left, a.right]
        texts = sorted(ast.unparse(f) for f in fs)
        if texts in (sorted([f"{x}.udiv({t})", t]), sorted([f"{x} // {t}", t]), sorted([f"{x}.__floordiv__({t})", t])):
            good = True
    R.check(
        good,
        m,
        seen or fn,
        "precise remainder is x - (x div t) * t",
        f"StridedInterval.__mod__ computes the precise remainder as `{norm(seen)[:90] if seen is not None else None}`; x mod t is "
        f"x - (x div t) * t over the pieces {x} and {t} ([0, 1] % 2 was {{0, 2}})",
        construct="__mod__: precise remainder",
    )
    n = 0
    for c in (c for c in ast.walk(fn) if isinstance(c, ast.Call) and (dotted(c.func) or "").split(".")[-1] == "StridedInterval"):
        ub = next((k.value for k in c.keywords if k.arg == "upper_bound"), None)
        if ub is None or not any(isinstance(n_, ast.For) for n_ in _parents(c)):
            continue
        names = {n_.id for n_ in ast.walk(ub) if isinstance(n_, ast.Name)}
        if not names & {t, ps[1]}:
            continue
        n += 1
        R.check(
            t in names and ps[1] not in names,
            m,
            c,
            "coarse remainder bound reads the divisor piece",
            f"StridedInterval.__mod__ bounds the remainder by `{norm(ub)[:60]}`: inside the loop over the pieces of the "
            f"divisor the bound has to come from the piece `{t}` - the whole divisor `{ps[1]}` may wrap, and its upper "
            f"bound is then smaller than its largest member",
            construct="__mod__: coarse bound of the remainder",
        )
    R.need(n >= 1, "__mod__: coarse bound not found")


def _parents(node):
    node = getattr(node, "_parent", None)
    while node is not None:
        yield node
        node = getattr(node, "_parent", None)


_NONZERO_EXEMPT = {
    ("_nsplit", "self.stride"): "the flag guarding this arm is set only where the bounds lie on different sides of a pole or the "
    "interval wraps: it has two members, and a zero stride is normalised to a single value",
}


@rule(
    "C21.stridezero",
    props=("C21", "C22", "C24"),
    floor=12,
    family="GRD",
    desc="every division or remainder by a stride in the interval implementation is dominated by a fact that the stride is "
    "not 0 (explicit test, the interval is not a single value, its bounds wrap, it was just set to a power of two, or it "
    "is the lcm of two such strides): no operation answers ZeroDivisionError instead of an interval",
)
def c21_stridezero(R):
    tree = R.tree
    m = tree.mod(SI)
    n = 0
    ctx_only = _caller_context_only(tree)
    for name, fn in _methods(tree, lambda nm, raw: True):
        if not ("stride" in ast.unparse(fn) and ("%" in ast.unparse(fn) or "//" in ast.unparse(fn))):
            continue
        assigns = {}
        for st in walk_no_nested(fn):
            if isinstance(st, ast.Assign) and len(st.targets) == 1:
                assigns.setdefault(ast.unparse(st.targets[0]), []).append(st)
        for x in walk_no_nested(fn):
            if not (isinstance(x, ast.BinOp) and isinstance(x.op, (ast.Mod, ast.FloorDiv, ast.Div))):
                continue
            div = x.right
            dt = ast.unparse(div)
            if "stride" not in dt or isinstance(div, ast.Constant):
                continue
            n += 1
            if name in ctx_only:
                continue  # judged in its callers, with the facts of the call sites
            if (name, dt) in _NONZERO_EXEMPT:
                R.ok(m, x, f"{name}: `{dt}` non-zero: {_NONZERO_EXEMPT[(name, dt)]}")
                continue
            facts = _facts(x)

            def nonzero(e, facts=facts, assigns=assigns, depth=0):
                t = ast.unparse(e)
                if any(f in (f"{t} != 0", f"{t} > 0", f"{t} >= 1", f"0 != {t}", f"0 < {t}", f"1 <= {t}") for f in facts):
                    return True
                if isinstance(e, ast.Attribute) and e.attr in ("stride", "_stride"):
                    o = ast.unparse(e.value)
                    if any(
                        f in (f"not {o}.is_integer", f"{o}.is_interval", f"{o}.upper_bound < {o}.lower_bound", f"{o}.lower_bound > {o}.upper_bound", f"{o}.lower_bound != {o}.upper_bound")
                        for f in facts
                    ):
                        return True
                if isinstance(e, ast.Call) and (dotted(e.func) or "") == "max" and any(isinstance(a, ast.Constant) and isinstance(a.value, int) and a.value >= 1 for a in e.args):
                    return True
                if isinstance(e, ast.Call) and (dotted(e.func) or "").split(".")[-1] == "lcm":
                    return all(nonzero(a) for a in e.args)
                if isinstance(e, ast.Call) and (dotted(e.func) or "").split(".")[-1] == "gcd":
                    return any(nonzero(a) for a in e.args)
                if isinstance(e, ast.BinOp) and isinstance(e.op, ast.Pow) and isinstance(e.left, ast.Constant) and e.left.value >= 1:
                    return True
                if isinstance(e, ast.BinOp) and isinstance(e.op, ast.LShift) and isinstance(e.left, ast.Constant) and e.left.value >= 1:
                    return True
                if depth < 2 and t in assigns and len(assigns[t]) == 1:
                    # the value it was given (the facts at the assignment hold here too when it dominates the use)
                    src = assigns[t][0]
                    f2 = _facts(src)
                    if all(f in facts for f in f2):
                        return nonzero(src.value, depth=depth + 1)
                return False

            R.check(
                nonzero(div),
                m,
                x,
                f"{name}: division by `{dt}` under a non-zero fact",
                f"StridedInterval.{name} computes `{norm(x)[:80]}` with no dominating fact that `{dt}` is not 0 (facts: "
                f"{facts[-3:]}): a single value has stride 0 and the operation raises ZeroDivisionError instead of answering "
                f"(n_values of a constant, hence least_upper_bound(5, 5, 5) and x % y, did)",
                construct=f"{name}: division by {dt}",
            )
    R.need(n >= 12, f"only {n} divisions by a stride found")


@rule(
    "C21.sdivround",
    props=("C21", "C24"),
    floor=2,
    family="TAB",
    desc="signed division rounds towards zero (bvsdiv): an upper bound of the quotient is not computed with Python's "
    "floor division `//` from operands of different signs, which rounds the other way and cuts off the largest quotient",
)
def c21_sdivround(R):
    tree = R.tree
    m = tree.mod(SI)
    fn = tree.func_inlined(SI, "StridedInterval._wrapped_signed_div", exclude=("_unsigned_to_signed", "_is_msb_zero"))
    for _ in range(4):
        new = util.inline_aliases(fn, _arith)
        if new is fn:
            break
        fn = new
    n = 0
    for st in walk_no_nested(fn):
        if not (isinstance(st, ast.Assign) and len(st.targets) == 1 and isinstance(st.targets[0], ast.Name) and isinstance(st.value, ast.BinOp) and isinstance(st.value.op, ast.FloorDiv)):
            continue
        signed = [("_unsigned_to_signed" in ast.unparse(o)) for o in (st.value.left, st.value.right)]
        if signed[0] == signed[1]:
            continue  # both non-negative or both negative: the quotient is non-negative and floor == truncation
        # which bound does it become?
        tgt = st.targets[0].id
        is_upper = any(isinstance(c, ast.Call) and any(k.arg == "upper_bound" and isinstance(k.value, ast.Name) and k.value.id == tgt for k in c.keywords) for c in ast.walk(fn))
        if not is_upper:
            continue  # rounding a lower bound down is conservative
        n += 1
        arm = "+ / -" if signed[1] else "- / +"
        R.bad(
            m,
            st,
            f"_wrapped_signed_div computes the upper bound of a {arm} quotient as `{norm(st.value)[:110]}`: // rounds towards minus "
            f"infinity, signed division towards zero, so the largest quotient is cut off whenever the division is not exact "
            f"(-7 / 3 is -2, -7 // 3 is -3)",
            construct=f"_wrapped_signed_div: upper bound of the {arm} quotient by floor division",
        )
    if n == 0:
        R.ok(m, fn, "_wrapped_signed_div: no upper bound by floor division of operands of different signs")
    R.ok(m, fn, "_wrapped_signed_div analysed")


@rule(
    "C21.shiftshape",
    props=("C21", "C24"),
    floor=4,
    family="GRD",
    desc="three shape clauses of the shift transfer functions: the range of a shift amount is read off its two bounds "
    "only where the amount does not wrap; bounds shifted left as unbounded integers are handed to an interval only under "
    "a fact that their span is below 2**w (else the reduced pair is the wrong arc); the sign fill of an arithmetic right "
    "shift is applied to a bound under the sign test of that same bound",
)
def c21_shiftshape(R):
    tree = R.tree
    m = tree.mod(SI)
    # (1) _get_shift_range
    fn = util.resolve_locals(tree.func_inlined(SI, "StridedInterval._get_shift_range"))
    ps = [a.arg for a in fn.args.args]
    R.need(len(ps) == 2, "_get_shift_range no longer takes (self, amount)")
    amt = ps[1]
    n1 = 0
    for r in walk_no_nested(fn):
        if not (isinstance(r, ast.Return) and isinstance(r.value, ast.Tuple) and len(r.value.elts) == 2):
            continue
        lo, hi = (ast.unparse(e) for e in r.value.elts)
        if f"{amt}.lower_bound" in lo and f"{amt}.upper_bound" in hi:
            n1 += 1
            facts = _facts(r)
            ok = any(
                f in (f"{amt}.lower_bound <= {amt}.upper_bound", f"{amt}.upper_bound >= {amt}.lower_bound", f"{amt}.is_integer")
                for f in facts
            )
            R.check(
                ok,
                m,
                r,
                "shift range from the two bounds only for an amount that does not wrap",
                f"_get_shift_range returns the amount's two bounds `{norm(r.value)[:90]}` with no dominating fact that the amount "
                f"does not wrap (facts: {facts[-3:]}): a wrapping amount contains 0 and the largest value, and the shift loops "
                f"would run over an empty or too short range ([0, 1] >> [5, 3] was {{0}})",
                construct="_get_shift_range: range read off both bounds of the amount",
            )
    R.need(n1 >= 1, "_get_shift_range: no return built from both bounds of the amount")
    # (2) lshift
    fn = tree.func_inlined(SI, "StridedInterval.lshift")
    n2 = 0
    shifted = set()
    for st in walk_no_nested(fn):
        if isinstance(st, ast.Assign) and len(st.targets) == 1 and isinstance(st.targets[0], ast.Name) and any(isinstance(x, ast.BinOp) and isinstance(x.op, ast.LShift) for x in ast.walk(st.value)):
            shifted.add(st.targets[0].id)
    # names that take their value from a shifted one (new_lower_bound = lower_shifted)
    for _ in range(3):
        for st in walk_no_nested(fn):
            if isinstance(st, ast.Assign) and len(st.targets) == 1 and isinstance(st.targets[0], ast.Name) and isinstance(st.value, ast.Name) and st.value.id in shifted:
                shifted.add(st.targets[0].id)
    for c in (x for x in walk_no_nested(fn) if isinstance(x, ast.Call) and (dotted(x.func) or "").split(".")[-1] == "StridedInterval"):
        kws = {k.arg: k.value for k in c.keywords if k.arg}
        lo, hi = kws.get("lower_bound"), kws.get("upper_bound")
        if lo is None or hi is None:
            continue

        def from_shift(e):
            return any((isinstance(x, ast.Name) and x.id in shifted) or (isinstance(x, ast.BinOp) and isinstance(x.op, ast.LShift)) for x in ast.walk(e))

        if not (from_shift(lo) and from_shift(hi)):
            continue
        n2 += 1
        facts = _facts(c)
        lt, ht = ast.unparse(lo), ast.unparse(hi)
        ok = any(re.fullmatch(rf"{re.escape(ht)} - {re.escape(lt)} <=? .*(2 \*\* \w+\.bits|1 << \w+\.bits|max_int\(\w+\.bits\)).*", f) for f in facts)
        R.check(
            ok,
            m,
            c,
            "left-shifted bounds become an interval only where their span is below 2**w",
            f"lshift builds an interval from the shifted bounds `{lt}` and `{ht}` with no dominating fact that their span is "
            f"below 2**w (facts: {facts[-2:]}): once the shifted values go round the circle the pair reduced modulo 2**w is an "
            f"arc that misses most of them ([0, 1] << [0, 3] at 3 bits was {{0}})",
            construct="lshift: interval built from left-shifted bounds",
        )
    R.need(n2 >= 1, "lshift: no interval built from shifted bounds")
    # (3) _rshift_arithmetic
    fn = tree.func_inlined(SI, "StridedInterval._rshift_arithmetic", exclude=("_rshift_stride",))
    derived = {}
    for st in walk_no_nested(fn):
        if isinstance(st, ast.Assign) and len(st.targets) == 1 and isinstance(st.targets[0], ast.Name) and isinstance(st.value, ast.BinOp) and isinstance(st.value.op, ast.RShift):
            src = ast.unparse(st.value.left)
            if src.endswith(("lower_bound", "upper_bound")):
                derived[st.targets[0].id] = src
    n3 = 0
    for st in walk_no_nested(fn):
        if not (isinstance(st, (ast.Assign, ast.AugAssign))):
            continue
        tgt = st.targets[0] if isinstance(st, ast.Assign) else st.target
        if not (isinstance(tgt, ast.Name) and tgt.id in derived):
            continue
        val = st.value
        is_fill = (isinstance(st, ast.AugAssign) and isinstance(st.op, ast.BitOr)) or (isinstance(val, ast.BinOp) and isinstance(val.op, ast.BitOr) and any(isinstance(x, ast.Name) and x.id == tgt.id for x in ast.walk(val)))
        if not is_fill:
            continue
        n3 += 1
        own = derived[tgt.id]
        other = [v for k, v in derived.items() if v != own]
        facts = _facts(st)
        # a fact that tests this bound (and the decision does not hinge on the other bound alone)
        ok = any(own in f for f in facts)
        R.check(
            ok,
            m,
            st,
            f"sign fill of `{tgt.id}` under the sign test of {own}",
            f"_rshift_arithmetic fills the vacated bits of `{tgt.id}` (from {own}) under {facts[-2:]}, none of which tests "
            f"{own}{' (they test ' + other[0] + ')' if other and any(other[0] in f for f in facts) else ''}: a piece may run from the "
            f"negative half past zero into the positive one, and each bound has its own sign ([4, 0] >>a 3 was {{7}})",
            construct=f"_rshift_arithmetic: sign fill of the {'lower' if 'lower' in own else 'upper'} bound",
        )
    R.need(n3 >= 2, f"_rshift_arithmetic: only {n3} sign fills found")


@rule(
    "C22.signedq",
    props=("C22", "C24"),
    floor=3,
    family="SIB",
    desc="signed queries: every bound _signed_bounds hands out went through the unsigned-to-signed conversion (both "
    "north-pole pieces alike: the first one may start in the negative half), and every value eval() lists depends on "
    "the requested signedness, the single-value shortcut included",
)
def c22_signedq(R):
    tree = R.tree
    m = tree.mod(SI)
    fn = util.resolve_locals(tree.func_inlined(SI, "StridedInterval._signed_bounds", exclude=("_unsigned_to_signed", "_nsplit")))
    n = 0
    for r in walk_no_nested(fn):
        if not (isinstance(r, ast.Return) and r.value is not None):
            continue
        tuples = [t for t in ast.walk(r.value) if isinstance(t, ast.Tuple) and len(t.elts) == 2 and not any(isinstance(e, ast.Tuple) for e in t.elts)]
        for i, t in enumerate(tuples):
            for j, e in enumerate(t.elts):
                if isinstance(e, ast.Name):
                    continue  # comprehension variable: judged where it is bound
                n += 1
                R.check(
                    "_unsigned_to_signed(" in ast.unparse(e),
                    m,
                    r,
                    "signed bound converted",
                    f"_signed_bounds hands out `{norm(e)[:70]}` as the {'lower' if j == 0 else 'upper'} bound of piece {i + 1} without "
                    f"converting it to a signed number: the first north-pole piece of an interval that wraps past zero starts in "
                    f"the negative half (<3>7[5, 4] = {{-3, -4}} had signed maximum 5)",
                    construct=f"_signed_bounds: {'lower' if j == 0 else 'upper'} bound of piece {i + 1 if len(tuples) > 1 else 'the single'}",
                )
    R.need(n >= 2, f"_signed_bounds: only {n} bounds found")  # 4 written out per piece, 2 in a comprehension over the pieces
    ev = tree.func_inlined(SI, "StridedInterval.eval")
    ps = [a.arg for a in ev.args.args]
    sp = ps[2] if len(ps) > 2 else "signed"
    k = 0
    for c in (x for x in walk_no_nested(ev) if isinstance(x, ast.Call) and isinstance(x.func, ast.Attribute) and x.func.attr == "append" and len(x.args) == 1):
        k += 1
        arg = c.args[0]
        facts = _facts(c)
        dep = any(isinstance(x, ast.Name) and x.id == sp for x in ast.walk(arg)) or any(re.search(rf"\b{sp}\b", f) for f in facts)
        if not dep and isinstance(arg, ast.Name):
            # a loop variable unpacked from bounds chosen by `signed`
            for lp in (x for x in ast.walk(ev) if isinstance(x, ast.For)):
                if any(isinstance(x, ast.Name) and x.id == arg.id for x in ast.walk(lp.target)):
                    src = ast.unparse(lp.iter)
                    defs = [ast.unparse(st.value) for st in walk_no_nested(ev) if isinstance(st, ast.Assign) and len(st.targets) == 1 and ast.unparse(st.targets[0]) == src]
                    dep = any(re.search(rf"\b{sp}\b", d) for d in [src, *defs])
        R.check(
            dep,
            m,
            c,
            "listed value depends on the requested signedness",
            f"eval() lists `{norm(arg)[:60]}`, which does not depend on `{sp}`: eval(n, signed=True) of the single value 4 at 3 "
            f"bits gave [4], not [-4]",
            construct=f"eval: value listed as {norm(arg)[:40]}",
        )
    R.need(k >= 2, f"eval: only {k} listed values found")


_WIDEN_EXEMPT = {
    "agnostic_extend": "documented signedness-agnostic approximation for operands of different widths (not one of the "
    "operations of the property; well-typed expressions never reach it)",
    "__init__": "construction",
}


@rule(
    "C21.widenbits",
    props=("C21", "C24"),
    floor=3,
    family="GRD",
    desc="the width of an existing interval object is overwritten (`x._bits = n`) only where the object cannot wrap past "
    "zero - it is a south-pole piece, a single value, or a no-wrap fact dominates: on a larger circle a wrapping pair of "
    "bounds keeps neither its members nor, with a stride that does not divide 2**w, its lattice (zero / sign extension, "
    "concatenation)",
)
def c21_widenbits(R):
    tree = R.tree
    m = tree.mod(SI)
    n = 0
    methods = util.methods_of(tree.cls(SI, "StridedInterval"))
    inlined = {}

    def body(name):
        if name not in inlined:
            inlined[name] = tree.func_inlined(SI, f"StridedInterval.{name}")
        return inlined[name]

    def pieces_of(fn):
        return {
            st.target.id
            for st in ast.walk(fn)
            if isinstance(st, (ast.For, ast.comprehension)) and isinstance(st.target, ast.Name) and re.search(r"\._(s|p)split\(\)$", ast.unparse(st.iter))
        }

    def cannot_wrap(srcs, pieces, facts):
        return bool(srcs & pieces) or any(
            f in (f"{s_}.lower_bound <= {s_}.upper_bound", f"{s_}.upper_bound >= {s_}.lower_bound", f"{s_}.is_integer", f"not {s_}.is_interval") for s_ in srcs for f in facts
        )

    for name, raw in methods.items():
        if "_bits" not in ast.unparse(raw):
            continue
        fn = body(name)
        defs = {}
        for st in ast.walk(fn):
            if isinstance(st, ast.Assign) and len(st.targets) == 1 and isinstance(st.targets[0], ast.Name):
                defs.setdefault(st.targets[0].id, []).append(st.value)
        pieces = pieces_of(fn)
        for st in walk_no_nested(fn):
            tgt = st.targets[0] if isinstance(st, ast.Assign) and len(st.targets) == 1 else (st.target if isinstance(st, ast.AugAssign) else None)
            if not (isinstance(tgt, ast.Attribute) and tgt.attr == "_bits" and isinstance(tgt.value, ast.Name)):
                continue
            n += 1
            if name in _WIDEN_EXEMPT:
                R.ok(m, st, f"{name}: {_WIDEN_EXEMPT[name]}")
                continue
            x = tgt.value.id
            srcs = {x}
            for v in defs.get(x, []):
                # x = y.copy() / y.nameless_copy() / y
                while isinstance(v, ast.Call) and isinstance(v.func, ast.Attribute) and v.func.attr in ("copy", "nameless_copy") and not v.args:
                    v = v.func.value
                if dotted(v):
                    srcs.add(dotted(v))
            facts = _facts(st)
            ok = cannot_wrap(srcs, pieces, facts)
            selfname = fn.args.args[0].arg if fn.args.args else "self"
            if not ok and selfname in srcs and name.startswith("_") and not name.startswith("__"):
                # a private helper that re-widths (a copy of) its receiver: the obligation is its callers', at every call
                calls = []
                for cname in methods:
                    cfn = body(cname)
                    cp = None
                    for c in ast.walk(cfn):
                        if isinstance(c, ast.Call) and isinstance(c.func, ast.Attribute) and c.func.attr == name and cname != name:
                            cp = pieces_of(cfn) if cp is None else cp
                            recv = dotted(c.func.value)
                            calls.append((cname, c, recv is not None and cannot_wrap({recv}, cp, _facts(c))))
                for cname, c, good in calls:
                    R.check(
                        good,
                        m,
                        c,
                        f"{cname}: width overwritten (through {name}) on an object that cannot wrap",
                        f"StridedInterval.{cname} overwrites the width of `{norm(c.func.value)[:40]}` through {name}() with no dominating "
                        f"fact that it does not wrap past zero and without it being a south-pole piece: <3>7[1, 0] is {{1, 0}}, the same "
                        f"bounds at 5 bits are {{1, 8, 15, 22, 29}}",
                        construct=f"{cname}: width of an interval object overwritten",
                    )
                if not calls:
                    R.ok(m, st, f"{name}: private helper without callers")
                continue
            R.check(
                ok,
                m,
                st,
                f"{name}: width overwritten on an object that cannot wrap",
                f"StridedInterval.{name} overwrites the width of `{x}` (from {sorted(srcs - {x}) or [x]}) with no dominating fact that "
                f"it does not wrap past zero and without it being a south-pole piece (facts: {facts[-2:]}): <3>7[1, 0] is "
                f"{{1, 0}}, the same bounds at 5 bits are {{1, 8, 15, 22, 29}}",
                construct=f"{name}: width of an interval object overwritten",
            )
    R.need(n >= 3, f"only {n} width overwrites found")
