"""Two shape clauses of strided-interval soundness that are visible without arithmetic (C21).

C21.pointwise  An interval whose bounds are formed *pointwise* from two intervals' bounds - (a.lb + b.lb, a.ub + b.ub)
               or (a.lb - b.ub, a.ub - b.lb) - contains every x + y (x - y) only if the two spans together do not go
               round the circle: otherwise the sum of the upper bounds has overtaken the sum of the lower bounds and the
               arc [lb, ub] is the wrong one.  Such a construction must be dominated by a fact that rules this out: the
               negative answer of the overflow test, or one operand being a single value.  (add, sub and the
               constant-high-part shortcut of concat are the instances on the tree.)

C21.topstride  `top()` denotes every value.  Keeping that bound pair and overwriting the stride with s claims "every
               value congruent to lb modulo s"; walking s-steps round the circle comes back onto that lattice only if
               s divides 2**w.  The only strides for which this is known without looking at w are powers of two.
"""

from __future__ import annotations

import ast
import re

from .. import guards, util
from ..core import dotted, norm, walk_no_nested
from ..report import rule
from .joinstride import SI, _NotLinear, linear

_B = {"lower_bound": "lb", "_lower_bound": "lb", "upper_bound": "ub", "_upper_bound": "ub"}


def _canon(text):
    return re.sub(r"\._(lower_bound|upper_bound)$", r".\1", text)


def _form(e):
    try:
        return linear(e, _canon, {})
    except _NotLinear:
        return None


def _pointwise(lo, hi):
    """('add' | 'sub', base1, base2) when (lo, hi) are the pointwise sum / difference of two intervals' bounds"""
    fl, fh = _form(lo), _form(hi)
    if not fl or not fh or len(fl) != 2 or len(fh) != 2:
        return None

    def parts(f):
        out = {}
        for atom, c in f.items():
            if not isinstance(atom, str) or "." not in atom:
                return None
            base, attr = atom.rsplit(".", 1)
            if attr not in _B:
                return None
            out[(base, _B[attr])] = c
        return out

    pl, ph = parts(fl), parts(fh)
    if not pl or not ph:
        return None
    bases = sorted({b for b, _ in pl} | {b for b, _ in ph})
    if len(bases) != 2:
        return None
    a, b = bases
    for x, y in ((a, b), (b, a)):
        if pl == {(x, "lb"): 1, (y, "lb"): 1} and ph == {(x, "ub"): 1, (y, "ub"): 1}:
            return ("add", x, y)
        if pl == {(x, "lb"): 1, (y, "ub"): -1} and ph == {(x, "ub"): 1, (y, "lb"): -1}:
            return ("sub", x, y)
    return None


def _arith(v):
    if isinstance(v, ast.Call):
        return (dotted(v.func) or "").split(".")[-1].startswith("_")
    return isinstance(v, (ast.BinOp, ast.UnaryOp, ast.Attribute, ast.Name, ast.Constant, ast.IfExp, ast.BoolOp, ast.Compare, ast.Tuple, ast.Subscript))


def _bound_pairs(fn):
    """(statement, lower expr, upper expr) for every interval built or rewritten with both bounds in one place"""
    for c in (x for x in walk_no_nested(fn) if isinstance(x, ast.Call) and (dotted(x.func) or "").split(".")[-1] == "StridedInterval"):
        kws = {k.arg: k.value for k in c.keywords if k.arg}
        for k in c.keywords:
            if k.arg is None and isinstance(k.value, ast.Dict):
                kws.update({kk.value: vv for kk, vv in zip(k.value.keys, k.value.values) if isinstance(kk, ast.Constant)})
        if "lower_bound" in kws and "upper_bound" in kws:
            yield c, kws["lower_bound"], kws["upper_bound"]
    writes = {}
    for st in walk_no_nested(fn):
        if isinstance(st, ast.Assign) and len(st.targets) == 1 and isinstance(st.targets[0], ast.Attribute) and st.targets[0].attr in _B:
            key = (ast.unparse(st.targets[0].value), id(getattr(st, "_parent", None)))
            writes.setdefault(key, {})[_B[st.targets[0].attr]] = st
    for d in writes.values():
        if "lb" in d and "ub" in d:
            yield d["lb"], d["lb"].value, d["ub"].value


@rule(
    "C21.pointwise",
    props=("C21", "C24"),
    floor=3,
    family="GRD",
    desc="an interval whose bounds are the pointwise sum (difference) of two intervals' bounds is built only under a "
    "fact that the spans together do not go round the circle: the overflow test answered no, or one operand is a single "
    "value (add, sub, the constant-high-part shortcut of concat)",
)
def c21_pointwise(R):
    tree = R.tree
    m = tree.mod(SI)
    cls = tree.cls(SI, "StridedInterval")
    n = 0
    for name, raw in util.methods_of(cls).items():
        src = ast.unparse(raw)
        if "lower_bound" not in src or "upper_bound" not in src:
            continue
        fn = tree.func_inlined(SI, f"StridedInterval.{name}", exclude=("_modular_sub", "_modular_add", "_wrapped_overflow_add", "_wrapped_overflow_sub"))
        for _ in range(4):  # locals that stand for arithmetic or for a private predicate; objects keep their names
            new = util.inline_aliases(fn, _arith)
            if new is fn:
                break
            fn = new
        for st, lo, hi in _bound_pairs(fn):
            pw = _pointwise(lo, hi)
            if pw is None:
                continue
            n += 1
            kind, x, y = pw
            facts = [re.sub(r"^not \((.*)\)$", r"not \1", re.sub(r"\s+", " ", f)) for f in guards.holds(st)]
            ok = any(f.startswith("not") and "overflow" in f for f in facts) or any(f in (f"{x}.is_integer", f"{y}.is_integer", f"not {x}.is_interval", f"not {y}.is_interval") for f in facts)
            R.check(
                ok,
                m,
                st,
                f"{name}: pointwise {kind} of bounds only without overflow",
                f"StridedInterval.{name} forms the bounds ({norm(lo)[:60]}, {norm(hi)[:60]}) pointwise from {x} and {y} "
                f"with no dominating fact that their spans together stay within the circle (facts: {facts[-3:]}): once "
                f"they do not, the arc from the new lower to the new upper bound misses results",
                construct=f"{name}: pointwise {kind} of the bounds of two intervals",
            )
    R.need(n >= 3, f"only {n} pointwise constructions found (add, sub, concat expected)")


def _pow2(e):
    if isinstance(e, ast.Constant) and isinstance(e.value, int) and e.value >= 1 and e.value & (e.value - 1) == 0:
        return True
    if isinstance(e, ast.BinOp) and isinstance(e.op, ast.Pow) and isinstance(e.left, ast.Constant) and e.left.value == 2:
        return True
    return isinstance(e, ast.BinOp) and isinstance(e.op, ast.LShift) and isinstance(e.left, ast.Constant) and e.left.value == 1


@rule(
    "C21.topstride",
    props=("C21", "C24"),
    floor=1,
    family="GRD",
    desc="an interval taken from top() keeps denoting a full turn of the circle: a stride written into it afterwards is "
    "a power of two (only those are known to divide 2**w)",
)
def c21_topstride(R):
    tree = R.tree
    m = tree.mod(SI)
    cls = tree.cls(SI, "StridedInterval")
    n = 0
    for name, raw in util.methods_of(cls).items():
        if "top(" not in ast.unparse(raw) or "stride" not in ast.unparse(raw):
            continue
        fn = tree.func_inlined(SI, f"StridedInterval.{name}")
        tops = set()
        for st in walk_no_nested(fn):
            if isinstance(st, ast.Assign) and len(st.targets) == 1 and isinstance(st.targets[0], ast.Name) and isinstance(st.value, ast.Call) and (dotted(st.value.func) or "").split(".")[-1] == "top":
                tops.add(st.targets[0].id)
        if not tops:
            continue
        rfn = util.resolve_locals(fn)
        # resolve_locals keeps multiply-assigned names; the top() locals are assigned once and may have been inlined:
        # look at the unresolved function for the writes, at the resolved one for the values
        vals = {}
        for st in walk_no_nested(rfn):
            if isinstance(st, ast.Assign) and len(st.targets) == 1 and isinstance(st.targets[0], ast.Attribute) and st.targets[0].attr in ("_stride", "stride"):
                vals[getattr(st, "lineno", 0)] = st.value
        for st in walk_no_nested(fn):
            if not (isinstance(st, ast.Assign) and len(st.targets) == 1 and isinstance(st.targets[0], ast.Attribute) and st.targets[0].attr in ("_stride", "stride")):
                continue
            recv = st.targets[0].value
            if not (isinstance(recv, ast.Name) and recv.id in tops):
                continue
            n += 1
            v = vals.get(getattr(st, "lineno", 0), st.value)
            R.check(
                _pow2(v),
                m,
                st,
                f"{name}: stride written into a top() interval is a power of two",
                f"StridedInterval.{name} overwrites the stride of the full interval `{recv.id}` with `{norm(v)[:80]}`, which "
                f"is not a power of two by construction: stepping round the circle leaves the lattice unless the stride "
                f"divides 2**w (<2>3[0,3] + <2>3[0,3] would lose 2)",
                construct=f"{name}: stride of a top() interval overwritten",
            )
    R.need(n >= 1, "no stride write into a top() interval found (cast_low expected)")


@rule(
    "C21.signand",
    props=("C21", "C24"),
    floor=2,
    family="GRD",
    desc="the sign-bit shortcut of bitwise_and claims a single value (0 or the sign bit) only under a fact that puts every "
    "member of the other operand on one side of the sign bit: an order test of one of its bounds against the sign bit "
    "together with a no-wrap fact, or a bit test of a single value - never membership of the sign bit itself",
)
def c21_signand(R):
    tree = R.tree
    m = tree.mod(SI)
    fn = tree.func_inlined(SI, "StridedInterval.bitwise_and")
    for _ in range(4):
        new = util.inline_aliases(fn, _arith)
        if new is fn:
            break
        fn = new
    # the shortcut: constructions dominated by a fact that one operand is exactly the sign bit (1 << (bits - 1))
    n = 0
    for c in (x for x in walk_no_nested(fn) if isinstance(x, ast.Call) and (dotted(x.func) or "").split(".")[-1] == "StridedInterval"):
        kws = {k.arg: k.value for k in c.keywords if k.arg}
        facts = [re.sub(r"^not \((.*)\)$", r"not \1", re.sub(r"\s+", " ", f)) for f in guards.holds(c)]
        sign = [f for f in facts if re.search(r"== ?\(?1 << ", f) or re.search(r"1 << .* ==", f)]
        if not sign or not (isinstance(kws.get("stride"), ast.Constant) and kws["stride"].value == 0):
            continue
        n += 1
        # the operand whose bound is ordered against the sign bit (not compared with its own other bound)
        bases = set()
        for f in facts:
            for mm in re.finditer(r"(\w+)\.(_?lower_bound|_?upper_bound) (<|<=|>|>=) (.+)$|^(.+) (<|<=|>|>=) (\w+)\.(_?lower_bound|_?upper_bound)$", f):
                base = mm.group(1) or mm.group(7)
                other = mm.group(4) or mm.group(5) or ""
                if base and f"{base}." not in other:
                    bases.add(base)
        ok = any(
            any(re.fullmatch(rf"{x}\.lower_bound <= {x}\.upper_bound|{x}\.upper_bound >= {x}\.lower_bound|{x}\.is_integer", f) for f in facts) for x in bases
        )
        # or: a single value whose sign bit is tested directly
        for v in (kws.get("lower_bound"), kws.get("upper_bound")):
            for x in ast.walk(v) if v is not None else ():
                if isinstance(x, ast.BinOp) and isinstance(x.op, ast.BitAnd):
                    for side in (x.left, x.right):
                        t = ast.unparse(side)
                        if t.endswith(("lower_bound", "upper_bound")) and f"{t.rsplit('.', 1)[0]}.is_integer" in facts:
                            ok = True
        R.check(
            ok,
            m,
            c,
            "single-value answer of the sign-bit AND only with every member on one side of the sign bit",
            f"bitwise_and answers the single value `{norm(kws.get('lower_bound'))[:40]}` for x & sign-bit under "
            f"{[f for f in facts if f not in sign][-3:]}: none of these puts all members of the other operand on one side of "
            f"the sign bit (3 & 2 at 2 bits is 2, [9, 12] & 8 at 4 bits is {{8}})",
            construct=f"bitwise_and: sign-bit shortcut answers the single value {norm(kws.get('lower_bound'))[:30]}",
        )
    R.need(n >= 2, f"bitwise_and: only {n} single-value answers found in the sign-bit shortcut")
