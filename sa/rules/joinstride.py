"""C21.joinstride - the stride clause of the interval join, decided by a divisibility abstract interpretation.

StridedInterval.pseudo_join(s, b) must return an interval that contains every member of both operands (C21: transfer
functions over-approximate; C24: the join of an undetermined If is built with it).  Membership in <w>stride[lb, ub] is
"lb + k*stride, not past ub".  For the result R to contain operand X it is *necessary* that

   R.stride divides X.stride                          (unless X denotes a single value), and
   R.stride divides (X.lower_bound - R.lower_bound) mod 2**w.

Both are divisibility facts about the expression given as `stride=` of the constructed result, and that expression is
built from a handful of constructors only (gcd, the operands' strides, modular differences of bounds).  The analysis
enumerates the paths of the (loop-free) function symbolically - locals substituted, conditional expressions split into
paths, branch conditions kept as facts - and computes for every constructed result the set DIV(E) of quantities its
stride expression E provably divides:

   DIV(X.stride) = {X.stride}      DIV(gcd(a, b)) = DIV(a) + DIV(b)       DIV(1) = everything
   DIV(e)        = {linear form of e mod 2**w}  for e built from +, -, % 2**w, & (2**w - 1), _modular_sub/_add and
                   `_wrapped_cardinality(x, y, w) - 1` (== y - x mod 2**w); abs(u - l) only where u >= l is known
   DIV(anything else) = {}

What is decided: the stride clause above, for all inputs, on every path.  What is not: that the chosen bounds cover
both operands (that is arithmetic over wrapped orders and stays with the numeric clauses declared not decidable).
"""

from __future__ import annotations

import ast
import itertools

from .. import util
from ..core import AnalysisError, dotted, norm, positional_params
from ..report import rule

SI = "claripy/backends/backend_vsa/strided_interval.py"

EVERYTHING = "<everything>"


# ----------------------------------------------------------------------------- symbolic paths of a loop-free function


class _Opaque(ast.AST):
    _fields = ()


def _subst(expr, env):
    class S(ast.NodeTransformer):
        def visit_Name(self, n):
            if isinstance(n.ctx, ast.Load) and n.id in env:
                return util.clone(env[n.id])
            return n

        def visit_Lambda(self, n):
            return n

    return S().visit(util.clone(expr))


def _first_ifexp(expr):
    for n in ast.walk(expr):
        if isinstance(n, ast.IfExp):
            return n
    return None


def _split_ifexp(expr, facts):
    """[(facts, expr without conditional expressions)]: one entry per combination of arms."""
    if _first_ifexp(expr) is None:
        return [(facts, expr)]
    out = []
    for pol in (True, False):
        e2 = util.clone(expr)
        target = _first_ifexp(e2)
        arm = target.body if pol else target.orelse
        cond = target.test
        if any((t, not p) in facts for t, p in _facts_of(cond, pol)):
            continue  # this arm contradicts what the path already knows
        if target is e2:
            new = arm
        else:

            class Rp(ast.NodeTransformer):
                def visit_IfExp(self, n, target=target, arm=arm):
                    if n is target:
                        return arm
                    return self.generic_visit(n)

            new = Rp().visit(e2)
        out += _split_ifexp(new, facts + _facts_of(cond, pol))
    return out


def _facts_of(test, pol):
    """a branch condition as a list of (expression text, polarity) facts; conjunctions split when taken, disjunctions
    when not taken"""
    if isinstance(test, ast.UnaryOp) and isinstance(test.op, ast.Not):
        return _facts_of(test.operand, not pol)
    if isinstance(test, ast.BoolOp):
        if (isinstance(test.op, ast.And) and pol) or (isinstance(test.op, ast.Or) and not pol):
            return [f for v in test.values for f in _facts_of(v, pol)]
        return [(norm(test), pol)]
    if isinstance(test, ast.Compare) and len(test.ops) == 1 and isinstance(test.ops[0], (ast.NotEq, ast.IsNot)):
        eq = ast.Compare(left=test.left, ops=[ast.Eq() if isinstance(test.ops[0], ast.NotEq) else ast.Is()], comparators=test.comparators)
        return [(norm(eq), not pol)]
    return [(norm(test), pol)]


def paths(fn, limit=4000):
    """Every path of a loop-free function body: (facts, returned expression with locals substituted and conditional
    expressions split).  Statements that cannot be interpreted make the names they bind opaque."""
    results = []
    count = [0]

    def assigned_names(st):
        return {n.id for n in ast.walk(st) if isinstance(n, ast.Name) and isinstance(n.ctx, ast.Store)}

    def run(stmts, env, facts):
        """returns list of (env, facts) that fall through"""
        states = [(env, facts)]
        for st in stmts:
            nxt = []
            for env, facts in states:
                count[0] += 1
                if count[0] > limit:
                    raise AnalysisError("C21.joinstride: too many paths")
                if isinstance(st, ast.Return):
                    if st.value is not None:
                        for f2, e2 in _split_ifexp(_subst(st.value, env), facts):
                            results.append((f2, e2, st))
                    continue
                if isinstance(st, ast.Raise):
                    continue
                if isinstance(st, (ast.Assign, ast.AnnAssign)) and getattr(st, "value", None) is not None:
                    targets = st.targets if isinstance(st, ast.Assign) else [st.target]
                    if len(targets) == 1 and isinstance(targets[0], ast.Name):
                        for f2, e2 in _split_ifexp(_subst(st.value, env), facts):
                            nxt.append(({**env, targets[0].id: e2}, f2))
                        continue
                    if (
                        len(targets) == 1
                        and isinstance(targets[0], ast.Tuple)
                        and isinstance(st.value, ast.Tuple)
                        and len(targets[0].elts) == len(st.value.elts)
                        and all(isinstance(t, ast.Name) for t in targets[0].elts)
                    ):
                        vals = [_subst(v, env) for v in st.value.elts]
                        e3 = dict(env)
                        for t, v in zip(targets[0].elts, vals):
                            e3[t.id] = v
                        nxt.append((e3, facts))
                        continue
                    e3 = dict(env)
                    for nm in assigned_names(st):
                        e3[nm] = _Opaque()
                    nxt.append((e3, facts))
                    continue
                if isinstance(st, ast.If):
                    for f2, t2 in _split_ifexp(_subst(st.test, env), facts):
                        for pol, blk in ((True, st.body), (False, st.orelse)):
                            nf = _facts_of(t2, pol)
                            if any((t, not p) in f2 for t, p in nf):
                                continue  # infeasible: contradicts an earlier fact of this path
                            nxt += run(blk, env, f2 + nf)
                    continue
                if isinstance(st, ast.Assert):
                    nxt.append((env, facts + _facts_of(_subst(st.test, env), True)))
                    continue
                if isinstance(st, (ast.Expr, ast.Pass)):
                    nxt.append((env, facts))
                    continue
                if isinstance(st, (ast.For, ast.While, ast.Try, ast.With, ast.Match)):
                    raise AnalysisError(f"C21.joinstride: `{norm(st)[:60]}` - the join is no longer loop-free straight-line code")
                e3 = dict(env)
                for nm in assigned_names(st):
                    e3[nm] = _Opaque()
                nxt.append((e3, facts))
            states = nxt
        return states

    run(fn.body, {}, [])
    return results


# ----------------------------------------------------------------------------- linear forms modulo 2**w


def _is_pow2w(e):
    """2**W or 1 << W"""
    return (isinstance(e, ast.BinOp) and isinstance(e.op, ast.Pow) and isinstance(e.left, ast.Constant) and e.left.value == 2) or (
        isinstance(e, ast.BinOp) and isinstance(e.op, ast.LShift) and isinstance(e.left, ast.Constant) and e.left.value == 1
    )


def _is_mask(e):
    """2**W - 1, (1 << W) - 1, or a call to a max-int helper"""
    if isinstance(e, ast.BinOp) and isinstance(e.op, ast.Sub) and isinstance(e.right, ast.Constant) and e.right.value == 1 and _is_pow2w(e.left):
        return True
    return isinstance(e, ast.Call) and (dotted(e.func) or "").split(".")[-1] in ("max_int", "_max_int")


class _NotLinear(Exception):
    pass


def linear(e, canon, order):
    """{atom: coefficient, 1: constant} of an expression read modulo 2**w; raises _NotLinear for anything else.
    `canon(text)` canonicalises an atom (a singleton's upper bound is its lower bound); `order` is a dict
    frozenset({a, b}) -> (smaller, larger) for min/max/abs over atoms."""

    def add(a, b, k=1):
        out = dict(a)
        for t, c in b.items():
            out[t] = out.get(t, 0) + k * c
        return {t: c for t, c in out.items() if c != 0}

    def go(e):
        if isinstance(e, ast.Constant) and isinstance(e.value, int) and not isinstance(e.value, bool):
            return {1: e.value} if e.value else {}
        if isinstance(e, (ast.Name, ast.Attribute)) and dotted(e):
            return {canon(dotted(e)): 1}
        if isinstance(e, ast.UnaryOp) and isinstance(e.op, ast.USub):
            return add({}, go(e.operand), -1)
        if isinstance(e, ast.BinOp):
            if isinstance(e.op, ast.Add):
                return add(go(e.left), go(e.right))
            if isinstance(e.op, ast.Sub):
                return add(go(e.left), go(e.right), -1)
            if isinstance(e.op, ast.Mod) and _is_pow2w(e.right):
                return go(e.left)
            if isinstance(e.op, ast.BitAnd) and _is_mask(e.right):
                return go(e.left)
            if isinstance(e.op, ast.BitAnd) and _is_mask(e.left):
                return go(e.right)
        if isinstance(e, ast.Call):
            name = (dotted(e.func) or "").split(".")[-1]
            if name == "_modular_sub" and len(e.args) == 3:
                return add(go(e.args[0]), go(e.args[1]), -1)
            if name == "_modular_add" and len(e.args) == 3:
                return add(go(e.args[0]), go(e.args[1]))
            if name == "_wrapped_cardinality" and len(e.args) == 3:
                # (y - x + 1) mod 2**w, and 2**w (== 0 mod 2**w) when that is 0: equal modulo 2**w either way
                return add(add(go(e.args[1]), go(e.args[0]), -1), {1: 1})
            if name in ("min", "max") and len(e.args) == 2 and not e.keywords:
                a, b = (go(x) for x in e.args)
                if len(a) == 1 and len(b) == 1 and list(a.values()) == [1] and list(b.values()) == [1]:
                    ka, kb = next(iter(a)), next(iter(b))
                    if ka == kb:
                        return a
                    o = order.get(frozenset((ka, kb)))
                    if o is not None:
                        return {o[0] if name == "min" else o[1]: 1}
                raise _NotLinear(norm(e))
            if name == "abs" and len(e.args) == 1:
                inner = go(e.args[0])
                pos = [t for t, c in inner.items() if c == 1]
                neg = [t for t, c in inner.items() if c == -1]
                if len(inner) == 2 and len(pos) == 1 and len(neg) == 1:
                    o = order.get(frozenset((pos[0], neg[0])))
                    if o is not None and o == (neg[0], pos[0]):
                        return inner  # larger - smaller: already non-negative and below 2**w
                if not inner:
                    return {}
                raise _NotLinear(norm(e))
        raise _NotLinear(norm(e))

    return go(e)


def _orderable_pairs(e, canon):
    """pairs of atoms that min / max / abs range over inside e"""
    out = set()
    for n in ast.walk(e):
        if isinstance(n, ast.Call) and (dotted(n.func) or "") in ("min", "max") and len(n.args) == 2:
            a, b = (dotted(x) for x in n.args)
            if a and b and canon(a) != canon(b):
                out.add(frozenset((canon(a), canon(b))))
    return out


def divides(e, canon, order):
    """DIV(e): a set of ('stride', operand) / ('lin', frozenset(linear form)) items, or EVERYTHING"""
    if isinstance(e, ast.Constant) and e.value == 1:
        return EVERYTHING
    if isinstance(e, ast.Call) and (dotted(e.func) or "").split(".")[-1] == "gcd" and e.args:
        out = set()
        for a in e.args:
            d = divides(a, canon, order)
            if d == EVERYTHING:
                return EVERYTHING
            out |= d
        return out
    if isinstance(e, ast.Attribute) and e.attr in ("stride", "_stride") and isinstance(e.value, ast.Name):
        return {("stride", e.value.id)}
    try:
        lf = linear(e, canon, order)
    except _NotLinear:
        return set()
    if not _reduced(e, canon, order):
        # a plain Python difference may be negative: gcd() then divides its absolute value, which is another number
        # modulo 2**w than the distance walked upwards (d | b - a does not give d | 2**w - (b - a))
        return set()
    return {("lin", frozenset(lf.items()))}


def _reduced(e, canon, order):
    """the integer e lies in [0, 2**w) and equals its linear form modulo 2**w: explicitly reduced, an atom, a
    constant, abs() of an ordered difference (checked by linear()), or a difference known to be non-negative"""
    if isinstance(e, ast.Constant) or (isinstance(e, (ast.Name, ast.Attribute)) and dotted(e)):
        return True
    if isinstance(e, ast.BinOp):
        if isinstance(e.op, ast.Mod) and _is_pow2w(e.right):
            return True
        if isinstance(e.op, ast.BitAnd) and (_is_mask(e.right) or _is_mask(e.left)):
            return True
        if isinstance(e.op, ast.Sub):
            if isinstance(e.right, ast.Constant) and e.right.value == 1 and isinstance(e.left, ast.Call) and (dotted(e.left.func) or "").split(".")[-1] == "_wrapped_cardinality":
                return True  # cardinality is in [1, 2**w]
            a, b = dotted(e.left), dotted(e.right)
            if a and b:
                o = order.get(frozenset((canon(a), canon(b))))
                return canon(a) == canon(b) or (o is not None and o == (canon(b), canon(a)))
        return False
    if isinstance(e, ast.Call):
        name = (dotted(e.func) or "").split(".")[-1]
        return name in ("_modular_sub", "_modular_add", "abs")
    return False


# ----------------------------------------------------------------------------- the rule


def _kw(call, name, pos=None):
    for k in call.keywords:
        if k.arg == name:
            return k.value
        if k.arg is None:  # **{...} / **dict(...): the paths interpreter has already substituted the local
            v = k.value
            if isinstance(v, ast.Dict):
                for kk, vv in zip(v.keys, v.values):
                    if isinstance(kk, ast.Constant) and kk.value == name:
                        return vv
            if isinstance(v, ast.Call) and dotted(v.func) == "dict":
                for k2 in v.keywords:
                    if k2.arg == name:
                        return k2.value
    if pos is not None and len(call.args) > pos:
        return call.args[pos]
    return None


def _helper_ok(R, tree, m):
    """the two arithmetic helpers the analysis gives a meaning to still have that meaning"""
    cls = tree.cls(SI, "StridedInterval")
    ms = util.methods_of(cls)
    ident = lambda t: t  # noqa: E731
    for name, want in (("_modular_sub", lambda p: {p[0]: 1, p[1]: -1}), ("_modular_add", lambda p: {p[0]: 1, p[1]: 1})):
        f = ms.get(name)
        R.need(f is not None, f"StridedInterval.{name} not found")
        f = util.resolve_locals(f)
        p = positional_params(f)
        rets = [n for n in ast.walk(f) if isinstance(n, ast.Return) and n.value is not None]
        ok = False
        if len(rets) == 1:
            v = rets[0].value
            modular = isinstance(v, ast.BinOp) and ((isinstance(v.op, ast.Mod) and _is_pow2w(v.right)) or (isinstance(v.op, ast.BitAnd) and (_is_mask(v.right) or _is_mask(v.left))))
            try:
                ok = modular and linear(v, ident, {}) == want(p)
            except _NotLinear:
                ok = False
        R.check(ok, m, f, f"{name}(a, b, w) is a {'-' if name.endswith('sub') else '+'} b modulo 2**w",
                f"{name} no longer returns its operands' modular {'difference' if name.endswith('sub') else 'sum'}: every stride and bound computed with it is off",
                construct=f"{name}: modular meaning")
    f = ms.get("_wrapped_cardinality")
    R.need(f is not None, "StridedInterval._wrapped_cardinality not found")
    f = util.resolve_locals(f)
    p = positional_params(f)
    rets = [n for n in ast.walk(f) if isinstance(n, ast.Return) and n.value is not None]
    ok = bool(rets)
    for r in rets:
        v = r.value
        try:
            lf = linear(v, ident, {})
        except _NotLinear:
            lf = None
        if lf == {p[1]: 1, p[0]: -1, 1: 1} and isinstance(v, ast.BinOp) and isinstance(v.op, (ast.Mod, ast.BitAnd)):
            continue
        if _is_pow2w(v):
            # the full circle: allowed only where y - x + 1 is 0 modulo 2**w
            from .. import guards

            fs = [(t, pol) for t, pol in guards.guards_of(r) if pol and isinstance(t, ast.Compare) and len(t.ops) == 1 and isinstance(t.ops[0], ast.Eq)]
            good = False
            for t, _pol in fs:
                try:
                    d = linear(ast.BinOp(left=t.left, op=ast.Sub(), right=t.comparators[0]), ident, {})
                except _NotLinear:
                    continue
                if d in ({p[0]: 1, p[1]: -1, 1: -1}, {p[0]: -1, p[1]: 1, 1: 1}):
                    good = True
            if good:
                continue
        ok = False
    R.check(ok, m, f, "_wrapped_cardinality(x, y, w) is y - x + 1 modulo 2**w (2**w for the full circle)",
            "_wrapped_cardinality no longer counts the values from x up to y modulo 2**w: strides derived from it are off",
            construct="_wrapped_cardinality: modular meaning")


@rule(
    "C21.joinstride",
    props=("C21", "C24", "C22"),
    floor=40,
    family="FIN",
    desc="stride clause of the interval join, for all inputs: on every path of pseudo_join the stride of the constructed "
    "result provably divides the stride of each operand that is not a single value and the modular offset from the "
    "result's lower bound to each operand's lower bound (divisibility abstract interpretation over gcd / modular "
    "differences); an operand is returned as it is only where the other one is empty",
)
def c21_joinstride(R):
    tree = R.tree
    m = tree.mod(SI)
    _helper_ok(R, tree, m)
    fn = tree.func_inlined(SI, "StridedInterval.pseudo_join", exclude=("_modular_sub", "_modular_add", "_wrapped_cardinality", "_is_surrounded", "_surrounds_member"))
    ps = positional_params(fn)
    R.need(len(ps) >= 2, "pseudo_join no longer takes two operands")
    s, b = ps[0], ps[1]
    ops = (s, b)
    n_results = 0
    for facts, ret, st in paths(fn):
        fset = {(t, pol) for t, pol in facts}

        def singleton(x):
            return (f"{x}.is_integer", True) in fset or (f"{x}.is_interval", False) in fset or (f"{x}.lower_bound == {x}.upper_bound", True) in fset or (f"{x}.upper_bound == {x}.lower_bound", True) in fset or (f"{x}.stride == 0", True) in fset

        def empty(x):
            return (f"{x}.is_empty", True) in fset

        def canon(text):
            for x in ops:
                if singleton(x) and text in (f"{x}.upper_bound", f"{x}._upper_bound", f"{x}._lower_bound"):
                    return f"{x}.lower_bound"
            for x in ops:
                if text == f"{x}._lower_bound":
                    return f"{x}.lower_bound"
                if text == f"{x}._upper_bound":
                    return f"{x}.upper_bound"
            return text

        # an operand handed back unchanged
        if isinstance(ret, ast.Name) and ret.id in ops:
            other = b if ret.id == s else s
            R.check(
                empty(other),
                m,
                st,
                f"`return {ret.id}` only where {other} is empty",
                f"pseudo_join returns its operand `{ret.id}` on a path where the other operand is not known to be "
                f"empty (facts: {sorted(t for t, p in fset if p)[:6]}): the other operand's values are dropped from the join",
                construct=f"pseudo_join: return {'first' if ret.id == s else 'second'} operand unchanged",
            )
            continue
        if not (isinstance(ret, ast.Call) and (dotted(ret.func) or "").split(".")[-1] == "StridedInterval"):
            continue  # top(), copies, anything that is not a freshly built interval: no stride obligation here
        E = _kw(ret, "stride")
        L = _kw(ret, "lower_bound")
        if E is None or L is None:
            continue
        n_results += 1
        pairs = _orderable_pairs(ret, canon)
        R.need(len(pairs) <= 3, "pseudo_join: too many min/max pairs to order")
        pairs = sorted(pairs, key=sorted)
        for choice in itertools.product((0, 1), repeat=len(pairs)):
            order = {}
            for pr, c in zip(pairs, choice):
                a, bb = sorted(pr)
                order[pr] = (a, bb) if c == 0 else (bb, a)
            div = divides(E, canon, order)
            try:
                lL = linear(L, canon, order)
            except _NotLinear:
                lL = None
            label = "" if not pairs else " when " + " and ".join(f"{o[0]} <= {o[1]}" for o in order.values())
            for x in ops:
                if empty(x):
                    continue
                # (a) stride
                if not singleton(x):
                    ok = div == EVERYTHING or ("stride", x) in div
                    R.check(
                        ok,
                        m,
                        st,
                        f"result stride divides {x}.stride",
                        f"pseudo_join builds a result with stride `{norm(E)[:160]}`{label}, which is not known to divide "
                        f"{x}.stride although {x} may hold several values here: members of {x} off the result's lattice are lost",
                        construct=f"pseudo_join: stride of the result over [{norm(L)[:50]}, ..] divides the {'first' if x == s else 'second'} operand's stride",
                    )
                # (b) offset of x's lower bound from the result's lower bound
                if lL is None:
                    continue
                try:
                    off = linear(ast.BinOp(left=ast.Attribute(value=ast.Name(id=x, ctx=ast.Load()), attr="lower_bound", ctx=ast.Load()), op=ast.Sub(), right=L), canon, order)
                except _NotLinear:
                    continue
                if not off:
                    R.ok(m, st, f"{x}.lower_bound is the result's lower bound")
                    continue
                ok = div == EVERYTHING or ("lin", frozenset(off.items())) in div
                R.check(
                    ok,
                    m,
                    st,
                    f"result stride divides the offset of {x}.lower_bound",
                    f"pseudo_join builds a result with stride `{norm(E)[:160]}` from lower bound `{norm(L)[:60]}`{label}: the stride is "
                    f"not known to divide ({x}.lower_bound - {norm(L)[:40]}) mod 2**w, so {x}.lower_bound itself need not be a member of the join",
                    construct=f"pseudo_join: stride of the result over [{norm(L)[:50]}, ..] divides the offset of the {'first' if x == s else 'second'} operand's lower bound",
                )
    R.need(n_results >= 6, f"pseudo_join: only {n_results} constructed results found on its paths")


def _built(ret):
    """the StridedInterval(...) constructor call inside a returned expression, through trailing .normalize()/.copy()"""
    e = ret
    while isinstance(e, ast.Call) and isinstance(e.func, ast.Attribute) and e.func.attr in ("normalize", "copy") and not e.args:
        e = e.func.value
    if isinstance(e, ast.Call) and (dotted(e.func) or "").split(".")[-1] == "StridedInterval":
        return e
    return None


@rule(
    "C21.arithstride",
    props=("C21", "C24"),
    floor=8,
    family="FIN",
    desc="add / sub of strided intervals, for all inputs: the constructed result starts at the sum of the lower bounds "
    "(difference: own lower bound minus the other's *upper* bound), ends at the sum of the upper bounds (own upper minus "
    "the other's lower), modulo 2**w, and its stride provably divides both operands' strides - every x+y (x-y) is then "
    "on the result's lattice; decided over linear forms modulo 2**w and the divisibility sets of C21.joinstride",
)
def c21_arithstride(R):
    tree = R.tree
    m = tree.mod(SI)
    want = {
        "add": (lambda s, b: {f"{s}.lower_bound": 1, f"{b}.lower_bound": 1}, lambda s, b: {f"{s}.upper_bound": 1, f"{b}.upper_bound": 1}),
        "sub": (lambda s, b: {f"{s}.lower_bound": 1, f"{b}.upper_bound": -1}, lambda s, b: {f"{s}.upper_bound": 1, f"{b}.lower_bound": -1}),
    }
    for name, (wl, wu) in want.items():
        fn = tree.func_inlined(SI, f"StridedInterval.{name}", exclude=("_modular_sub", "_modular_add", "_wrapped_cardinality", "_wrapped_overflow_add", "_wrapped_overflow_sub"))
        ps = positional_params(fn)
        R.need(len(ps) == 2, f"StridedInterval.{name} no longer takes two operands")
        s, b = ps

        def canon(text, s=s, b=b):
            for x in (s, b):
                if text == f"{x}._lower_bound":
                    return f"{x}.lower_bound"
                if text == f"{x}._upper_bound":
                    return f"{x}.upper_bound"
            return text

        n = 0
        for _facts, ret, st in paths(fn):
            c = _built(ret)
            if c is None:
                continue
            E, L, U = _kw(c, "stride"), _kw(c, "lower_bound"), _kw(c, "upper_bound")
            if E is None or L is None or U is None:
                continue
            n += 1
            for what, expr, w in (("lower", L, wl(s, b)), ("upper", U, wu(s, b))):
                try:
                    lf = linear(expr, canon, {})
                except _NotLinear:
                    lf = None
                R.check(
                    lf == w,
                    m,
                    st,
                    f"{name}: {what} bound of the result",
                    f"StridedInterval.{name} builds its result with {what} bound `{norm(expr)[:120]}`; the {what} end of "
                    f"{{x {'+' if name == 'add' else '-'} y}} is {' '.join(('+' if c_ > 0 else '-') + ' ' + t for t, c_ in w.items()).lstrip('+ ')} modulo 2**w",
                    construct=f"{name}: {what} bound of the constructed result",
                )
            div = divides(E, canon, {})
            for x in (s, b):
                R.check(
                    div == EVERYTHING or ("stride", x) in div,
                    m,
                    st,
                    f"{name}: result stride divides {x}.stride",
                    f"StridedInterval.{name} builds its result with stride `{norm(E)[:120]}`, which is not known to divide "
                    f"{x}.stride: steps of {x} leave the result's lattice",
                    construct=f"{name}: stride of the constructed result divides the {'first' if x == s else 'second'} operand's stride",
                )
        R.need(n >= 1, f"StridedInterval.{name}: no constructed result found")
