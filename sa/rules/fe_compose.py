"""Composite / replacement / hybrid frontends and merge/combine/split (C12, C13, C15)."""

from __future__ import annotations

import ast
import re

from .. import guards, util
from ..cfg import CFG, describe_path
from ..core import dotted, norm, walk_no_nested
from ..report import rule

CO = "claripy/frontend/composite_frontend.py"
RF = "claripy/frontend/replacement_frontend.py"
HF = "claripy/frontend/hybrid_frontend.py"
CF = "claripy/frontend/constrained_frontend.py"
MC = "claripy/frontend/mixin/model_cache_mixin.py"

SHARED_SOURCES = {"_merged_solver_for", "_solver_for_names", "_solvers_for_variables", "_shared_solvers"}
CREATORS = {"blank_copy", "branch", "combine", "split", "merge"}


def _calls(fn):
    for n in walk_no_nested(fn):
        if isinstance(n, ast.Call):
            yield n


def _ordered_stmts(fn):
    """Statements of fn in source order (flattened)."""
    out = []

    def rec(body):
        for st in body:
            out.append(st)
            for fld in ("body", "orelse", "finalbody"):
                b = getattr(st, fld, None)
                if isinstance(b, list):
                    rec(b)
            for h in getattr(st, "handlers", []) or []:
                rec(h.body)

    rec(fn.body)
    return out


def _ownership_of_value(val):
    """'owned' | 'shared' | None for the value assigned to a child-solver variable."""
    if isinstance(val, ast.Call) and isinstance(val.func, ast.Attribute):
        if val.func.attr == "_claim" and dotted(val.func.value) == "self":
            return "owned"
        if val.func.attr in CREATORS:
            return "owned"
        if val.func.attr in SHARED_SOURCES and dotted(val.func.value) == "self":
            return "shared"
    if isinstance(val, ast.Subscript) and dotted(val.value) == "self._solvers":
        return "shared"
    if isinstance(val, ast.Attribute) and dotted(val) == "self._solver_list":
        return "shared"
    return None


@rule(
    "C12.claim",
    props=("C12", "C14"),
    floor=2,
    family="TS",
    desc="ownership typestate in CompositeFrontend: a child obtained from the shared tables is never given "
    "constraints until it has passed through _claim (or was created in the method)",
)
def c12_claim(R):
    tree = R.tree
    m = tree.mod(CO)
    c = tree.cls(CO, "CompositeFrontend")
    n_mut = 0
    for name, fn in util.methods_of(c).items():
        state = {}
        for st in _ordered_stmts(fn):
            if isinstance(st, ast.Assign) and len(st.targets) == 1 and isinstance(st.targets[0], ast.Name):
                o = _ownership_of_value(st.value)
                if o:
                    state[st.targets[0].id] = (o, st)
                elif st.targets[0].id in state and not isinstance(st.value, ast.Name):
                    state.pop(st.targets[0].id, None)
            if isinstance(st, ast.For) and isinstance(st.target, ast.Name):
                it = st.iter
                o = None
                if dotted(it) == "self._solver_list" or (
                    isinstance(it, ast.Call) and isinstance(it.func, ast.Attribute) and it.func.attr in SHARED_SOURCES | {"values"}
                ):
                    o = "shared"
                if isinstance(it, ast.Name) and it.id in state:
                    o = state[it.id][0]
                if o:
                    state[st.target.id] = (o, st)
            # mutation sites in this statement (only direct, not nested statements)
            for call in ast.walk(st) if not hasattr(st, "body") else []:
                if (
                    isinstance(call, ast.Call)
                    and isinstance(call.func, ast.Attribute)
                    and call.func.attr in ("add", "_add")
                    and isinstance(call.func.value, ast.Name)
                    and call.func.value.id != "self"
                ):
                    var = call.func.value.id
                    if var not in state:
                        continue  # not a child solver (a set / list)
                    n_mut += 1
                    R.check(
                        state[var][0] == "owned",
                        m,
                        call,
                        f"CompositeFrontend.{name}: `{var}` is owned (claimed or created) when it receives constraints",
                        f"CompositeFrontend.{name}: `{var}` comes from the shared child table "
                        f"(`{norm(state[var][1])}`) and receives constraints without self._claim(): a child shared "
                        f"copy-on-write with another branch is modified in place",
                    )
    R.need(n_mut >= 2, f"only {n_mut} child mutation sites found in CompositeFrontend (anchor moved)")
    # _claim itself: branches a child that is not owned and records the branch as owned
    claim = tree.func(CO, "CompositeFrontend._claim")
    p1 = util.func_param(claim, 1)

    def owned_fact(t, pol):
        """True / False when the fact says the child is / is not in self._owned_solvers, else None"""
        if isinstance(t, ast.Compare) and len(t.ops) == 1 and ast.unparse(t.left) == p1 and dotted(t.comparators[0]) == "self._owned_solvers":
            if isinstance(t.ops[0], ast.In):
                return pol
            if isinstance(t.ops[0], ast.NotIn):
                return not pol
        return None

    rets = [r for r in walk_no_nested(claim) if isinstance(r, ast.Return)]
    R.need(rets, "_claim has no return")
    saw_unowned = False
    for r in rets:
        status = [owned_fact(t, pol) for t, pol in guards.guards_of(r)]
        is_owned = True in status
        rv = r.value
        if is_owned:
            R.check(rv is not None and ast.unparse(rv) == p1, m, r, "_claim: an owned child is handed back as is", f"_claim returns `{norm(rv) if rv is not None else None}` for a child it already owns", construct="_claim owned arm")
            continue
        saw_unowned = True
        # not (known to be) owned: the value handed out is a fresh branch of the child, recorded as owned
        defs = [st for st in walk_no_nested(claim) if isinstance(st, ast.Assign) and isinstance(rv, ast.Name) and ast.unparse(st.targets[0]) == rv.id]
        branched = (
            isinstance(rv, ast.Name)
            and rv.id != p1
            and len(defs) == 1
            and isinstance(defs[0].value, ast.Call)
            and isinstance(defs[0].value.func, ast.Attribute)
            and defs[0].value.func.attr == "branch"
            and ast.unparse(defs[0].value.func.value) == p1
            and not [g for g in guards.guards_of(defs[0]) if g not in guards.guards_of(r) and owned_fact(*g) is None]
        )
        R.check(
            branched,
            m,
            r,
            "_claim: an un-owned child is always branched before it is handed out",
            f"_claim hands out `{norm(rv) if rv is not None else None}` for a child it does not own: in some "
            f"case the shared child itself is returned and then modified in place",
            construct="_claim unowned arm returns a fresh branch",
        )
        recorded = any(
            isinstance(c.func, ast.Attribute)
            and c.func.attr == "add"
            and dotted(c.func.value) == "self._owned_solvers"
            and c.args
            and isinstance(rv, ast.Name)
            and ast.unparse(c.args[0]) == rv.id
            and not [g for g in guards.guards_of(c) if owned_fact(*g) is None and g not in guards.guards_of(r)]
            for c in _calls(claim)
        )
        R.check(
            recorded,
            m,
            r,
            "_claim records the branch as owned",
            "_claim no longer branches un-owned children and records the branch in _owned_solvers",
            construct="CompositeFrontend._claim protocol",
        )
    R.check(saw_unowned, m, claim, "_claim has an arm for children it does not own", "_claim never branches: every child is treated as owned", construct="_claim unowned arm exists")


@rule(
    "C12.store",
    props=("C12",),
    floor=2,
    family="PAIR",
    desc="every claimed-and-mutated child is handed to _store_child before the method returns normally "
    "(otherwise the variable table keeps the stale shared child)",
)
def c12_store(R):
    tree = R.tree
    m = tree.mod(CO)
    c = tree.cls(CO, "CompositeFrontend")
    n = 0
    for name, fn in util.methods_of(c).items():
        claims = [
            st
            for st in _ordered_stmts(fn)
            if isinstance(st, ast.Assign)
            and isinstance(st.value, ast.Call)
            and isinstance(st.value.func, ast.Attribute)
            and st.value.func.attr == "_claim"
            and isinstance(st.targets[0], ast.Name)
        ]
        if not claims:
            continue
        g = CFG(fn)
        for st in claims:
            var = st.targets[0].id
            nodes = g.find(lambda nd: nd.ast is st)
            for nd in nodes:
                n += 1

                def stores(x, var=var):
                    return x.ast is not None and any(
                        isinstance(cc, ast.Call)
                        and isinstance(cc.func, ast.Attribute)
                        and cc.func.attr == "_store_child"
                        and cc.args
                        and isinstance(cc.args[0], ast.Name)
                        and cc.args[0].id == var
                        for cc in ast.walk(x.ast)
                    )

                bad = [p for p in g.paths_avoiding(nd, stores) if p[-1] is g.exit]
                R.check(
                    not bad,
                    m,
                    st,
                    f"CompositeFrontend.{name}: claimed child `{var}` is stored back on every normal path",
                    f"CompositeFrontend.{name}: claimed child `{var}` is not passed to _store_child on the path "
                    f"{describe_path(bad[0][-4:]) if bad else ''}: _solvers keeps the stale shared child",
                )
    R.need(n >= 2, "claim sites not found")
    # children produced by split() become owned before they are stored
    for q in ("CompositeFrontend._split_child", "CompositeFrontend._reabsorb_solver"):
        fn = tree.func(CO, q)
        for call in _calls(fn):
            if isinstance(call.func, ast.Attribute) and call.func.attr == "_store_child" and call.args:
                var = ast.unparse(call.args[0])
                blk = _enclosing_block(call)
                owned = any(
                    isinstance(x, ast.Call)
                    and isinstance(x.func, ast.Attribute)
                    and x.func.attr == "add"
                    and dotted(x.func.value) == "self._owned_solvers"
                    and x.args
                    and ast.unparse(x.args[0]) == var
                    for st in blk
                    for x in ast.walk(st)
                )
                R.check(
                    owned,
                    m,
                    call,
                    f"{q}: split-off child `{var}` is recorded as owned when stored",
                    f"{q}: split-off child `{var}` is stored without being recorded in _owned_solvers",
                )


def _enclosing_block(node):
    st = node
    while not isinstance(st, ast.stmt):
        st = st._parent
    p = st._parent
    for fld in ("body", "orelse", "finalbody"):
        lst = getattr(p, fld, None)
        if isinstance(lst, list) and any(x is st for x in lst):
            return lst
    return [st]


@rule(
    "C12.ensure",
    props=("C12",),
    floor=5,
    family="PAIR",
    desc="eval/batch_eval/min/max/solution of the composite establish overall satisfiability (_ensure_sat) before "
    "delegating to the merged child, and _ensure_sat raises on a known-unsat composite",
)
def c12_ensure(R):
    tree = R.tree
    m = tree.mod(CO)
    c = tree.cls(CO, "CompositeFrontend")
    ms = util.methods_of(c)
    for name in ("eval", "batch_eval", "min", "max", "solution"):
        fn = ms.get(name)
        R.need(fn is not None, f"CompositeFrontend.{name} missing")
        order = []
        for st in fn.body:
            for call in ast.walk(st):
                if isinstance(call, ast.Call) and isinstance(call.func, ast.Attribute) and dotted(call.func.value) == "self":
                    order.append((call.func.attr, call))
        names = [a for a, _ in order]
        ok = "_ensure_sat" in names and "_merged_solver_for" in names and names.index("_ensure_sat") < names.index(
            "_merged_solver_for"
        )
        R.check(
            ok,
            m,
            fn,
            f"CompositeFrontend.{name} calls _ensure_sat before picking the merged child",
            f"CompositeFrontend.{name} delegates to a merged child without first establishing that the other "
            f"constraint groups are satisfiable",
            construct=f"CompositeFrontend.{name}: _ensure_sat before _merged_solver_for",
        )
        if ok:
            call = dict(order)["_ensure_sat"]
            ec = util.kw(call, "extra_constraints") or (call.args[0] if call.args else None)
            R.check(
                ec is not None and ast.unparse(ec) == "extra_constraints",
                m,
                call,
                "_ensure_sat receives the caller's extra constraints",
                "_ensure_sat is not given the caller's extra constraints",
            )
    es = ms["_ensure_sat"]
    raises = [n for n in walk_no_nested(es) if isinstance(n, ast.Raise)]
    R.check(
        len(raises) == 1 and "UnsatError" in ast.unparse(raises[0]),
        m,
        es,
        "_ensure_sat raises UnsatError",
        "_ensure_sat no longer raises UnsatError",
        construct="_ensure_sat raise",
    )
    if raises:
        tests = [ast.unparse(t) for t, pol in guards.guards_of(raises[0]) if pol]
        R.check(
            any("self._unsat" in t for t in tests) and any("satisfiable" in t for t in tests) or any(
                "self._unsat" in t and "satisfiable" in t for t in tests
            ),
            m,
            raises[0],
            "_ensure_sat consults both the unsat flag and satisfiable()",
            f"_ensure_sat raises under `{tests}`: it must consult self._unsat and self.satisfiable()",
        )
    # the satisfiability of the *other* constraint groups must be established whether or not the query
    # carries extra constraints (the merged child only covers the groups the query touches)
    sat_calls = [
        c_
        for c_ in _calls(es)
        if isinstance(c_.func, ast.Attribute) and c_.func.attr in ("satisfiable", "check_satisfiability") and dotted(c_.func.value) == "self"
    ]
    R.check(bool(sat_calls), m, es, "_ensure_sat asks self.satisfiable()", "_ensure_sat never asks self.satisfiable()",
            construct="_ensure_sat satisfiable call")
    for c_ in sat_calls:
        skipped = [
            ast.unparse(t)
            for t, pol in guards.guards_of(c_)
            if (guards.emptiness(t, pol, lambda e: isinstance(e, ast.Name) and e.id == "extra_constraints") or (None,))[0] == "empty"
        ]
        R.check(
            not skipped,
            m,
            c_,
            "_ensure_sat establishes satisfiability of the stored constraints for every query",
            f"_ensure_sat only asks self.satisfiable() when `{skipped[0] if skipped else ''}`: a query with extra "
            f"constraints is answered from the merged child although an unrelated constraint group is unsatisfiable",
        )
    # _add records a concretely-false constraint
    add = ms["_add"]
    ok = any(
        a == "_unsat" and isinstance(val, ast.Constant) and val.value is True for a, kind, node, val in util.attr_writes_deep(add, ms, "self")
    )
    R.check(
        ok,
        m,
        add,
        "CompositeFrontend._add records a concretely false constraint in _unsat",
        "CompositeFrontend._add no longer records concretely false constraints",
        construct="CompositeFrontend._add: self._unsat = True",
    )
    cs = ms["check_satisfiability"]
    first = [s for s in cs.body if not (isinstance(s, ast.Expr) and isinstance(s.value, ast.Constant))][0]
    R.check(
        isinstance(first, ast.If) and ast.unparse(first.test) == "self._unsat" and "UNSAT" in ast.unparse(first.body[0]),
        m,
        cs,
        "check_satisfiability answers UNSAT first when the composite is known unsat",
        "check_satisfiability no longer starts by consulting self._unsat",
        construct="check_satisfiability: if self._unsat",
    )
    # an UNSAT/UNKNOWN child answer is propagated, never turned into SAT
    for n in walk_no_nested(cs):
        if isinstance(n, ast.If) and "UNSAT" in ast.unparse(n.test):
            body = n.body[0]
            R.check(
                isinstance(body, ast.Return) and isinstance(n.test, ast.Compare) and body.value is not None and ast.unparse(body.value) == ast.unparse(n.test.left),
                m,
                n,
                "a child's UNSAT/UNKNOWN answer is returned as is",
                f"a child's UNSAT/UNKNOWN answer is turned into `{norm(body)}`",
            )
    # clearing the unchecked set only after every unchecked child was examined
    clears = [
        call
        for call in _calls(cs)
        if isinstance(call.func, ast.Attribute) and call.func.attr == "clear" and dotted(call.func.value) == "self._unchecked_solvers"
    ]
    for call in clears:
        st = call
        while not isinstance(st, ast.stmt):
            st = st._parent
        R.check(
            st._parent is cs,
            m,
            call,
            "the unchecked set is cleared only at the end of a complete check",
            "the unchecked set is cleared inside a branch/loop: children can be dropped unchecked",
        )


@rule(
    "C12.cow",
    props=("C12", "C14"),
    floor=4,
    family="TS",
    desc="copy-on-write bookkeeping: after _copy neither side owns the shared children; merge() takes shared "
    "children away from every owner; unpickling owns nothing; split() hands out branches",
)
def c12_cow(R):
    tree = R.tree
    m = tree.mod(CO)
    c = tree.cls(CO, "CompositeFrontend")
    ms = util.methods_of(c)
    cp = ms["_copy"]
    recv = util.func_param(cp, 1)
    ok = any(
        a == "_owned_solvers" and kind == "assign" and isinstance(val, ast.Call) and not val.args
        for a, kind, node, val in util.attr_writes(cp, "self")
    )
    R.check(
        ok,
        m,
        cp,
        "CompositeFrontend._copy: the parent gives up ownership of all children",
        "CompositeFrontend._copy keeps the parent's ownership: it will mutate children now shared with the branch",
        construct="CompositeFrontend._copy: self._owned_solvers = WeakSet()",
    )
    child_owns = [
        (a, val) for a, kind, node, val in util.attr_writes(cp, recv) if a == "_owned_solvers"
    ]
    R.check(
        all(isinstance(v, ast.Call) and not v.args for _, v in child_owns),
        m,
        cp,
        "CompositeFrontend._copy: the child owns nothing it shares",
        "CompositeFrontend._copy copies the parent's ownership set into the child",
        construct="CompositeFrontend._copy: child ownership",
    )
    bc = ms["_blank_copy"]
    rb = util.func_param(bc, 1)
    R.check(
        any(a == "_owned_solvers" and isinstance(v, ast.Call) and not v.args for a, k, n_, v in util.attr_writes(bc, rb)),
        m,
        bc,
        "_blank_copy starts with an empty ownership set",
        "_blank_copy does not start with an empty ownership set",
        construct="CompositeFrontend._blank_copy ownership",
    )
    ss = ms["__setstate__"]
    # pickle keeps object identity: a composite and its branch pickled together come back sharing children, so
    # ownership cannot be assumed for anything that was restored (the first version of this rule demanded the
    # opposite - "an unpickled composite owns everything" - and so encoded the defect repaired by 3cf5fe0)
    owns = [v for a, k, n_, v in util.attr_writes(ss, "self") if a == "_owned_solvers"]
    R.check(
        bool(owns) and all(isinstance(v, ast.Call) and not v.args and not v.keywords for v in owns),
        m,
        ss,
        "an unpickled composite owns none of its children",
        "__setstate__ marks restored children as owned: a composite and its branch pickled in one dump come back sharing "
        "their children, both own them, and add() on one changes the other's answers (a.add(x < 2) made b unsatisfiable)",
        construct="CompositeFrontend.__setstate__ ownership",
    )
    mg = ms["merge"]
    disc_self = disc_other = False
    for call in _calls(mg):
        if isinstance(call.func, ast.Attribute) and call.func.attr in ("discard", "remove"):
            d = dotted(call.func.value) or ""
            if d == "self._owned_solvers":
                disc_self = True
            elif d.endswith("._owned_solvers"):
                disc_other = True
    R.check(
        disc_self and disc_other,
        m,
        mg,
        "merge(): children shared into the merged solver are disowned by self and by every other",
        "merge() shares children into the merged solver without taking them away from their owners",
        construct="CompositeFrontend.merge disowns common solvers",
    )
    sp = ms["split"]
    # every child that split() touches is used only as the receiver of .branch(): wherever the loop over the children
    # is written (comprehension in the return, a list built first and extended later, an explicit loop)
    loops = [x for x in ast.walk(sp) if isinstance(x, (ast.For, ast.comprehension)) and "_solver_list" in ast.unparse(x.iter) or isinstance(x, (ast.For, ast.comprehension)) and "_solvers" in ast.unparse(x.iter)]
    ok = bool(loops)
    for lp in loops:
        if not isinstance(lp.target, ast.Name):
            ok = False
            continue
        v = lp.target.id
        scope = lp if isinstance(lp, ast.For) else getattr(lp, "_parent", None)
        uses = [x for x in ast.walk(scope) if isinstance(x, ast.Name) and x.id == v and isinstance(x.ctx, ast.Load)]
        for u in uses:
            par = getattr(u, "_parent", None)
            gp = getattr(par, "_parent", None)
            if not (isinstance(par, ast.Attribute) and par.attr == "branch" and isinstance(gp, ast.Call) and gp.func is par):
                ok = False
    R.check(
        bool(ok),
        m,
        sp,
        "split() returns branches of the children, never the children themselves",
        "split() hands out the composite's own children",
        construct="CompositeFrontend.split returns branches",
    )


# ----------------------------------------------------------------------------- C13


@rule(
    "C13.cachesrc",
    props=("C13",),
    floor=4,
    family="SIB",
    desc="ReplacementFrontend: lookups read only _replacement_cache, so every operation that replaces or "
    "shrinks it re-seeds it from _replacements; new replacements go into both tables",
)
def c13_cachesrc(R):
    tree = R.tree
    m = tree.mod(RF)
    c = tree.cls(RF, "ReplacementFrontend")
    ms = util.methods_of(c)
    for name, fn in ms.items():
        if name in ("__init__", "_blank_copy"):
            continue
        recvs = ["self"] if name != "_copy" else ["self", util.func_param(fn, 1)]
        for recv in recvs:
            for a, kind, node, val in util.attr_writes(fn, recv):
                if a != "_replacement_cache":
                    continue
                if kind == "assign":
                    src_ok = any(
                        isinstance(x, ast.Attribute) and x.attr in ("_replacements", "_replacement_cache") for x in ast.walk(val)
                    )
                    R.check(
                        src_ok,
                        m,
                        node,
                        f"ReplacementFrontend.{name}: cache rebuilt from the replacement table",
                        f"ReplacementFrontend.{name} resets the lookup cache to `{norm(val)}` without re-seeding "
                        f"it from _replacements: the explicit replacements are silently no longer applied",
                    )
                elif kind == "mutate" and node.func.attr in ("clear", "pop", "popitem"):
                    R.bad(
                        m,
                        node,
                        f"ReplacementFrontend.{name} empties the lookup cache ({norm(node)}) but lookups never "
                        f"consult _replacements: every replacement derived from added constraints is forgotten "
                        f"while the replaced constraints stay in the inner solver",
                    )
                elif kind == "subassign":
                    R.ok(m, node, f"ReplacementFrontend.{name}: cache entry added")
    ar = ms["add_replacement"]
    subs = {a for a, kind, node, val in util.attr_writes(ar, "self") if kind == "subassign"}
    R.check(
        {"_replacements", "_replacement_cache"} <= subs,
        m,
        ar,
        "add_replacement records the pair in both tables",
        "add_replacement does not record the replacement in both _replacements and _replacement_cache",
        construct="add_replacement writes both tables",
    )
    # the cache also memoises rewrites of compound expressions derived from the table (_replacement stores them):
    # a new pair makes any of those stale, so the re-seed that precedes the store may depend on the caller's
    # `invalidate_cache` flag only - never on what the cache currently holds
    reseeds = [
        node
        for a, kind, node, val in util.attr_writes(ar, "self")
        if a == "_replacement_cache" and kind == "assign"
    ]
    R.check(
        len(reseeds) >= 1,
        m,
        ar,
        "add_replacement re-seeds the lookup cache",
        "add_replacement no longer drops the derived rewrites memoised in _replacement_cache when a pair is added",
        construct="add_replacement re-seed present",
    )
    for node in reseeds:
        tests = []
        p = node
        while p is not ar:
            par = p._parent
            if isinstance(par, ast.If) and any(p is st for st in par.body):
                tests.append(ast.unparse(par.test))
            elif isinstance(par, ast.If):
                tests.append("not (" + ast.unparse(par.test) + ")")
            elif isinstance(par, (ast.For, ast.While, ast.Try, ast.With)):
                tests.append(type(par).__name__)
            p = par
        R.check(
            tests == ["invalidate_cache"],
            m,
            node,
            "add_replacement: derived rewrites are dropped whenever the caller asks for invalidation",
            f"add_replacement re-seeds the lookup cache only under {tests}: rewrites of compound expressions memoised "
            f"from the old table (x+y -> 5+y) survive the new pair and are returned stale",
            construct="add_replacement re-seed condition",
        )
    rp = ms["_replacement"]
    reads = {a for a, _ in util.attr_reads(rp, "self")}
    R.check(
        "_replacement_cache" in reads,
        m,
        rp,
        "_replacement consults the lookup cache",
        "_replacement no longer consults _replacement_cache",
        construct="_replacement reads cache",
    )


@rule(
    "C13.unsafe",
    props=("C13",),
    floor=6,
    family="GRD",
    desc="solve results become replacements only under the opt-in _unsafe_replacement flag, whose default is off",
)
def c13_unsafe(R):
    tree = R.tree
    m = tree.mod(RF)
    c = tree.cls(RF, "ReplacementFrontend")
    n = 0
    ms = util.methods_of(c)
    # the methods through which a replacement gets recorded: add_replacement and whatever reaches it inside the class
    recorders = {"add_replacement"}
    for _ in range(4):
        for name, fn in ms.items():
            if name not in recorders and any(isinstance(k.func, ast.Attribute) and ast.unparse(k.func.value) == "self" and k.func.attr in recorders for k in _calls(fn)):
                recorders.add(name)
    queries = ("eval", "batch_eval", "max", "min", "solution", "is_true", "is_false", "satisfiable", "eval_to_ast")
    recorders -= set(queries) | {"_add", "add"}
    for name, fn in ms.items():
        if name not in queries:
            continue
        for call in _calls(fn):
            if isinstance(call.func, ast.Attribute) and ast.unparse(call.func.value) == "self" and call.func.attr in recorders:
                n += 1
                ok = any(ast.unparse(t) == "self._unsafe_replacement" and pol for t, pol in guards.guards_of(call))
                if not ok and guards.dominated_by_empty(call, {"extra_constraints"}):
                    # the one value of an enumeration that ran dry, about the constraint set itself, holds in every model
                    hs = [re.sub(r"\s+", " ", h) for h in guards.holds(call)]
                    ok = any(re.fullmatch(r"len\(\w+\) < n|n > len\(\w+\)", h) for h in hs) or (any(re.fullmatch(r"len\(\w+\) == 1", h) for h in hs) and any(h in ("n > 1", "1 < n", "n >= 2") for h in hs))
                R.check(
                    ok,
                    m,
                    call,
                    f"ReplacementFrontend.{name}: solve result recorded only under _unsafe_replacement",
                    f"ReplacementFrontend.{name} turns a solver answer into a replacement without the "
                    f"_unsafe_replacement opt-in: one model's value replaces the expression for all later queries",
                )
    R.need(n >= 5, "calls to _add_solve_result not found")
    init = tree.func(RF, "ReplacementFrontend.__init__")
    dflt = util.defaults_of(init).get("unsafe_replacement")
    R.check(
        isinstance(dflt, ast.Constant) and dflt.value in (None, False),
        m,
        init,
        "unsafe_replacement defaults to off",
        "unsafe_replacement no longer defaults to off",
        construct="ReplacementFrontend.__init__ default unsafe_replacement",
    )
    for a, kind, node, val in util.attr_writes(init, "self"):
        if a == "_unsafe_replacement":
            txt = ast.unparse(val)
            R.check(
                txt in ("False if unsafe_replacement is None else unsafe_replacement", "unsafe_replacement", "bool(unsafe_replacement)")
                or (isinstance(val, ast.IfExp) and isinstance(val.body, ast.Constant) and val.body.value is False),
                m,
                node,
                "None means off",
                f"_unsafe_replacement initialised as `{txt}`",
            )
    # solution(): only a positive answer about a concrete value may be recorded
    sol = tree.func(RF, "ReplacementFrontend.solution")
    for call in _calls(sol):
        if isinstance(call.func, ast.Attribute) and call.func.attr == "_add_solve_result":
            gs = [ast.unparse(t) for t, pol in guards.guards_of(call) if pol]
            answers = [
                st.targets[0].id
                for st in walk_no_nested(sol)
                if isinstance(st, ast.Assign) and isinstance(st.targets[0], ast.Name) and isinstance(st.value, ast.Call)
                and isinstance(st.value.func, ast.Attribute) and st.value.func.attr == "solution"
            ]
            R.check(
                any(a in gs for a in answers),
                m,
                call,
                "solution(): replacement only when the answer was True",
                "solution() records the candidate value as replacement even when it is not a solution",
            )
    # _add_solve_result refuses symbolic results
    asr = tree.func(RF, "ReplacementFrontend._add_solve_result")
    txt = ast.unparse(asr)
    R.check(
        "er.symbolic" in txt and "self._auto_replace" in txt,
        m,
        asr,
        "_add_solve_result ignores symbolic replaced expressions and honours auto_replace",
        "_add_solve_result lost its symbolic / auto_replace guards",
        construct="_add_solve_result guards",
    )


@rule(
    "C13.polarity",
    props=("C13",),
    floor=5,
    family="TAB",
    desc="auto-replacement arms: Not(b) makes b false; an equality with exactly one symbolic side replaces the "
    "symbolic side by the concrete one; VSA bounds are intersected into the current replacement",
)
def c13_polarity(R):
    tree = R.tree
    m = tree.mod(RF)
    # single-assignment locals are replaced by what they stand for (`rc = c`, `rold = self._replacement(old)`), so the
    # arms read in terms of the loop variable whatever the intermediates are called
    fn = util.resolve_locals(tree.func_inlined(RF, "ReplacementFrontend._add", exclude=("add_replacement", "_replacement", "_replace_list")))
    loops = [st for st in walk_no_nested(fn) if isinstance(st, ast.For) and ast.unparse(st.iter) == "constraints" and isinstance(st.target, ast.Name)]
    R.need(len(loops) == 1, "ReplacementFrontend._add: loop over the added constraints not found")
    L = loops[0].target.id
    found_not = found_eq = found_vsa = False
    for call in _calls(fn):
        if not (isinstance(call.func, ast.Attribute) and call.func.attr == "add_replacement"):
            continue
        gs = [(ast.unparse(t), pol) for t, pol in guards.guards_of(call)]
        texts = [t for t, pol in gs if pol]
        if any(t == f"{L}.op == 'Not'" for t in texts):
            found_not = True
            a0, a1 = call.args[0], call.args[1]
            R.check(
                ast.unparse(a0) == f"{L}.args[0]" and (dotted(a1.func) if isinstance(a1, ast.Call) else "") in ("claripy.false", "false"),
                m,
                call,
                "Not(b) constraint: b := false",
                f"Not(b) constraint replaces `{norm(a0)}` by `{norm(a1)}`; expected the negated operand := false",
                construct="_add: Not arm",
            )
        elif any(f"{L}.op == '__eq__'" in t for t in texts):
            found_eq = True
            xor = any(t in (f"{L}.args[0].symbolic ^ {L}.args[1].symbolic", f"{L}.args[1].symbolic ^ {L}.args[0].symbolic", f"{L}.args[0].symbolic != {L}.args[1].symbolic") for t in texts)
            R.check(
                xor,
                m,
                call,
                "equality arm requires exactly one symbolic side",
                "equality arm does not require exactly one symbolic side (a symbolic==symbolic equality would "
                "replace one variable by another expression)",
                construct="_add: equality arm guard",
            )
            pair = [ast.unparse(a) for a in call.args[:2]]
            unpack = [
                st
                for st in walk_no_nested(fn)
                if isinstance(st, ast.Assign) and isinstance(st.targets[0], ast.Tuple) and [ast.unparse(e) for e in st.targets[0].elts] == pair
            ]
            R.check(
                len(unpack) == 1 and all(isinstance(a, ast.Name) for a in call.args[:2]),
                m,
                call,
                "equality arm: add_replacement(<symbolic side>, <concrete side>)",
                f"equality arm calls add_replacement({', '.join(pair)}) with values that are not unpacked from the two sides",
                construct="_add: equality arm call",
            )
            for st in unpack:
                v = util.positive_ifs(ast.Module(body=[st], type_ignores=[])).body[0].value if isinstance(st.value, ast.IfExp) else st.value
                R.check(
                    isinstance(v, ast.IfExp)
                    and ast.unparse(v.test) == f"{L}.args[0].symbolic"
                    and ast.unparse(v.body) == f"{L}.args"
                    and ast.unparse(v.orelse) == f"{L}.args[::-1]",
                    m,
                    st,
                    "the symbolic side is the one replaced, the concrete side is the replacement",
                    f"direction of the equality replacement is `{norm(st.value)}`: the concrete side would be "
                    f"replaced by the symbolic one",
                    construct="_add: equality arm direction",
                )
        elif any(pol is False and isinstance(t_, ast.Name) for t_, pol in guards.guards_of(call)) and any("constraint_to_si" in ast.unparse(x) for x in ast.walk(fn)) and len(call.args) == 2 and (dotted(call.args[1].func) if isinstance(call.args[1], ast.Call) else "") in ("claripy.false", "false"):
            # `if not <sat flag of constraint_to_si>: add_replacement(constraint, false)`
            R.check(
                ast.unparse(call.args[0]) == L,
                m,
                call,
                "a constraint VSA finds unsatisfiable is replaced by false",
                f"`{norm(call.args[0])}` (not the constraint) is replaced by false when VSA finds the constraint unsatisfiable",
                construct="_add: VSA unsat arm",
            )
        elif any("_complex_auto_replace" in t for t, pol in gs):
            inner = None
            p_ = call
            while p_ is not None and p_ is not fn:
                p_ = getattr(p_, "_parent", None)
                if isinstance(p_, ast.For) and isinstance(p_.target, ast.Tuple) and len(p_.target.elts) == 2:
                    inner = p_
                    break
            if inner is None:
                continue
            found_vsa = True
            o_, n_ = (ast.unparse(e) for e in inner.target.elts)
            a1 = call.args[1]
            R.check(
                ast.unparse(call.args[0]) == o_ and ast.unparse(a1) == f"self._replacement({o_}).intersection({n_})",
                m,
                call,
                "VSA bound is intersected into the current replacement of the expression",
                f"VSA bound is combined as `add_replacement({norm(call.args[0])}, {norm(a1)})`; it must intersect the "
                f"current replacement of the bounded expression with the new bound",
                construct="_add: VSA bound arm",
            )
    R.need(found_not and found_eq and found_vsa, "auto-replacement arms not found in ReplacementFrontend._add")
    # the constraints themselves always reach the inner frontend
    calls = [c for c in _calls(fn) if isinstance(c.func, ast.Attribute) and c.func.attr == "add" and dotted(c.func.value) == "self._actual_frontend"]
    def _top_level(call):
        st = call
        while not isinstance(st, ast.stmt):
            st = st._parent
        return st._parent is fn

    R.check(
        len(calls) == 1 and _top_level(calls[0]),
        m,
        fn,
        "the (replaced) constraints are always added to the inner frontend",
        "adding to the inner frontend became conditional or vanished",
        construct="ReplacementFrontend._add -> self._actual_frontend.add",
    )


@rule(
    "C13.exact",
    props=("C13",),
    floor=6,
    family="GRD",
    desc="HybridFrontend consults the approximate frontend only when exact is False (or in the opt-in "
    "approximate-first mode), falls back to the exact one, and feeds every constraint to both",
)
def c13_exact(R):
    tree = R.tree
    m = tree.mod(HF)
    dc = tree.func(HF, "HybridFrontend._do_call")
    approx_calls = [
        n
        for n in walk_no_nested(dc)
        if isinstance(n, ast.Attribute) and dotted(n) == "self._approximate_frontend"
    ]
    R.need(approx_calls, "_do_call no longer mentions the approximate frontend")
    for n in approx_calls:
        ok = any(ast.unparse(t) in ("exact is False", "exact == False") and pol for t, pol in guards.guards_of(n))
        R.check(
            ok,
            m,
            n,
            "approximate frontend used only under `exact is False`",
            "_do_call consults the approximate frontend without `exact is False` (None/True must mean exact)",
        )
    dflt = util.defaults_of(dc).get("exact")
    R.check(
        isinstance(dflt, ast.Constant) and dflt.value is True,
        m,
        dc,
        "_do_call defaults to exact",
        "_do_call no longer defaults to exact=True",
        construct="_do_call default exact",
    )
    rets = [n for n in walk_no_nested(dc) if isinstance(n, ast.Return)]
    last = rets[-1] if rets else None
    R.check(
        last is not None and "self._exact_frontend" in ast.unparse(last) and not guards.guards_of(last),
        m,
        dc,
        "fallback: the exact frontend answers whenever the approximate one did not",
        "_do_call has no unconditional fallback to the exact frontend",
        construct="_do_call fallback",
    )
    c = tree.cls(HF, "HybridFrontend")
    for name, fn in util.methods_of(c).items():
        for call in _calls(fn):
            if isinstance(call.func, ast.Attribute) and call.func.attr == "_approximate_first_call":
                gs = [ast.unparse(t) for t, pol in guards.guards_of(call) if pol]
                R.check(
                    "self._approximate_first" in gs and "exact is None" in gs,
                    m,
                    call,
                    f"HybridFrontend.{name}: approximate-first only when opted in and exact is None",
                    f"HybridFrontend.{name} uses approximate-first mode under {gs}",
                )
    for path, q in ((HF, "HybridFrontend.__init__"), ("claripy/solvers.py", "SolverHybrid.__init__")):
        fn = tree.func(path, q)
        d = util.defaults_of(fn).get("approximate_first")
        R.check(
            isinstance(d, ast.Constant) and d.value is False,
            tree.mod(path),
            fn,
            f"{q}: approximate_first defaults to False",
            f"{q}: approximate_first no longer defaults to False",
            construct=f"{q} default approximate_first",
        )
    add = tree.func(HF, "HybridFrontend._add")
    targets = {
        dotted(call.func.value)
        for call in _calls(add)
        if isinstance(call.func, ast.Attribute) and call.func.attr in ("add", "_add")
    }
    R.check(
        {"self._exact_frontend", "self._approximate_frontend"} <= targets,
        m,
        add,
        "HybridFrontend._add feeds both frontends",
        "HybridFrontend._add no longer feeds both the exact and the approximate frontend",
        construct="HybridFrontend._add feeds both",
    )
    # approximate-first: the shorter of the two answers is never preferred over the exact one wrongly
    af = tree.func(HF, "HybridFrontend._approximate_first_call")
    calls = [call for call in _calls(af) if isinstance(call.func, ast.Attribute) and call.func.attr == "_do_call"]
    exacts = [ast.unparse(util.kw(call, "exact")) for call in calls if util.kw(call, "exact") is not None]
    R.check(
        exacts == ["False", "True"],
        m,
        af,
        "approximate-first asks the approximate frontend first and the exact one to confirm",
        f"approximate-first calls use exact={exacts}",
        construct="_approximate_first_call order",
    )


# ----------------------------------------------------------------------------- C15


@rule(
    "C15.merge",
    props=("C15",),
    floor=4,
    family="TAB",
    desc="ConstrainedFrontend.merge builds Or over And(condition_i, *constraints_i) pairing [self, *others] with "
    "the conditions, into a blank copy; with an ancestor it is ancestor.branch() plus Or(*conditions)",
)
def c15_merge(R):
    tree = R.tree
    m = tree.mod(CF)
    fn = tree.func(CF, "ConstrainedFrontend.merge")
    top = [s for s in fn.body if isinstance(s, ast.If)]
    R.need(top and "common_ancestor is None" in ast.unparse(top[0].test), "merge: `if common_ancestor is None` not found")
    noanc, anc = top[0].body, top[0].orelse
    txt = "\n".join(ast.unparse(s) for s in noanc)
    R.check(
        any(isinstance(s, ast.Assign) and ast.unparse(s.value) == "self.blank_copy()" for s in noanc),
        m,
        top[0],
        "merge without ancestor starts from a blank copy",
        "merge without ancestor does not start from self.blank_copy()",
        construct="merge: merged = self.blank_copy()",
    )
    # the pairing: a comprehension over zip(solvers, conditions) (an append loop is read as that comprehension)
    comps = [c for st in noanc for c in ast.walk(st) if isinstance(c, ast.ListComp) and len(c.generators) == 1 and isinstance(c.generators[0].iter, ast.Call) and dotted(c.generators[0].iter.func) == "zip"]
    R.need(len(comps) == 1, "merge: pairing of solvers with conditions (zip) not found")
    comp = comps[0]
    it = comp.generators[0].iter
    ok_zip = (
        len(it.args) >= 2
        and ast.unparse(it.args[0]) in ("[self, *others]", "[self] + others", "[self] + list(others)", "(self, *others)")
        and ast.unparse(it.args[1]) == "merge_conditions"
    )
    R.check(
        ok_zip,
        m,
        comp,
        "conditions are paired with [self, *others] in order",
        f"merge pairs `{norm(it)}`: condition i must go with solver i of [self, *others]",
        construct="merge pairing",
    )
    tgt = [ast.unparse(e) for e in comp.generators[0].target.elts] if isinstance(comp.generators[0].target, ast.Tuple) else []
    ands = [c for c in ast.walk(comp.elt) if isinstance(c, ast.Call) and dotted(c.func) in ("And", "claripy.And")]
    R.need(len(ands) == 1 and len(tgt) == 2 and not comp.generators[0].ifs, "merge: And(...) per option not found")
    names_in = {x.id for x in ast.walk(ands[0]) if isinstance(x, ast.Name)}
    attrs_in = {ast.unparse(x) for x in ast.walk(ands[0]) if isinstance(x, ast.Attribute)}
    R.check(
        tgt[1] in names_in and f"{tgt[0]}.constraints" in attrs_in,
        m,
        ands[0],
        "each option is And(condition_i, *constraints_i)",
        f"option built as `{norm(ands[0])}`: it must conjoin the condition with that solver's constraints",
        construct="merge option",
    )
    ors = [c for s in noanc for c in ast.walk(s) if isinstance(c, ast.Call) and dotted(c.func) in ("Or", "claripy.Or")]
    # the list of options is what the Or ranges over
    holder = comp._parent.targets[0].id if isinstance(comp._parent, ast.Assign) and isinstance(comp._parent.targets[0], ast.Name) else None
    R.check(
        len(ors) == 1
        and len(ors[0].args) == 1
        and isinstance(ors[0].args[0], ast.Starred)
        and (ast.unparse(ors[0].args[0].value) == holder or ors[0].args[0].value is comp),
        m,
        top[0],
        "the merged constraint is the disjunction of the options",
        f"merged constraint is `{norm(ors[0]) if ors else None}`; expected the Or over all options",
        construct="merge: Or(*options)",
    )
    atxt = "\n".join(ast.unparse(s) for s in anc)
    R.check(
        "common_ancestor.branch()" in atxt and "Or(*merge_conditions)" in atxt,
        m,
        top[0],
        "with an ancestor: ancestor.branch() plus Or(*merge_conditions)",
        "ancestor merge is no longer ancestor.branch() constrained by Or(*merge_conditions)",
        construct="merge with ancestor",
    )
    # composite: _merge_with_ancestor the same
    cm = tree.func(CO, "CompositeFrontend._merge_with_ancestor")
    t = ast.unparse(cm)
    R.check(
        "common_ancestor.branch()" in t and "Or(*merge_conditions)" in t,
        tree.mod(CO),
        cm,
        "composite ancestor merge: ancestor.branch() plus Or(*merge_conditions)",
        "composite ancestor merge changed shape",
        construct="CompositeFrontend._merge_with_ancestor",
    )
    # composite merge: noncommon children go through the child merge with the same conditions
    cmg = tree.func(CO, "CompositeFrontend.merge")
    calls = [c for c in _calls(cmg) if isinstance(c.func, ast.Attribute) and c.func.attr == "merge"]
    R.check(
        len(calls) == 1
        and len(calls[0].args) == 2
        and ast.unparse(calls[0].args[1]) == "merge_conditions"
        and isinstance(calls[0].func.value, ast.Subscript)
        and isinstance(calls[0].func.value.value, ast.Name)
        and ast.unparse(calls[0].func.value.slice) == "0"
        and ast.unparse(calls[0].args[0]) == f"{calls[0].func.value.value.id}[1:]",
        tree.mod(CO),
        cmg,
        "composite merge: non-common parts merged pairwise in solver order with the same conditions",
        "composite merge no longer merges combined_noncommons[0] with the rest under merge_conditions",
        construct="CompositeFrontend.merge noncommon merge",
    )
    if len(calls) == 1:
        facts = [ast.unparse(t) for t, pol in guards.guards_of(calls[0])]
        parts = calls[0].func.value.value.id if isinstance(calls[0].func.value, ast.Subscript) and isinstance(calls[0].func.value.value, ast.Name) else "?"
        R.check(
            all(f in (f"len({parts})", parts, "common_ancestor is not None") for f in facts),
            tree.mod(CO),
            calls[0],
            "the merge conditions are applied whenever there is any input (even if all children are shared)",
            f"the noncommon merge (the only place the merge conditions are added) runs only under {facts}: when every "
            f"child is shared the Or of the conditions is never added",
        )
    lst = [n for n in walk_no_nested(cmg) if isinstance(n, ast.ListComp) and "._solver_list" in ast.unparse(n)]
    ok = any(ast.unparse(n.generators[-1].iter) in ("[self, *others]", "[self] + others") for n in lst)
    R.check(
        ok,
        tree.mod(CO),
        cmg,
        "non-common children are listed per solver in the order [self, *others]",
        "non-common children are not collected in the order of [self, *others] (conditions would be mispaired)",
        construct="CompositeFrontend.merge noncommon order",
    )


@rule(
    "C15.combine",
    props=("C15",),
    floor=4,
    family="DEP",
    desc="combine adds self's and every other's constraints to a blank copy; models are carried over only "
    "behind the disjoint-variables guard; split builds each part from a blank copy and one independent group",
)
def c15_combine(R):
    tree = R.tree
    m = tree.mod(CF)
    fn = tree.func(CF, "ConstrainedFrontend.combine")
    txt = ast.unparse(fn)
    adds = [c for c in _calls(fn) if isinstance(c.func, ast.Attribute) and c.func.attr == "add"]
    args = sorted(ast.unparse(c.args[0]) for c in adds if c.args)
    R.check(
        "self.blank_copy()" in txt and "self.constraints" in args and any(a.endswith(".constraints") and a != "self.constraints" for a in args),
        m,
        fn,
        "combine(): blank copy + self.constraints + each other's constraints",
        f"combine() adds {args}; it must add self.constraints and every o.constraints to a blank copy",
        construct="ConstrainedFrontend.combine",
    )
    loop = next((s for s in fn.body if isinstance(s, ast.For)), None)
    R.check(
        loop is not None and ast.unparse(loop.iter) == "others",
        m,
        fn,
        "combine() visits every other solver",
        "combine() does not iterate over all of `others`",
        construct="ConstrainedFrontend.combine loop",
    )
    sp = tree.func(CF, "ConstrainedFrontend.split")
    t = ast.unparse(sp)
    loop = next((s for s in sp.body if isinstance(s, ast.For)), None)
    R.check(
        loop is not None
        and "independent_constraints()" in ast.unparse(loop.iter)
        and "self.blank_copy()" in t
        and isinstance(loop.target, ast.Tuple)
        and len(loop.target.elts) == 2
        and any(
            isinstance(c, ast.Call) and isinstance(c.func, ast.Attribute) and c.func.attr == "add" and c.args and ast.unparse(c.args[0]) == ast.unparse(loop.target.elts[1])
            for c in ast.walk(loop)
        ),
        m,
        sp,
        "split(): one blank copy per independent group, given exactly that group's constraints",
        "split() no longer builds each part from a blank copy plus one independent constraint group",
        construct="ConstrainedFrontend.split",
    )
    app = [c for c in ast.walk(sp) if isinstance(c, ast.Call) and isinstance(c.func, ast.Attribute) and c.func.attr == "append"]
    R.check(
        len(app) == 1 and loop is not None and any(x is app[0] for x in ast.walk(loop)) and not guards.guards_of(app[0]),
        m,
        sp,
        "every part is returned",
        "split() drops some parts",
        construct="ConstrainedFrontend.split results",
    )
    # independent_constraints uses the solver's own constraint list
    ic = tree.func(CF, "ConstrainedFrontend.independent_constraints")
    R.check(
        "self._split_constraints(self.constraints)" in ast.unparse(ic),
        m,
        ic,
        "independent_constraints splits the solver's own constraints",
        "independent_constraints no longer splits self.constraints",
        construct="independent_constraints",
    )
    # _split_constraints: every conjunct lands in exactly one group: And-flattening + CONCRETE group
    sc = tree.func(CF, "ConstrainedFrontend._split_constraints")
    t = ast.unparse(sc)
    Fs = util.Frags(sc)
    R.check(
        Fs.has("for i in constraints:\n    splitted.extend(list(i.args) if i.op == 'And' else [i])")
        and Fs.has("if len(connected_variables) == 0:\n    concrete_constraints.append(s)")
        and Fs.has("connected_variables = set(s.variables)")
        and "'CONCRETE'" in t,
        m,
        sc,
        "_split_constraints flattens And and keeps variable-free conjuncts in a CONCRETE group",
        "_split_constraints lost And-flattening or the CONCRETE group (variable-free conjuncts would vanish)",
        construct="_split_constraints shape",
    )
    mm = tree.mod(MC)
    cb = tree.func(MC, "ModelCacheMixin.combine")
    upd = [c for c in _calls(cb) if isinstance(c.func, ast.Attribute) and c.func.attr == "update" and "_models" in ast.unparse(c.func.value)]
    R.need(len(upd) == 1, "ModelCacheMixin.combine: model carry-over not found")
    Fc = util.Frags(cb)
    disjoint = Fc.find(
        "vars_count = len(self.variables) + sum((len(s.variables) for s in others))\n"
        "all_vars = self.variables.union(*[s.variables for s in others])\n"
        "if vars_count != len(all_vars):\n    return combined"
    )
    facts = [(Fc.canon(t), pol) for t, pol in guards.guards_of(upd[0])]
    R.check(
        disjoint is not None and any(pol is False and t is getattr(disjoint, "test", None) for t, pol in guards.guards_of(upd[0])),
        mm,
        upd[0],
        "models are combined only when the solvers' variable sets are disjoint",
        f"model carry-over in combine() is guarded by {facts}: with shared variables the product of models "
        f"contains assignments that satisfy neither side",
    )
    R.check(
        any("len(self._models) == 0" in t and not pol for t, pol in facts) and any("._models) == 0 for " in t and t.startswith("any(") and not pol for t, pol in facts),
        mm,
        upd[0],
        "models are combined only when every side has some",
        "model carry-over no longer requires every side to have models",
    )
    R.check(
        disjoint is not None,
        mm,
        cb,
        "disjointness counts self's and every other's variables",
        "vars_count no longer counts the variables of self and of every other solver",
        construct="ModelCacheMixin.combine vars_count",
    )
    sp2 = tree.func_inlined(MC, "ModelCacheMixin.split")
    R.check(
        # every model that reaches a part is filtered to the part's variables (whether it replaces or is added to - see
        # C15.parts - what the part holds)
        any(isinstance(g, (ast.SetComp, ast.GeneratorExp, ast.ListComp)) and isinstance(g.elt, ast.Call) and isinstance(g.elt.func, ast.Attribute) and g.elt.func.attr == "filter"
            and g.elt.args and ast.unparse(g.elt.args[0]).endswith(".variables") and "_models" in ast.unparse(g.generators[0].iter) for g in ast.walk(sp2))
        and not any(isinstance(st, (ast.Assign, ast.AugAssign)) and "_models" in ast.unparse(st.targets[0] if isinstance(st, ast.Assign) else st.target) and not any(isinstance(c, ast.Call) and isinstance(c.func, ast.Attribute) and c.func.attr == "filter" for c in ast.walk(st.value)) for st in ast.walk(sp2)),
        mm,
        sp2,
        "split(): each part inherits the cached models restricted to its own variables",
        "ModelCacheMixin.split no longer restricts inherited models to the part's variables",
        construct="ModelCacheMixin.split",
    )
