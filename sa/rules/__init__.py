"""Rule modules; importing this package registers every rule."""

import importlib
import pkgutil


def load_all():
    for m in pkgutil.iter_modules(__path__):
        importlib.import_module(f"{__name__}.{m.name}")
