"""State plumbing of solver frontends: field-set agreement, cooperative super()
chains over the C3 MROs, copy aliasing, pickle shape.

Serves C11/C12/C13 (fields), C14 (branch isolation), C18 (pickling).
"""

from __future__ import annotations

import ast

from .. import util
from ..core import FuncTypes, dotted, norm
from ..report import rule

FE_DIRS = ("claripy/frontend/",)
PLUMBING = ("__init__", "_blank_copy", "_copy", "__getstate__", "__setstate__")


def frontend_classes(tree):
    out = []
    for m, q, c in tree.all_classes():
        if m.path.startswith(FE_DIRS) and "." not in q:
            out.append((m, c))
    return out


def solver_classes(tree):
    m = tree.mod("claripy/solvers.py")
    return [(m, c) for q, c in m.classes.items() if "." not in q]


def _init_fields(c):
    ms = util.methods_of(c)
    init = ms.get("__init__")
    if init is None:
        return {}
    out = {}
    for a, kind, node, val in util.attr_writes(init, "self"):
        if kind == "assign":
            out.setdefault(a, val)
    return out


def _assigned(fn, recv):
    s = {}
    if fn is None:
        return s
    for a, kind, node, val in util.attr_writes(fn, recv):
        if kind in ("assign", "subassign"):
            s.setdefault(a, []).append((kind, node, val))
    return s


def _is_property(c, name):
    for st in c.body:
        if isinstance(st, FuncTypes) and st.name == name:
            for d in st.decorator_list:
                dd = dotted(d)
                if dd == "property" or (dd and dd.endswith(".setter")):
                    return True
    return False


def _field_classes(tree):
    for m, c in frontend_classes(tree):
        fields = _init_fields(c)
        if fields:
            yield m, c, fields, util.methods_of(c)


@rule(
    "FE.fields.blank",
    props=("C11", "C12", "C13", "C14", "C15", "C16"),
    floor=30,
    family="SIB",
    desc="per state-owning frontend class: every field initialised in __init__ is also set by _blank_copy "
    "(blank_copy/branch/split/merge/combine hand out complete objects)",
)
def fe_fields_blank(R):
    n_classes = 0
    for m, c, fields, ms in _field_classes(R.tree):
        if c.name == "ModelCache":
            continue
        n_classes += 1
        bc = ms.get("_blank_copy")
        blank = _assigned(bc, util.func_param(bc, 1)) if bc is not None else {}
        for f in sorted(fields):
            R.check(
                f in blank,
                m,
                bc or c,
                f"{c.name}._blank_copy sets field {f}",
                f"{c.name}.__init__ initialises self.{f} but _blank_copy never sets it: blank_copy()/branch()/"
                f"split()/merge() hand out an object without it",
                construct=f"{c.name}.{f} missing in _blank_copy",
            )
            # a blank copy has the parent's configuration but none of its state: containers start empty
            if f in blank and util.may_be_mutable_container(fields[f]):
                for kind, node, val in blank[f]:
                    if kind != "assign":
                        continue
                    fresh_empty = (
                        (isinstance(val, (ast.List, ast.Set, ast.Tuple)) and not val.elts)
                        or (isinstance(val, ast.Dict) and not val.keys)
                        or (isinstance(val, ast.Call) and not val.args and not val.keywords and util.is_fresh_container(val))
                    )
                    R.check(
                        fresh_empty,
                        m,
                        node,
                        f"{c.name}._blank_copy: container field {f} starts empty",
                        f"{c.name}._blank_copy initialises the container field {f} with `{norm(val)}`: a blank copy "
                        f"(used by merge/combine/split) must not inherit facts that were derived from the parent's constraints",
                    )
            # ... and a field that __init__ starts at a constant (not at a parameter: that is state, not configuration)
            # starts at a constant again, never at the parent's value
            if f in blank and isinstance(fields[f], ast.Constant):
                for kind, node, val in blank[f]:
                    if kind != "assign" or val is None:
                        continue
                    inherits = any(isinstance(x, ast.Name) and x.id == "self" for x in ast.walk(val))
                    R.check(
                        not inherits,
                        m,
                        node,
                        f"{c.name}._blank_copy: state field {f} starts blank",
                        f"{c.name}._blank_copy gives the blank copy the parent's {f} (`{norm(val)}`), a field that __init__ starts at "
                        f"`{norm(fields[f])}`: split() / merge() / combine() / blank_copy() hand out solvers that hold other "
                        f"constraints, and what was derived from the parent's does not hold for them (a solver split off an "
                        f"unsatisfiable one reported the parent's unsat core although it is satisfiable)",
                        construct=f"{c.name}._blank_copy: {f} inherited from the parent",
                    )
    R.need(n_classes >= 9, f"only {n_classes} state-owning frontend classes found")
    R.extra["state_owning_classes"] = n_classes


@rule(
    "FE.fields.pickle",
    props=("C18",),
    floor=30,
    family="SIB",
    desc="per state-owning class: every field initialised in __init__ is restored (or rebuilt) by __setstate__",
)
def fe_fields_pickle(R):
    n_classes = 0
    for m, c, fields, ms in _field_classes(R.tree):
        n_classes += 1
        setstate = _assigned(ms.get("__setstate__"), "self")
        anchor = ms.get("__setstate__") or c
        for f in sorted(fields):
            R.check(
                f in setstate,
                m,
                anchor,
                f"{c.name}.__setstate__ restores field {f}",
                f"{c.name}.__init__ initialises self.{f} but __setstate__ never restores it: an unpickled "
                f"solver lacks the attribute",
                construct=f"{c.name}.{f} missing in __setstate__",
            )
    R.need(n_classes >= 10, f"only {n_classes} state-owning classes found")


@rule(
    "FE.fields.cache",
    props=("C11", "C12"),
    floor=12,
    family="SIB",
    desc="ModelCacheMixin: every cache field is reset by the invalidation block of _add and every container "
    "cache is merged by update()",
)
def fe_fields_cache(R):
    tree = R.tree
    mc = tree.mod("claripy/frontend/mixin/model_cache_mixin.py")
    mcm = tree.cls(mc.path, "ModelCacheMixin")
    fields = _init_fields(mcm)
    ms = util.methods_of(mcm)
    add = ms.get("_add")
    R.need(add is not None, "ModelCacheMixin._add not found")
    written = set()
    for a, kind, node, val in util.attr_writes_deep(add, ms, "self"):  # incl. private helpers _add calls
        if kind == "assign" or (kind == "mutate" and node.func.attr == "clear"):
            written.add(a)
    for f in sorted(fields):
        R.check(
            f in written,
            mc,
            add,
            f"ModelCacheMixin._add invalidation resets {f}",
            f"cache field {f} is not reset when added constraints invalidate cached models",
            construct=f"ModelCacheMixin._add does not reset {f}",
        )
    upd = ms.get("update")
    R.need(upd is not None, "ModelCacheMixin.update not found")
    merged = {a for a, kind, node, val in util.attr_writes(upd, "self") if kind == "mutate"}
    for f, v in sorted(fields.items()):
        if util.may_be_mutable_container(v):
            R.check(
                f in merged,
                mc,
                upd,
                f"ModelCacheMixin.update merges {f}",
                f"container cache field {f} is not merged by update() (results found by a split-off child are lost)",
                construct=f"ModelCacheMixin.update does not merge {f}",
            )


def _super_calls(fn, name):
    """(kind, call-node, base-text) for calls continuing the chain of method `name`."""
    out = []
    for call in (n for n in ast.walk(fn) if isinstance(n, ast.Call)):
        if util.is_super_call(call, name):
            out.append(("super", call, None))
        else:
            e = util.explicit_base_call(call, name)
            if e:
                out.append(("explicit", call, e[0]))
    return out


def _conditional(call, fn):
    """Is the call nested under a conditional / loop / handler inside fn?"""
    p = getattr(call, "_parent", None)
    while p is not None and p is not fn:
        if isinstance(p, (ast.If, ast.For, ast.While, ast.IfExp, ast.ExceptHandler, ast.BoolOp, ast.Match)):
            return True
        if isinstance(p, ast.Try):
            # inside try body counts as unconditional for our purpose only if no handler swallows; be strict
            return True
        p = getattr(p, "_parent", None)
    return False


@rule(
    "FE.super",
    props=("C14", "C18", "C11", "C12", "C13"),
    floor=150,
    family="SIB",
    desc="for each solver class (C3 MRO from source) and each state-plumbing method, every definer calls the "
    "next definer in that MRO exactly once, unconditionally",
)
def fe_super(R):
    tree = R.tree
    links = 0
    for m, c in solver_classes(tree):
        mro = [x for x in tree.mro(c) if isinstance(x, ast.ClassDef)]
        R.need(len(mro) >= 3, f"MRO of {c.name} unexpectedly short")
        for meth in PLUMBING:
            definers = [(k, util.methods_of(k)[meth]) for k in mro if meth in util.methods_of(k)]
            for i, (k, fn) in enumerate(definers):
                rest = definers[i + 1 :]
                if not rest:
                    continue
                links += 1
                km = k._module
                if all(util.is_noop_body(f2) for _, f2 in rest):
                    R.ok(km, fn, f"{c.name}: {k.name}.{meth} is last effective definer", nontrivial=False)
                    continue
                nxt = rest[0][0]
                calls = _super_calls(fn, meth)
                what = f"in MRO of {c.name}: {k.name}.{meth} -> {nxt.name}.{meth}"
                cons = f"{k.name}.{meth} -> next definer {nxt.name}.{meth} (MRO of {c.name})"
                if len(calls) != 1:
                    R.bad(
                        km,
                        fn,
                        f"{what}: expected exactly one chained call, found {len(calls)} "
                        f"(state of the classes after {k.name} is "
                        f"{'not initialised/copied/restored' if not calls else 'handled twice'})",
                        construct=cons,
                    )
                    continue
                kind, call, base = calls[0]
                if _conditional(call, fn):
                    R.bad(km, fn, f"{what}: the chained call is conditional", construct=cons)
                    continue
                if kind == "explicit":
                    bname = base.split(".")[-1]
                    if bname != nxt.name:
                        R.bad(
                            km,
                            fn,
                            f"{what}: explicit call to {base}.{meth} skips {nxt.name}.{meth}",
                            construct=cons,
                        )
                        continue
                R.ok(km, fn, what)
    R.extra["mro_links"] = links


# fields whose absence from _copy is deliberate, with the reason
COPY_EXEMPT = {
    ("ConstrainedFrontend", "_finalized"): "set on both sides by finalize() at the end of _copy",
    ("CompositeFrontend", "_owned_solvers"): "copy-on-write: neither side owns the shared children after a branch",
    ("FullFrontend", "_tls"): "fresh thread-local from _blank_copy; _copy stores the shared native solver into it",
}

SHARED_OK = {
    ("FullFrontend", "_tls"): "native solver shared until first divergent add (rule FE.z3cow protects it)",
}


# caches whose blank value means "not known" to every reader, independently of the other fields: a branch that
# does not inherit them answers the same, only later (they still must not be *aliased* when mutable)
DROPPABLE_CACHES = {
    ("SatCacheMixin", "_cached_satness"): "None = unknown, the next query asks the solver",
    ("SatCacheMixin", "_cached_unsat_core"): "None = not cached; unsat_core() then checks the native solver and reads its core (rule C16.checked)",
}


@rule(
    "FE.copyalias",
    props=("C14", "C11", "C12", "C13"),
    floor=25,
    family="TS",
    desc="_copy gives the child fresh containers / deep-branched sub-frontends, never a bare alias of the "
    "parent's mutable state, and carries every stateful field",
)
def fe_copyalias(R):
    tree = R.tree
    n = 0
    for m, c in frontend_classes(tree):
        ms = util.methods_of(c)
        if "_copy" not in ms:
            continue
        fn = ms["_copy"]
        recv = util.func_param(fn, 1)
        R.need(recv is not None, f"{c.name}._copy has no child parameter")
        fields = _init_fields(c)
        blank = _assigned(ms.get("_blank_copy"), util.func_param(ms["_blank_copy"], 1)) if "_blank_copy" in ms else {}
        copy = _assigned(fn, recv)
        subfrontends = set()
        for f, v in fields.items():
            if "frontend" in f and not f.startswith("_template"):
                subfrontends.add(f)
        # 1. no bare alias of a mutable container
        for f, entries in sorted(copy.items()):
            for kind, node, val in entries:
                if kind != "assign":
                    continue
                n += 1
                init = fields.get(f)
                mutable = init is not None and util.may_be_mutable_container(init)
                src = util.recv_attr(val, "self")
                if mutable and not util.is_fresh_container(val):
                    R.bad(
                        m,
                        node,
                        f"{c.name}._copy: field {f} is a mutable container (initialised as `{norm(init)}`) but the "
                        f"child receives `{norm(val)}`, not a fresh copy: later mutation on one branch is visible "
                        f"on the other",
                    )
                elif f in subfrontends and src is not None:
                    R.bad(m, node, f"{c.name}._copy: sub-frontend {f} is aliased, not branched")
                else:
                    R.ok(m, node, f"{c.name}._copy: child.{f} gets an independent value")
        # 2. every stateful field is carried
        for f, init in sorted(fields.items()):
            if f in copy:
                continue
            n += 1
            if (c.name, f) in COPY_EXEMPT:
                R.ok(m, fn, f"{c.name}.{f} not copied: {COPY_EXEMPT[(c.name, f)]}", nontrivial=False)
                continue
            if (c.name, f) in DROPPABLE_CACHES:
                R.ok(m, fn, f"{c.name}.{f} may be left blank in a branch: {DROPPABLE_CACHES[(c.name, f)]}", nontrivial=False)
                continue
            if f in subfrontends:
                # must be deep-copied via self.F._copy(c.F)
                ok = False
                for call in (x for x in ast.walk(fn) if isinstance(x, ast.Call)):
                    if (
                        isinstance(call.func, ast.Attribute)
                        and call.func.attr == "_copy"
                        and util.recv_attr(call.func.value, "self") == f
                        and call.args
                        and util.recv_attr(call.args[0], recv) == f
                    ):
                        ok = True
                R.check(
                    ok,
                    m,
                    fn,
                    f"{c.name}._copy branches sub-frontend {f} via self.{f}._copy({recv}.{f})",
                    f"{c.name}._copy does not carry the state of sub-frontend {f} into the child",
                    construct=f"{c.name}._copy missing self.{f}._copy({recv}.{f})",
                )
                continue
            # configuration copied by _blank_copy from self is fine
            b = blank.get(f)
            from_self = b and any(
                kind == "assign" and any(a == f or True for a, _ in util.attr_reads(val, "self")) and _mentions_self(val)
                for kind, node, val in b
            )
            R.check(
                bool(from_self),
                m,
                fn,
                f"{c.name}.{f} is configuration copied by _blank_copy from the parent",
                f"{c.name}._copy does not carry field {f} (and _blank_copy resets it): a branch forgets this state",
                construct=f"{c.name}._copy does not carry {f}",
            )
    R.extra["copy_assignments"] = n


def _mentions_self(val):
    return any(isinstance(x, ast.Name) and x.id == "self" for x in ast.walk(val))


@rule(
    "FE.copytarget",
    props=("C14",),
    floor=10,
    family="TS",
    desc="_copy writes to the child only; a write to the parent is allowed only for the copy-on-write ownership "
    "reset or when provably a no-op",
)
def fe_copytarget(R):
    tree = R.tree
    for m, c in frontend_classes(tree):
        ms = util.methods_of(c)
        if "_copy" not in ms:
            continue
        fn = ms["_copy"]
        recv = util.func_param(fn, 1)
        blank = _assigned(ms.get("_blank_copy"), util.func_param(ms["_blank_copy"], 1)) if "_blank_copy" in ms else {}
        wrote = False
        for a, kind, node, val in util.attr_writes(fn, "self"):
            wrote = True
            if c.name == "CompositeFrontend" and a == "_owned_solvers" and util.is_fresh_container(val):
                R.ok(m, node, "copy-on-write: parent drops ownership of shared children")
                continue
            # provable no-op: self.F = c.F where _blank_copy did c.F = self.F
            if kind == "assign" and util.recv_attr(val, recv) == a:
                b = blank.get(a, [])
                if any(k == "assign" and util.recv_attr(v, "self") == a for k, _, v in b):
                    R.ok(m, node, f"write to parent is a no-op (child.{a} was set from parent.{a} by _blank_copy)")
                    continue
            R.bad(m, node, f"{c.name}._copy modifies the parent's field {a}: branching must not change the parent")
        if not wrote:
            R.ok(m, fn, f"{c.name}._copy writes only to the child")


@rule(
    "FE.pickleshape",
    props=("C18",),
    floor=12,
    family="SIB",
    desc="__getstate__ returns a tuple ending in super().__getstate__(); __setstate__ unpacks the same fields in "
    "the same order and hands the last element to super().__setstate__",
)
def fe_pickleshape(R):
    tree = R.tree
    for m, c in frontend_classes(tree):
        ms = util.methods_of(c)
        gs, ss = ms.get("__getstate__"), ms.get("__setstate__")
        if gs is None and ss is None:
            continue
        if c.name == "Frontend":
            R.ok(m, gs, "root of the pickle chain", nontrivial=False)
            continue
        if c.name == "ModelCache":
            continue
        if gs is None:
            # pass-through: super().__setstate__(param)
            p = util.func_param(ss, 1)
            ok = any(
                util.is_super_call(call, "__setstate__")
                and len(call.args) == 1
                and isinstance(call.args[0], ast.Name)
                and call.args[0].id == p
                for call in ast.walk(ss)
                if isinstance(call, ast.Call)
            )
            R.check(
                ok,
                m,
                ss,
                f"{c.name}.__setstate__ passes its state through unchanged",
                f"{c.name} has no __getstate__ but its __setstate__ does not pass the state unchanged to super()",
            )
            continue
        R.check(ss is not None, m, gs, f"{c.name} defines both pickle methods", f"{c.name} has __getstate__ only")
        if ss is None:
            continue
        rets = [n for n in ast.walk(gs) if isinstance(n, ast.Return)]
        if len(rets) != 1 or not isinstance(rets[0].value, ast.Tuple):
            R.bad(m, gs, f"{c.name}.__getstate__ does not return a single tuple literal")
            continue
        elts = rets[0].value.elts
        last = elts[-1]
        R.check(
            isinstance(last, ast.Call) and util.is_super_call(last, "__getstate__"),
            m,
            rets[0],
            f"{c.name}.__getstate__ ends with super().__getstate__()",
            f"{c.name}.__getstate__ does not end with super().__getstate__(): base-class state is not pickled",
        )
        # unpacking in __setstate__
        p = util.func_param(ss, 1)
        unpack = None
        for n in ast.walk(ss):
            if isinstance(n, ast.Assign) and isinstance(n.value, ast.Name) and n.value.id == p:
                if isinstance(n.targets[0], (ast.Tuple, ast.List)):
                    unpack = n
        if unpack is None:
            R.bad(m, ss, f"{c.name}.__setstate__ does not unpack its state tuple")
            continue
        tg = unpack.targets[0].elts
        if not R.check(
            len(tg) == len(elts),
            m,
            unpack,
            f"{c.name}: {len(elts)} pickled elements, {len(tg)} unpacked",
            f"{c.name}.__getstate__ returns {len(elts)} elements but __setstate__ unpacks {len(tg)}",
        ):
            continue

        def gfield(e):
            for x in ast.walk(e):
                a = util.recv_attr(x, "self")
                if a:
                    return a
            return None

        def sfield(t):
            a = util.recv_attr(t, "self")
            if a:
                return a
            if isinstance(t, ast.Name):
                # local later used to set a self field
                for a2, kind, node, val in util.attr_writes(ss, "self"):
                    if kind == "assign" and node is not unpack and any(
                        isinstance(x, ast.Name) and x.id == t.id for x in ast.walk(val)
                    ):
                        return a2
                return "local:" + t.id
            return None

        for i, (e, t) in enumerate(zip(elts[:-1], tg[:-1])):
            gf, sf = gfield(e), sfield(t)
            R.check(
                gf is not None and gf == sf,
                m,
                unpack,
                f"{c.name} pickle slot {i}: {gf} -> {sf}",
                f"{c.name} pickle slot {i}: __getstate__ stores {gf} but __setstate__ restores it into {sf}",
                construct=f"{c.name} pickle slot {i}: {gf} -> {sf}",
            )
        lt = tg[-1]
        ok = isinstance(lt, ast.Name) and any(
            util.is_super_call(call, "__setstate__")
            and len(call.args) == 1
            and isinstance(call.args[0], ast.Name)
            and call.args[0].id == lt.id
            for call in ast.walk(ss)
            if isinstance(call, ast.Call)
        )
        R.check(
            ok,
            m,
            unpack,
            f"{c.name}.__setstate__ hands the base state to super().__setstate__",
            f"{c.name}.__setstate__ does not hand the last element to super().__setstate__",
        )
