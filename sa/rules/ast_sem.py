"""Floats (C02), strings (C03), width table (C05.length), Z3 round trip (C09), truth checks (C10)."""

from __future__ import annotations

import ast

from .. import guards, refs, util
from ..core import AnalysisError, FuncTypes, Sym, dotted, norm, positional_params, walk_no_nested
from ..report import rule
from .ast_tables import dispatch, registry

Z3 = "claripy/backends/backend_z3.py"
CFP = "claripy/backends/backend_concrete/fp.py"
CSTR = "claripy/backends/backend_concrete/strings.py"
FP = "claripy/fp.py"
SIMP = "claripy/simplifications.py"
BK = "claripy/backends/backend.py"
BC = "claripy/backends/backend_concrete/backend_concrete.py"
OPS = "claripy/operations.py"


def _calls(fn):
    return [n for n in ast.walk(fn) if isinstance(n, ast.Call)]


# ----------------------------------------------------------------------------- C02


@rule(
    "C02.rmdec",
    props=("C02",),
    floor=5,
    family="TAB",
    desc="RM.pydecimal_equivalent_rounding_mode maps each of the five rounding modes to the decimal mode with "
    "the same meaning (ties-away is ROUND_HALF_UP, not ROUND_UP)",
)
def c02_rmdec(R):
    tree = R.tree
    m = tree.mod(FP)
    fn = tree.func(FP, "RM.pydecimal_equivalent_rounding_mode")
    dicts = [n for n in ast.walk(fn) if isinstance(n, ast.Dict)]
    if not dicts:
        # the table may live at module level: `return TABLE[self]`
        for sub in (x for x in ast.walk(fn) if isinstance(x, ast.Subscript) and isinstance(x.value, ast.Name)):
            for st in m.tree.body:
                if isinstance(st, ast.Assign) and any(isinstance(t, ast.Name) and t.id == sub.value.id for t in st.targets) and isinstance(st.value, ast.Dict):
                    dicts.append(st.value)
    R.need(len(dicts) == 1, "pydecimal_equivalent_rounding_mode: mapping literal not found")
    got = {}
    for k, v in zip(dicts[0].keys, dicts[0].values):
        got[(dotted(k) or "").split(".")[-1]] = (dotted(v) or "").split(".")[-1]
    for member, want in sorted(refs.RM_DECIMAL.items()):
        R.check(
            got.get(member) == want,
            m,
            dicts[0],
            f"{member} -> decimal.{want}",
            f"rounding mode {member} is mapped to decimal.{got.get(member)}; the decimal mode with that meaning is "
            f"{want} (float->integer conversions in that mode fold to the wrong integer)",
            construct=f"{member}: decimal.{got.get(member)}",
        )
    cls = tree.cls(FP, "RM")
    members = [
        st.targets[0].id
        for st in cls.body
        if isinstance(st, ast.Assign) and isinstance(st.targets[0], ast.Name) and st.targets[0].id.startswith("RM_")
    ]
    R.check(
        set(members) == set(refs.RM_DECIMAL),
        m,
        cls,
        "RM has exactly the five IEEE rounding modes",
        f"RM members {sorted(members)} differ from the five IEEE modes",
        construct="RM members",
    )


@rule(
    "C02.rmz3",
    props=("C02", "C09"),
    floor=10,
    family="TAB",
    desc="BackendZ3._convert maps each RM member to the Z3 rounding-mode constructor of the same meaning, and "
    "op_map maps the five Z3 rounding-mode kinds back to the RM enum values (round trip closes)",
)
def c02_rmz3(R):
    tree = R.tree
    m = tree.mod(Z3)
    fn = tree.func(Z3, "BackendZ3._convert")
    seen = {}
    subject = [a.arg for a in fn.args.args if a.arg != "self"][0]
    # the arms of the dispatch on the object, whether written as `if obj == RM.X` or as match/case
    for vtxt, stmts in sorted(util.value_arms(fn, subject).items()):
        member = vtxt.split(".")[-1]
        if not member.startswith("RM_"):
            continue
        for st in stmts[:1]:
            ctor = [
                (dotted(c.func) or "").split(".")[-1] for s_ in stmts for c in ast.walk(s_) if isinstance(c, ast.Call) and "Z3_mk_fpa_round" in (dotted(c.func) or "")
            ]
            seen[member] = ctor[0] if ctor else None
            R.check(
                seen[member] == refs.RM_Z3.get(member),
                m,
                st,
                f"{member} -> {refs.RM_Z3.get(member)}",
                f"rounding mode {member} is translated with {seen[member]}; expected {refs.RM_Z3.get(member)}",
            )
    for member in refs.RM_Z3:
        R.check(member in seen, m, fn, f"_convert handles {member}", f"_convert has no arm for {member}",
                construct=f"_convert arm {member}")
    op_map = tree.const(m, "op_map")
    values = {}
    cls = tree.cls(FP, "RM")
    for st in cls.body:
        if isinstance(st, ast.Assign) and isinstance(st.targets[0], ast.Name) and isinstance(st.value, ast.Constant):
            values[st.targets[0].id] = st.value.value
    anchor = next(s for s in m.tree.body if isinstance(s, ast.Assign) and ast.unparse(s.targets[0]) == "op_map")
    for kind, member in sorted(refs.RM_Z3_KIND.items()):
        R.check(
            op_map.get(kind) == values.get(member),
            m,
            anchor,
            f"op_map[{kind}] is the value of RM.{member}",
            f"op_map[{kind!r}] = {op_map.get(kind)!r} but RM.{member}.value = {values.get(member)!r}: a rounding mode "
            f"changes (or abstraction fails) on the round trip through Z3",
            construct=f"op_map[{kind!r}] = {op_map.get(kind)!r}",
        )


@rule(
    "C02.cmp",
    props=("C02",),
    floor=12,
    family="TAB",
    desc="concrete float comparisons, predicates, abs and neg delegate to the Python operator / math predicate of "
    "the same meaning with the operands in order; the concrete dispatch reaches them",
)
def c02_cmp(R):
    tree = R.tree
    m = tree.mod(CFP)
    d = dispatch(tree, "concrete")
    want = {
        "fpLT": ast.Lt, "fpLEQ": ast.LtE, "fpGT": ast.Gt, "fpGEQ": ast.GtE, "fpEQ": ast.Eq, "fpNEQ": ast.NotEq,
    }
    for op, cmpop in want.items():
        h = d.handler(op)
        R.need(h.fn is not None, f"concrete handler for {op} missing")
        fn = h.fn
        ps = positional_params(fn)
        ret = next((n.value for n in walk_no_nested(fn) if isinstance(n, ast.Return)), None)
        ok = (
            isinstance(ret, ast.Compare)
            and isinstance(ret.ops[0], cmpop)
            and ast.unparse(ret.left) == ps[0]
            and ast.unparse(ret.comparators[0]) == ps[1]
        )
        R.check(
            ok,
            m,
            fn,
            f"concrete {op}: {ps[0]} {cmpop.__name__} {ps[1]}",
            f"concrete {op} returns `{norm(ret) if ret is not None else None}`",
            construct=f"{op}: {norm(ret) if ret is not None else None}",
        )
    # the FPV dunders compare .value with the same operator
    fpv = tree.cls(CFP, "FPV")
    own = util.methods_of(fpv)
    for dn, cmpop in (("__lt__", ast.Lt), ("__le__", ast.LtE), ("__gt__", ast.Gt), ("__ge__", ast.GtE), ("__eq__", ast.Eq), ("__ne__", ast.NotEq)):
        fn = own.get(dn)
        R.need(fn is not None, f"FPV.{dn} missing")
        ret = next((n.value for n in walk_no_nested(fn) if isinstance(n, ast.Return)), None)
        ps = positional_params(fn)
        ok = (
            isinstance(ret, ast.Compare)
            and isinstance(ret.ops[0], cmpop)
            and ast.unparse(ret.left) == f"{ps[0]}.value"
            and ast.unparse(ret.comparators[0]) == f"{ps[1]}.value"
        )
        R.check(ok, m, fn, f"FPV.{dn} compares the two values with the same operator",
                f"FPV.{dn} returns `{norm(ret) if ret is not None else None}`")
    for op, pred in (("fpIsNaN", "math.isnan"), ("fpIsInf", "math.isinf")):
        fn = d.handler(op).fn
        calls = [dotted(c.func) for c in _calls(fn)]
        R.check(pred in calls, m, fn, f"concrete {op} uses {pred}", f"concrete {op} uses {calls}", construct=f"{op}: {calls}")
    for op, sym in (("fpAbs", "abs"), ("fpNeg", ast.USub)):
        fn = d.handler(op).fn
        ret = next((n.value for n in walk_no_nested(fn) if isinstance(n, ast.Return)), None)
        ok = (isinstance(ret, ast.Call) and dotted(ret.func) == "abs") if sym == "abs" else (
            isinstance(ret, ast.UnaryOp) and isinstance(ret.op, ast.USub)
        )
        R.check(ok, m, fn, f"concrete {op} is {'abs(x)' if sym == 'abs' else '-x'}", f"concrete {op} returns `{norm(ret)}`")
    for op, pyop in (("fpAdd", ast.Add), ("fpSub", ast.Sub), ("fpMul", ast.Mult), ("fpDiv", ast.Div)):
        fn = d.handler(op).fn
        ps = positional_params(fn)
        ret = next((n.value for n in walk_no_nested(fn) if isinstance(n, ast.Return)), None)
        ok = isinstance(ret, ast.BinOp) and isinstance(ret.op, pyop) and ast.unparse(ret.left) == ps[1] and ast.unparse(ret.right) == ps[2]
        R.check(ok, m, fn, f"concrete {op}: {ps[1]} {pyop.__name__} {ps[2]}", f"concrete {op} returns `{norm(ret)}`",
                construct=f"{op}: {norm(ret)}")


@rule(
    "C02.rmuse",
    props=("C02",),
    floor=8,
    family="DEP",
    desc="every concrete handler of an op that takes a rounding mode either uses that parameter in the value it "
    "returns or refuses to fold when it is not the default (so the solver decides)",
)
def c02_rmuse(R):
    tree = R.tree
    reg = registry(tree)
    d = dispatch(tree, "concrete")
    n = 0
    for name, decls in sorted(reg.ops_by_name().items()):
        takes_rm = any(isinstance(dd.arg_types, tuple) and dd.arg_types and dd.arg_types[0] == "RM" for dd in decls) or name == "fpToFP"
        if not takes_rm:
            continue
        h = d.handler(name)
        if h.fn is None:
            continue
        fn = h.fn
        ps = positional_params(fn)
        rm = ps[0]
        n += 1
        used = False
        refuses = False
        # polymorphic handler (fpToFP): judge each arm in which the first argument *is* a rounding mode.  An arm is a
        # value-returning path together with the isinstance() facts that hold on it (compound test or nested ifs)
        arm_rets = []
        for r in (x for x in walk_no_nested(fn) if isinstance(x, ast.Return) and x.value is not None):
            tests = sorted(
                ast.unparse(t)
                for t, pol in guards.guards_of(r)
                if pol and isinstance(t, ast.Call) and dotted(t.func) == "isinstance"
            )
            if f"isinstance({rm}, RM)" in tests:
                arm_rets.append((r, tests))
        def no_rounding(t, pol=True):
            """the fact says that no rounding happens on this path: the mode is the default one (the native arithmetic
            rounds to nearest even), or an operand is a special value (NaN, infinity, zero) and the result is exact"""
            if isinstance(t, ast.UnaryOp) and isinstance(t.op, ast.Not):
                return no_rounding(t.operand, not pol)
            if isinstance(t, ast.BoolOp):
                disj = isinstance(t.op, ast.Or) == pol  # a true `or` / a false `and`: every alternative has to qualify
                rs = [no_rounding(v, pol) for v in t.values]
                return all(rs) if disj else any(rs)
            if isinstance(t, ast.Call) and (dotted(t.func) or "").split(".")[-1] in ("isfinite", "isnan", "isinf"):
                return (dotted(t.func) or "").endswith("isfinite") != pol or not (dotted(t.func) or "").endswith("isfinite")
            if isinstance(t, ast.Compare) and len(t.ops) == 1:
                a_, o_, b_ = t.left, t.ops[0], t.comparators[0]
                txt = (ast.unparse(a_), ast.unparse(b_))
                if rm in txt and any("NearestTiesEven" in x or x.endswith("RM.default()") for x in txt):
                    return isinstance(o_, (ast.Eq, ast.Is)) == pol
                if isinstance(b_, ast.Constant) and b_.value == 0 and isinstance(o_, (ast.Eq, ast.LtE, ast.Lt)):
                    return pol
            return False

        def judged(r):
            if util.depends_on(r.value, {rm}, fn):
                return True
            # the answer given when the conversion itself failed (NaN, infinity: C04.fpint) involves no rounding
            par = getattr(r, "_parent", None)
            while par is not None and par is not fn:
                if isinstance(par, ast.ExceptHandler):
                    return True
                par = getattr(par, "_parent", None)
            return any(no_rounding(t, pol) for t, pol in guards.guards_of(r))

        if arm_rets:
            for r, tests in arm_rets:
                arm_txt = " and ".join(tests)
                R.check(
                    judged(r),
                    fn._module,
                    r,
                    f"concrete {name} honours its rounding mode in the arm `{arm_txt}`",
                    f"concrete {name}: the arm `{arm_txt}` converts without reading the rounding mode `{rm}`: the "
                    f"conversion folds with round-to-nearest-even whatever mode the caller wrote",
                    construct=f"{fn.name} arm `{arm_txt}` ignores rounding mode",
                )
            continue
        for r in (x for x in ast.walk(fn) if isinstance(x, ast.Raise)):
            if "BackendError" in ast.unparse(r) and util.depends_on(r, {rm}, None):
                refuses = True
            gs = guards.guards_of(r)
            if "BackendError" in ast.unparse(r) and any(rm in ast.unparse(t) for t, _ in gs):
                refuses = True
        rets = [x for x in walk_no_nested(fn) if isinstance(x, ast.Return) and x.value is not None]
        loose = [r for r in rets if not judged(r)]
        # a handler that refuses non-default modes may fold the default one
        used = bool(rets) and not loose
        R.check(
            used or refuses,
            fn._module,
            loose[0] if loose else fn,
            f"concrete {name} honours its rounding mode `{rm}`",
            f"concrete {name} ({fn.name}) returns `{norm(loose[0].value)[:60] if loose else ''}` on a path where the rounding-mode parameter "
            f"`{rm}` is neither read nor known to be the default (and no operand is known to be a special value): it folds as if the "
            f"mode were round-to-nearest-even whatever the caller wrote, while the solver honours the mode",
            construct=f"{fn.name} ignores rounding mode `{rm}`",
        )
    R.need(n >= 8, f"only {n} rounding-mode ops found")


@rule(
    "C02.cancel",
    props=("C02",),
    floor=3,
    family="GRD",
    desc="fpToFP(fpToIEEEBV(x)) is cancelled only under the sort/width agreement guard, and fpToIEEEBV(fpToFP(..)) "
    "only for the two-argument (bit-pattern) form",
)
def c02_cancel(R):
    tree = R.tree
    m = tree.mod(SIMP)
    fn = tree.func(SIMP, "fptofp_simplifier")
    rets = [r for r in walk_no_nested(fn) if isinstance(r, ast.Return) and r.value is not None and not (isinstance(r.value, ast.Constant))]
    R.need(rets, "fptofp_simplifier returns nothing")
    for r in rets:
        facts = guards.holds(r)  # guard clauses (`if len(args) != 2: return None`) read as the facts they leave behind
        j = " ".join(facts)
        ok = (
            "len(args) == 2" in j
            and "fpToIEEEBV" in j
            and "FSORT_FLOAT" in j
            and "FSORT_DOUBLE" in j
            and "== 32" in j
            and "== 64" in j
        )
        R.check(
            ok,
            m,
            r,
            "cancellation only when the target sort is the source float's own sort",
            f"fpToFP(fpToIEEEBV(x), sort) -> x is applied under `{facts}`: the (FLOAT,32)/(DOUBLE,64) agreement "
            f"guard is incomplete, so a value would change sort without conversion",
        )
        # pairing FLOAT<->32 and DOUBLE<->64 inside the disjunction
        for t, pol in guards.guards_of(r):
            if isinstance(t, ast.BoolOp) and isinstance(t.op, ast.Or):
                for v in t.values:
                    s = ast.unparse(v)
                    R.check(
                        ("FSORT_FLOAT" in s and "32" in s and "64" not in s) or ("FSORT_DOUBLE" in s and "64" in s and "32" not in s),
                        m,
                        v,
                        "each disjunct pairs a sort with its own width",
                        f"disjunct `{s}` pairs a sort with the wrong width",
                    )
    fn2 = tree.func(SIMP, "fptobv_simplifier")
    for r in (r for r in walk_no_nested(fn2) if isinstance(r, ast.Return) and r.value is not None and not isinstance(r.value, ast.Constant)):
        facts = " ".join(ast.unparse(t) for t, pol in guards.guards_of(r) if pol)
        R.check(
            "fpToFP" in facts and "len(the_fp.args) == 2" in facts,
            m,
            r,
            "fpToIEEEBV(fpToFP(bv, sort)) -> bv only for the bit-pattern form",
            f"fpToIEEEBV(fpToFP(...)) is cancelled under `{facts}`: the 3-argument (rounding conversion) form must "
            f"not be cancelled",
        )
        R.check(ast.unparse(r.value) == "the_fp.args[0]", m, r, "returns the original bit-vector",
                f"returns `{norm(r.value)}`")


# ----------------------------------------------------------------------------- C05.length


def _linear(e, params):
    """Linear form of a width expression over the function's parameters."""
    if isinstance(e, ast.Constant) and isinstance(e.value, int):
        return {"1": e.value} if e.value else {}
    if isinstance(e, ast.Name) and e.id in params:
        return {f"arg{params.index(e.id)}": 1}
    if isinstance(e, ast.Attribute) and e.attr == "length":
        b = e.value
        if isinstance(b, ast.Name) and b.id in params:
            return {f"arg{params.index(b.id)}.length": 1}
        if isinstance(b, ast.Subscript) and isinstance(b.value, ast.Name) and isinstance(b.slice, ast.Constant):
            return {f"arg{b.slice.value}.length": 1}
    if isinstance(e, ast.BinOp) and isinstance(e.op, (ast.Add, ast.Sub)):
        a, b = _linear(e.left, params), _linear(e.right, params)
        if a is None or b is None:
            return None
        out = dict(a)
        for k, v in b.items():
            out[k] = out.get(k, 0) + (v if isinstance(e.op, ast.Add) else -v)
        return {k: v for k, v in out.items() if v}
    return None


def _calc_body(tree, mod, node):
    """(params, returned expr) of a calc_length argument (lambda or named function)."""
    if isinstance(node, ast.Lambda):
        a = node.args
        ps = [x.arg for x in a.posonlyargs + a.args]
        if a.vararg:
            ps.append("*" + a.vararg.arg)
        return ps, node.body
    r = tree.resolve_expr(mod, node)
    if r and r[0] == "func":
        fn = r[1]
        ps = positional_params(fn)
        if fn.args.vararg:
            ps.append("*" + fn.args.vararg.arg)
        rets = [x.value for x in walk_no_nested(fn) if isinstance(x, ast.Return)]
        return ps, rets
    return None, None


@rule(
    "C05.length",
    props=("C05",),
    floor=90,
    family="TAB",
    desc="every op that returns a sized value declares a width function and it is the one the op's meaning "
    "requires (same as operand / high-low+1 / sum of parts / original+extension / size argument / constant 64); "
    "Bool- and String-valued ops declare none",
)
def c05_length(R):
    tree = R.tree
    reg = registry(tree)
    same0 = {
        "__add__", "__sub__", "__mul__", "__floordiv__", "__mod__", "__and__", "__or__", "__xor__", "__lshift__",
        "__rshift__", "__invert__", "__neg__", "SDiv", "SMod", "LShR", "RotateLeft", "RotateRight", "Reverse",
        "union", "widen", "intersection", "fpAbs", "fpNeg", "fpToIEEEBV",
    }
    for d in reg.decls:
        m = tree.mod(d.path)
        sized = d.ret in ("BV", "FP")
        if not sized:
            R.check(
                d.calc_length is None,
                m,
                d.node,
                f"{d.name} -> {d.ret}: no width",
                f"op {d.name} returns {d.ret} but declares a width function",
            )
            continue
        if d.calc_length is None:
            R.bad(m, d.node, f"op {d.name} returns a sized {d.ret} but declares no calc_length: its nodes report length None")
            continue
        ps, body = _calc_body(tree, m, d.calc_length)
        if ps is None:
            R.bad(m, d.node, f"calc_length of {d.name} cannot be resolved: `{norm(d.calc_length)}`")
            continue
        bodies = body if isinstance(body, list) else [body]
        kind = refs.WIDTH_KIND.get(d.name)
        if d.name in same0:
            forms = [_linear(b, [p for p in ps]) for b in bodies]
            ok = all(f == {"arg0.length": 1} for f in forms)
            R.check(ok, m, d.node, f"{d.name}: width of operand 0",
                    f"width of {d.name} is `{' / '.join(norm(b) for b in bodies)}`; it must be the width of its first operand")
        elif kind == "extract":
            f = _linear(bodies[-1], ps)
            R.check(f == refs.WIDTH["extract"], m, d.node, "Extract: high - low + 1",
                    f"width of Extract is `{norm(bodies[-1])}`; it must be high - low + 1")
        elif kind == "ext":
            f = _linear(bodies[-1], ps)
            R.check(f == refs.WIDTH["ext"], m, d.node, f"{d.name}: original width + extension",
                    f"width of {d.name} is `{norm(bodies[-1])}`; it must be orig.length + amount")
        elif kind == "concat":
            b = bodies[-1]
            ok = (
                isinstance(b, ast.Call)
                and dotted(b.func) == "sum"
                and isinstance(b.args[0], ast.GeneratorExp)
                and ast.unparse(b.args[0].elt).endswith(".length")
                and not b.args[0].generators[0].ifs
                and "*" + ast.unparse(b.args[0].generators[0].iter) in ps
            )
            R.check(ok, m, d.node, "Concat: sum of the parts' widths", f"width of Concat is `{norm(b)}`")
        elif d.name in ("StrLen", "StrIndexOf", "StrToInt"):
            b = bodies[-1]
            R.check(isinstance(b, ast.Constant) and b.value == 64, m, d.node, f"{d.name}: 64 bits", f"width of {d.name} is `{norm(b)}`")
        elif d.name in ("fpToSBV", "fpToUBV"):
            f = _linear(bodies[-1], ps)
            R.check(f == {"arg2": 1}, m, d.node, f"{d.name}: the size argument", f"width of {d.name} is `{norm(bodies[-1])}`")
        elif d.name in ("fpAdd", "fpSub", "fpMul", "fpDiv", "fpSqrt"):
            f = _linear(bodies[-1], ps)
            R.check(f == {"arg1.length": 1}, m, d.node, f"{d.name}: width of the first float operand",
                    f"width of {d.name} is `{norm(bodies[-1])}`")
        elif d.name == "fpFP":
            f = _linear(bodies[-1], ps)
            R.check(f == {"arg0.length": 1, "arg1.length": 1, "arg2.length": 1}, m, d.node, "fpFP: sign + exponent + significand",
                    f"width of fpFP is `{norm(bodies[-1])}`")
        elif d.name in ("fpToFP", "fpToFPUnsigned"):
            txt = " ".join(norm(b) for b in bodies)
            R.check("a2.length" in txt and "a3.length" in txt, m, d.node, f"{d.name}: width of the target sort",
                    f"width of {d.name} is `{txt}`")
        else:
            R.bad(m, d.node, f"sized op {d.name} has no entry in the width table (new op: classify it)")
    # If and Z3 abstraction
    from .ast_tables import _canonical_if

    ifn = _canonical_if(tree)
    builds = [c for c in ast.walk(ifn) if isinstance(c, ast.Call) and dotted(c.func) == "ty" and util.kw(c, "length") is not None]
    R.check(
        len(builds) == 1 and ast.unparse(util.kw(builds[0], "length")) in ("args[1].length", "args[2].length"),
        tree.mod("claripy/ast/bool.py"),
        ifn,
        "If: width of its branches",
        "If() no longer takes its width from a branch",
        construct="If length",
    )
    ab = tree.func(Z3, "BackendZ3._abstract_internal")
    # with the single-assignment locals resolved: the generic node is built with length=<L>, and on the
    # bit-vector-sort path <L> is the size of the Z3 sort of the very term being abstracted
    # only the sort local needs resolving (resolving everything in this 150-line function is needlessly expensive)
    abr = util.inline_aliases(ab, lambda v: isinstance(v, ast.Call) and dotted(v.func) == "z3.Z3_get_sort")
    SIZE = "z3.Z3_get_bv_sort_size(ctx, z3.Z3_get_sort(ctx, ast))"

    def has_size(e):
        return any(isinstance(x, ast.Call) and ast.unparse(x) == SIZE for x in ast.walk(e))

    builds = [c for c in ast.walk(abr) if isinstance(c, ast.Call) and util.kw(c, "length") is not None and len(c.args) == 2 and ast.unparse(c.args[1]).startswith("tuple(")]
    widths = {util.kw(c, "length").id for c in builds if isinstance(util.kw(c, "length"), ast.Name)}
    # the width is the sort size: written into the local that is passed as length=, or given directly (possibly as
    # one arm of a conditional expression over the sort kind)
    sized = [st for st in ast.walk(abr) if isinstance(st, ast.Assign) and isinstance(st.targets[0], ast.Name) and st.targets[0].id in widths and has_size(st.value)]
    sized += [c for c in builds if not isinstance(util.kw(c, "length"), ast.Name) and has_size(util.kw(c, "length"))]
    R.check(
        len(builds) >= 1 and len(sized) >= 1,
        tree.mod(Z3),
        ab,
        "Z3 abstraction takes the width from the Z3 sort",
        "_abstract_internal no longer derives the node width from the Z3 sort",
        construct="_abstract_internal length from sort",
    )


# ----------------------------------------------------------------------------- C09


def _forward_kind(tree, op):
    d = dispatch(tree, "z3")
    h = d.handler(op)
    if h.kind == "opfallback":
        return refs.Z3_OPERATOR_KIND.get(op), None
    if h.fn is None:
        return None, None
    from .ast_tables import _z3_entry_points

    eps = {e for e, _ in _z3_entry_points(h.fn)}
    allowed = refs.Z3_FORWARD.get(op, set())
    hit = sorted(eps & allowed)
    if not hit:
        return None, h.fn
    return refs.Z3_KIND.get(hit[0]), h.fn


ABSTRACT_SPECIAL = {"Extract", "SignExt", "ZeroExt", "fpToSBV", "fpToUBV", "fpToFP", "fpToFPUnsigned", "RotateLeft", "RotateRight", "If"}


@rule(
    "C09.closure",
    props=("C09",),
    floor=45,
    family="TAB",
    desc="round-trip closure: for every op with a Z3 translation, the decl kind that translation produces maps "
    "back through op_map to the same claripy op, op_type_map gives the AST class the op returns, and ops with "
    "non-AST parameters have an explicit arm in _abstract_internal that recovers them",
)
def c09_closure(R):
    tree = R.tree
    m = tree.mod(Z3)
    reg = registry(tree)
    op_map = tree.const(m, "op_map")
    type_map = tree.const(m, "op_type_map")
    anchor = next(s for s in m.tree.body if isinstance(s, ast.Assign) and ast.unparse(s.targets[0]) == "op_map")
    tanchor = next(s for s in m.tree.body if isinstance(s, ast.Assign) and ast.unparse(s.targets[0]) == "op_type_map")
    ab = tree.func(Z3, "BackendZ3._abstract_internal")
    abtxt = ast.unparse(ab)
    n = 0
    names = reg.ops_by_name()
    for op in sorted(set(names) | {"If"}):
        if op in ("union", "widen", "intersection", "StrIsDigit"):
            continue
        if op in refs.Z3_STRING_KIND:
            kind = refs.Z3_STRING_KIND[op]
        else:
            kind, fn = _forward_kind(tree, op)
            if op == "fpNEQ":
                kind = "NOT"  # Not(fp.eq): abstracts as Not(fpEQ(..)), an equivalent expression
            if op == "Reverse":
                continue  # translated into Concat of Extracts
        if kind is None:
            continue
        n += 1
        key = "Z3_OP_" + kind
        back = op_map.get(key)
        want = {"fpNEQ": "Not"}.get(op, op)
        R.check(
            back == want,
            m,
            anchor,
            f"{op} -> {key} -> {want}",
            f"op `{op}` translates to a Z3 term of kind {key}, but op_map[{key!r}] is {back!r}: simplify() / the "
            f"Z3 round trip {'raises `unknown decl op`' if back is None else 'returns a different operation'} "
            f"for an expression claripy itself built",
            construct=f"op_map[{key!r}] = {back!r} (forward op {op})",
        )
        if back == want and op not in ("If",):
            rets = {d.ret for d in names.get(op, [])} if op != "fpNEQ" else {"Bool"}
            ty = type_map.get(key)
            tyname = str(ty).split(":")[-1] if isinstance(ty, Sym) else ty
            R.check(
                tyname in rets,
                m,
                tanchor,
                f"op_type_map[{key}] is {sorted(rets)}",
                f"op_type_map[{key!r}] is {tyname!r} but op `{op}` returns {sorted(rets)}: the abstracted node gets "
                f"the wrong AST class",
                construct=f"op_type_map[{key!r}] = {tyname!r}",
            )
        if op in ABSTRACT_SPECIAL and op != "If":
            R.check(
                f"op_name == '{op}'" in abtxt or f"'{op}'" in abtxt,
                m,
                ab,
                f"_abstract_internal has an arm recovering the non-AST parameters of {op}",
                f"_abstract_internal has no arm for `{op}`, whose integer/sort parameters are not Z3 children",
                construct=f"_abstract_internal arm {op}",
            )
    R.need(n >= 45, f"only {n} ops examined for closure")
    # leaf kinds
    for key, want in (("Z3_OP_BNUM", "BitVecVal"), ("Z3_OP_TRUE", "True"), ("Z3_OP_FALSE", "False"), ("Z3_OP_UNINTERPRETED", "UNINTERPRETED"),
                      ("Z3_OP_FPA_NUM", "FPVal"), ("Z3_OP_FPA_NAN", "NaN"), ("Z3_OP_FPA_PLUS_INF", "PlusInf"), ("Z3_OP_FPA_MINUS_INF", "MinusInf"),
                      ("Z3_OP_FPA_PLUS_ZERO", "PlusZero"), ("Z3_OP_FPA_MINUS_ZERO", "MinusZero")):
        R.check(
            op_map.get(key) == want and f"'{want}'" in abtxt,
            m,
            anchor,
            f"leaf kind {key} -> {want} handled",
            f"leaf kind {key} maps to {op_map.get(key)!r} / has no arm in _abstract_internal",
            construct=f"op_map[{key!r}] leaf",
        )


@rule(
    "C09.simpl",
    props=("C09", "C07"),
    floor=4,
    family="DEP",
    desc="ConstrainedFrontend.simplify keeps every constraint (the simplified part plus the untouched "
    "SimplificationAvoidance part), simplifies only constraints without that annotation, and is the only place "
    "in the frontends that calls the simplifier",
)
def c09_simpl(R):
    tree = R.tree
    path = "claripy/frontend/constrained_frontend.py"
    m = tree.mod(path)
    fn = tree.func_inlined(path, "ConstrainedFrontend.simplify")  # a predicate moved into a private helper is still the predicate
    # locals are identified by role and renamed to the names the checks below use
    roles = {}
    lcs = [st for st in fn.body if isinstance(st, ast.Assign) and isinstance(st.value, ast.ListComp) and isinstance(st.targets[0], ast.Name)]
    scalls = [c for c in _calls(fn) if dotted(c.func) == "simplify"]
    if len(scalls) == 1:
        fed = {x.id for x in ast.walk(scalls[0]) if isinstance(x, ast.Name)}
        for st in lcs:
            roles[st.targets[0].id] = "to_simplify" if st.targets[0].id in fed else "no_simplify"
        for st in fn.body:
            if isinstance(st, ast.Assign) and isinstance(st.targets[0], ast.Name) and st.value is scalls[0]:
                roles[st.targets[0].id] = "simplified"
        for st in fn.body:
            if isinstance(st, ast.Assign) and isinstance(st.targets[0], ast.Name) and isinstance(st.value, ast.IfExp) and any(
                isinstance(x, ast.Name) and roles.get(x.id) == "simplified" for x in ast.walk(st.value)
            ):
                roles[st.targets[0].id] = "simplified_split"
    if len(set(roles.values())) == len(roles):
        fn = util.rename_locals(fn, roles)
    comps = {}
    for st in fn.body:
        if isinstance(st, ast.Assign) and isinstance(st.value, ast.ListComp) and isinstance(st.targets[0], ast.Name):
            comps[st.targets[0].id] = st.value
    R.need({"to_simplify", "no_simplify"} <= set(comps), "simplify: partition of the constraints not found")

    def polarity(lc):
        cond = lc.generators[0].ifs[0] if lc.generators[0].ifs else None
        if cond is None:
            return None
        neg = isinstance(cond, ast.UnaryOp) and isinstance(cond.op, ast.Not)
        inner = cond.operand if neg else cond
        if "SimplificationAvoidanceAnnotation" not in ast.unparse(inner):
            return None
        return "without" if neg else "with"

    R.check(
        polarity(comps["to_simplify"]) == "without" and ast.unparse(comps["to_simplify"].generators[0].iter) == "self.constraints",
        m,
        comps["to_simplify"],
        "only constraints without SimplificationAvoidanceAnnotation are simplified",
        "the list handed to the simplifier is not `constraints without a SimplificationAvoidanceAnnotation`",
    )
    R.check(
        polarity(comps["no_simplify"]) == "with" and ast.unparse(comps["no_simplify"].generators[0].iter) == "self.constraints",
        m,
        comps["no_simplify"],
        "annotated constraints are kept aside unchanged",
        "the kept-aside list is not `constraints with a SimplificationAvoidanceAnnotation`",
    )
    calls = [c for c in _calls(fn) if dotted(c.func) == "simplify"]
    R.check(
        len(calls) == 1 and "to_simplify" in ast.unparse(calls[0]) and "no_simplify" not in ast.unparse(calls[0]),
        m,
        fn,
        "the simplifier sees exactly the unannotated part",
        "the simplifier is not applied to exactly And(*to_simplify)",
        construct="simplify(And(*to_simplify))",
    )
    assigns = [a for a in util.attr_writes(fn, "self") if a[0] == "constraints" and a[1] == "assign"]
    # the split of the simplified result may be written in place or through a local
    val = assigns[0][3] if len(assigns) == 1 else None
    split_expr = None
    if isinstance(val, ast.BinOp) and isinstance(val.op, ast.Add) and ast.unparse(val.left) == "no_simplify":
        split_expr = val.right
        if isinstance(split_expr, ast.Name):
            d = [st for st in fn.body if isinstance(st, ast.Assign) and ast.unparse(st.targets[0]) == split_expr.id]
            split_expr = d[0].value if len(d) == 1 else None
    R.check(
        split_expr is not None,
        m,
        fn,
        "new constraint list = untouched part + simplified part",
        "the new constraint list is not <kept-aside list> + <split of the simplified conjunction> (a constraint is dropped or duplicated)",
        construct="self.constraints = no_simplify + simplified_split",
    )
    R.check(
        split_expr is not None and util.alpha_eq(split_expr, "list(simplified.args) if simplified.op == 'And' else [simplified]", fn),
        m,
        fn,
        "a simplified conjunction is split, anything else kept whole",
        "simplified_split no longer keeps a non-And result as a single constraint",
        construct="simplified_split",
    )
    # nobody else in the frontends calls the simplifier on constraints
    for mm, q, f in tree.all_functions():
        if not mm.path.startswith("claripy/frontend/") or q == "ConstrainedFrontend.simplify":
            continue
        for c in (x for x in walk_no_nested(f) if isinstance(x, ast.Call)):
            d = dotted(c.func) or ""
            if d in ("simplify", "claripy.simplify", "claripy.algorithm.simplify") or d.endswith("_solver_backend.simplify") or d.endswith("backends.z3.simplify"):
                R.bad(mm, c, f"{q} calls the simplifier directly: constraints carrying a SimplificationAvoidanceAnnotation "
                             f"are not filtered on this path")


# ----------------------------------------------------------------------------- C10


def _ret_expr(fn):
    rets = [n.value for n in walk_no_nested(fn) if isinstance(n, ast.Return) and n.value is not None]
    return rets


@rule(
    "C10.polarity",
    props=("C10", "C24"),
    floor=18,
    family="TAB",
    desc="truth-polarity table: every is_true/is_false/has_true/has_false of the backends, BoolResult, the "
    "concrete fast paths, ConcreteHandlerMixin and bool_check tests the constant of its own name",
)
def c10_polarity(R):
    tree = R.tree
    # backends' native predicates
    want_const = {"_is_true": True, "_is_false": False, "_has_true": True, "_has_false": False}
    m = tree.mod(BC)
    for name, const in want_const.items():
        fn = tree.func(BC, f"BackendConcrete.{name}")
        rets = _ret_expr(fn)
        ok = (
            len(rets) == 1
            and isinstance(rets[0], ast.Compare)
            and isinstance(rets[0].ops[0], (ast.Eq, ast.Is))
            and isinstance(rets[0].comparators[0], ast.Constant)
            and rets[0].comparators[0].value is const
        )
        R.check(ok, m, fn, f"BackendConcrete.{name} tests == {const}", f"BackendConcrete.{name} returns `{norm(rets[0]) if rets else None}`")
    mz = tree.mod(Z3)
    for name, const in (("_is_true", True), ("_is_false", False)):
        fn = tree.func(Z3, f"BackendZ3.{name}")
        rets = _ret_expr(fn)
        bv = [c for c in _calls(fn) if dotted(c.func) == "z3.BoolVal"]
        ok = len(bv) == 1 and isinstance(bv[0].args[0], ast.Constant) and bv[0].args[0].value is const and "z3.simplify(e)" in ast.unparse(rets[0])
        R.check(ok, mz, fn, f"BackendZ3.{name}: simplify(e) is the literal {const}", f"BackendZ3.{name} returns `{norm(rets[0]) if rets else None}`")
        R.check(
            ".eq(" in ast.unparse(rets[0]),
            mz,
            fn,
            f"BackendZ3.{name} compares structurally (.eq), not with ==",
            f"BackendZ3.{name} compares with == (builds a Z3 term that is always truthy)",
            construct=f"BackendZ3.{name} uses .eq",
        )
    mv = tree.mod("claripy/backends/backend_vsa/backend_vsa.py")
    for name in want_const:
        fn = tree.func(mv.path, f"BackendVSA.{name}")
        rets = _ret_expr(fn)
        ok = len(rets) == 1 and isinstance(rets[0], ast.Call) and dotted(rets[0].func) == f"BoolResult.{name[1:]}"
        R.check(ok, mv, fn, f"BackendVSA.{name} -> BoolResult.{name[1:]}", f"BackendVSA.{name} returns `{norm(rets[0]) if rets else None}`")
    mb = tree.mod("claripy/backends/backend_vsa/bool_result.py")
    for name, const, exact in (("is_true", True, True), ("is_false", False, True), ("has_true", True, False), ("has_false", False, False)):
        fn = tree.func(mb.path, f"BoolResult.{name}")
        rets = _ret_expr(fn)
        txt = ast.unparse(rets[0]) if rets else ""
        if exact:
            ok = f"o is {const}" in txt and f"o.value == ({const},)" in txt
        else:
            ok = f"o is {const}" in txt and f"{const} in o.value" in txt
        R.check(ok, mb, fn, f"BoolResult.{name} tests {const} ({'only' if exact else 'among'} the possible values)",
                f"BoolResult.{name} returns `{txt}`")
    # concrete fast paths
    for name, lit, neg in (("is_true", "claripy.true()", False), ("is_false", "claripy.false()", True)):
        fn = tree.func(BC, f"BackendConcrete.{name}")
        ifs = [s for s in fn.body if isinstance(s, ast.If)]
        num = next((s for s in ifs if "numbers.Number" in ast.unparse(s.test)), None)
        R.need(num is not None, f"BackendConcrete.{name}: numeric fast path not found")
        r = ast.unparse(num.body[0].value)
        R.check(
            r == ("not bool(e)" if neg else "bool(e)"),
            m,
            num,
            f"BackendConcrete.{name}: number -> {'not ' if neg else ''}bool(e)",
            f"BackendConcrete.{name} answers `{r}` for a Python number",
        )
        lits = next((s for s in ifs if lit in ast.unparse(s.test)), None)
        R.check(
            lits is not None and ast.unparse(lits.test) == f"e is {lit}" and ast.unparse(lits.body[0].value) == "True",
            m,
            lits or fn,
            f"BackendConcrete.{name}: `e is {lit}` -> True",
            f"BackendConcrete.{name}: literal fast path changed",
            construct=f"BackendConcrete.{name} literal fast path",
        )
        last = fn.body[-1]
        R.check(
            isinstance(last, ast.Return) and f"super().{name}(" in ast.unparse(last),
            m,
            fn,
            f"BackendConcrete.{name} falls back to Backend.{name}",
            f"BackendConcrete.{name} does not fall back to super().{name}",
            construct=f"BackendConcrete.{name} fallback",
        )
    mh = tree.mod("claripy/frontend/mixin/concrete_handler_mixin.py")
    for name, want in (("is_true", "c"), ("is_false", "not c")):
        fn = tree.func(mh.path, f"ConcreteHandlerMixin.{name}")
        Fm = util.Frags(fn)
        Fm.has("c = self._concrete_value(e)")
        # the answer for a concrete value is the return that does not delegate to the next layer
        rets = [Fm.canon(r) for r in _ret_expr(fn) if not any(isinstance(c, ast.Call) and util.is_super_call(c) for c in ast.walk(r))]
        R.check(len(rets) >= 1 and all(r == want for r in rets), mh, fn, f"ConcreteHandlerMixin.{name}: concrete value -> {want}",
                f"ConcreteHandlerMixin.{name} answers `{rets[0] if rets else None}` for a concrete value")
    mbc = tree.mod("claripy/algorithm/bool_check.py")
    for name in ("is_true", "is_false"):
        fn = tree.func(mbc.path, name)
        calls = [dotted(c.func) for c in _calls(fn) if (dotted(c.func) or "").startswith("claripy.backends.")]
        R.check(
            calls == [f"claripy.backends.concrete.{name}"],
            mbc,
            fn,
            f"claripy.{name} asks the concrete backend's {name}",
            f"claripy.{name} asks {calls}",
            construct=f"bool_check.{name} -> {calls}",
        )
    mbool = tree.mod("claripy/ast/bool.py")
    for name in ("is_true", "is_false"):
        fn = tree.func(mbool.path, f"Bool.{name}")
        rets = [ast.unparse(r) for r in _ret_expr(fn)]
        R.check(rets == [f"{name}(self)"], mbool, fn, f"Bool.{name} -> {name}(self)", f"Bool.{name} returns {rets}")
    ml = tree.mod("claripy/frontend/light_frontend.py")
    for name in ("is_true", "is_false"):
        fn = tree.func(ml.path, f"LightFrontend.{name}")
        calls = [c.func.attr for c in _calls(fn) if isinstance(c.func, ast.Attribute) and dotted(c.func.value) == "self._solver_backend"]
        R.check(calls == [name], ml, fn, f"LightFrontend.{name} asks the backend's {name}", f"LightFrontend.{name} asks {calls}")
    ma = tree.mod("claripy/backends/backend_any.py")
    for name in ("is_true", "is_false", "has_true", "has_false"):
        fn = tree.func(ma.path, f"BackendAny.{name}")
        rets = [ast.unparse(r) for r in _ret_expr(fn)]
        R.check(rets == [f"self._first_backend(e, '{name}')"], ma, fn, f"BackendAny.{name} dispatches '{name}'",
                f"BackendAny.{name} returns {rets}")


@rule(
    "C10.fallback",
    props=("C10",),
    floor=6,
    family="GRD",
    desc="every exit of the cheap truth checks that is not the backend's own answer returns the literal False "
    "(False carries no information and is always allowed)",
)
def c10_fallback(R):
    tree = R.tree
    sites = [
        ("claripy/algorithm/bool_check.py", "is_true"),
        ("claripy/algorithm/bool_check.py", "is_false"),
        ("claripy/frontend/light_frontend.py", "LightFrontend.is_true"),
        ("claripy/frontend/light_frontend.py", "LightFrontend.is_false"),
    ]
    for path, q in sites:
        m = tree.mod(path)
        fn = tree.func(path, q)
        name = q.split(".")[-1]
        for r in (n for n in walk_no_nested(fn) if isinstance(n, ast.Return)):
            v = r.value
            is_backend = v is not None and any(
                isinstance(c, ast.Call) and isinstance(c.func, ast.Attribute) and c.func.attr == name for c in ast.walk(v)
            )
            if is_backend:
                R.ok(m, r, f"{q}: the backend's answer", nontrivial=False)
                continue
            R.check(
                isinstance(v, ast.Constant) and v.value is False,
                m,
                r,
                f"{q}: fallback exit returns False",
                f"{q}: a fallback exit returns `{norm(v) if v is not None else None}`; only False is allowed when the "
                f"truth value could not be established",
            )
        # the suppressed / handled exception must not let control fall off the end returning None-as-falsy silently
        last = fn.body[-1]
        R.check(
            isinstance(last, ast.Return) or (isinstance(last, ast.Try) and all(isinstance(h.body[-1], ast.Return) for h in last.handlers)),
            m,
            fn,
            f"{q}: ends with an explicit return",
            f"{q}: falls off the end",
            construct=f"{q} explicit final return",
        )
    # BackendAny: a backend that cannot decide is skipped, never read as an answer
    m = tree.mod("claripy/backends/backend_any.py")
    fb = tree.func(m.path, "BackendAny._first_backend")
    handlers = [h for n in ast.walk(fb) if isinstance(n, ast.Try) for h in n.handlers]
    R.check(
        handlers and all(ast.unparse(h.type) == "BackendError" and isinstance(h.body[0], ast.Pass) for h in handlers)
        and isinstance(fb.body[-1], ast.Raise),
        m,
        fb,
        "BackendAny: BackendError -> next backend; none left -> BackendError",
        "BackendAny._first_backend no longer skips failing backends / raises when all fail",
        construct="BackendAny._first_backend",
    )


@rule(
    "C10.cache",
    props=("C10",),
    floor=8,
    family="GRD",
    desc="Backend.is_true/is_false memoise only answers computed without extra constraints, key the memo by the "
    "AST's structural hash, and the cross-cache write stores the literal False under a definite True",
)
def c10_cache(R):
    tree = R.tree
    m = tree.mod(BK)
    for name, own, other in (("is_true", "_true_cache", "_false_cache"), ("is_false", "_false_cache", "_true_cache")):
        fn = tree.func_inlined(BK, f"Backend.{name}", exclude=("_is_true", "_is_false", "_has_true", "_has_false"))
        writes = [(a, kind, node, val) for a, kind, node, val in util.attr_writes(fn, "self") if a in (own, other)]
        R.need(len(writes) >= 2, f"Backend.{name}: memo writes not found")
        for a, kind, node, val in writes:
            R.check(
                guards.dominated_by_empty(node, {"extra_constraints"}),
                m,
                node,
                f"Backend.{name}: memo written only without extra constraints",
                f"Backend.{name} memoises an answer computed under extra constraints in {a}: later queries "
                f"without them get that answer",
            )
            key = node.targets[0].slice if isinstance(node, ast.Assign) and isinstance(node.targets[0], ast.Subscript) else None
            R.check(
                key is not None and ast.unparse(key) == "e.hash()",
                m,
                node,
                f"Backend.{name}: memo keyed by e.hash()",
                f"Backend.{name}: memo keyed by `{norm(key) if key is not None else None}`",
            )
            if a == other:
                R.check(
                    isinstance(val, ast.Constant) and val.value is False,
                    m,
                    node,
                    f"Backend.{name}: cross-cache entry is the literal False",
                    f"Backend.{name} writes `{norm(val)}` into {other}; only False (= not known to be "
                    f"{'false' if name == 'is_true' else 'true'}) may be inferred",
                )
                definite = any(
                    isinstance(t, ast.Compare) and isinstance(t.ops[0], ast.Is) and isinstance(t.comparators[0], ast.Constant)
                    and t.comparators[0].value is True and pol
                    for t, pol in guards.guards_of(node)
                )
                R.check(
                    definite,
                    m,
                    node,
                    f"Backend.{name}: cross-cache only after a definite True",
                    f"Backend.{name} writes the cross-cache entry without `is True` on the answer",
                )
            else:
                # the own-cache value is the native answer itself
                native = "_" + name
                src = [
                    st
                    for st in walk_no_nested(fn)
                    if isinstance(st, ast.Assign) and isinstance(st.targets[0], ast.Name) and isinstance(val, ast.Name)
                    and st.targets[0].id == val.id
                ]
                R.check(
                    bool(src) and f"self.{native}(" in ast.unparse(src[-1].value),
                    m,
                    node,
                    f"Backend.{name}: memo holds the native {native} answer",
                    f"Backend.{name} memoises `{norm(val)}`, not the answer of self.{native}(...)",
                )
        reads = [
            n for n in walk_no_nested(fn) if isinstance(n, ast.Subscript) and isinstance(n.ctx, ast.Load) and util.recv_attr(n.value, "self")
        ]
        for n in reads:
            a = util.recv_attr(n.value, "self")
            R.check(
                a == own and ast.unparse(n.slice) == "e.hash()",
                m,
                n,
                f"Backend.{name} reads its own memo by e.hash()",
                f"Backend.{name} reads `{norm(n)}`: the {name} answer must come from {own}[e.hash()]",
            )
        # native call converts the same expression
        nat = [c for c in _calls(fn) if isinstance(c.func, ast.Attribute) and c.func.attr == "_" + name]
        for c in nat:
            R.check(
                ast.unparse(c.args[0]) == "self.convert(e)",
                m,
                c,
                f"Backend.{name} evaluates e itself",
                f"Backend.{name} evaluates `{norm(c.args[0])}`",
            )
    # downsize clears both memos
    dz = tree.func(BK, "Backend.downsize")
    cleared = {a for a, kind, node, val in util.attr_writes(dz, "self") if kind == "mutate"}
    R.check({"_true_cache", "_false_cache"} <= cleared, m, dz, "downsize clears both memos", "downsize no longer clears both truth memos",
            construct="Backend.downsize clears memos")


@rule(
    "C10.solverfree",
    props=("C10",),
    floor=2,
    family="DEP",
    desc="the Z3 truth checks depend on the expression only (validity after simplification), never on the "
    "solver or extra constraints, so one global memo is sound for every solver",
)
def c10_solverfree(R):
    tree = R.tree
    m = tree.mod(Z3)
    for name in ("_is_true", "_is_false"):
        fn = tree.func(Z3, f"BackendZ3.{name}")
        used = {n.id for n in ast.walk(fn) if isinstance(n, ast.Name) and isinstance(n.ctx, ast.Load)}
        bad = used & {"solver", "extra_constraints", "model_callback"}
        R.check(
            not bad,
            m,
            fn,
            f"BackendZ3.{name} ignores solver state",
            f"BackendZ3.{name} reads {sorted(bad)}: its answer would depend on one solver's state but is memoised "
            f"per expression for all solvers",
        )
