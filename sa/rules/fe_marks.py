"""C11.markvars - an "exhausted" mark promises that the answer is among the cached models.

ModelCacheMixin keeps a model found during a search only for the variables the solver knows from its constraints
(`_model_hook` filters by `self.variables`).  A mark `self._*_exhausted[e.hash()] = e` says "every later query about e
without extra constraints can be answered from the cached models"; that is only true if those models assign all of e's
variables, i.e. if `self.variables.issuperset(e.variables)` held *while the models were being collected*.  The layers
below (ConstraintExpansionMixin) add a helper constraint about e - and with it e's variables - once they know the
answer, so the test has to be taken before the delegated query, not after it.

Obligation, per write to a field whose name ends in `_exhausted` in ModelCacheMixin (outside the routine that stores
the one model it marks for): a dominating fact that is `self.variables.issuperset(<e>.variables)`, either tested at the
write itself in a method whose delegated query cannot add constraints about e before control returns, or - where the
same method delegates to `super().min/max` - bound to a local *before* that call.
"""

from __future__ import annotations

import ast
import re

from .. import guards, util
from ..core import walk_no_nested
from ..report import rule

MC = "claripy/frontend/mixin/model_cache_mixin.py"

_EXEMPT = {
    "_trivial_model_optimization": "stores the one model of `x == c` itself before marking x",
    "update": "copies the marks of a split-off solver together with its models",
    "_copy": "copies marks together with the models",
    "_blank_copy": "empty tables",
    "__init__": "empty tables",
    "__setstate__": "empty tables",
}


@rule(
    "C11.markvars",
    props=("C11",),
    floor=3,
    family="GRD",
    desc="ModelCacheMixin marks an expression exhausted only under `self.variables.issuperset(e.variables)` (the cached "
    "models are kept for the solver's own variables only), and min/max take that test before delegating the search, "
    "because the layers below add a constraint about e once they have the answer",
)
def c11_markvars(R):
    tree = R.tree
    m = tree.mod(MC)
    cls = tree.cls(MC, "ModelCacheMixin")
    n = 0
    for name, raw in util.methods_of(cls).items():
        writes = [
            st
            for st in walk_no_nested(raw)
            if isinstance(st, ast.Assign)
            and len(st.targets) == 1
            and isinstance(st.targets[0], ast.Subscript)
            and re.search(r"_exhausted\b", ast.unparse(st.targets[0].value))
        ]
        if not writes:
            continue
        if name in _EXEMPT:
            R.ok(m, raw, f"{name}: {_EXEMPT[name]}")
            continue
        fn = tree.func_inlined(MC, f"ModelCacheMixin.{name}", exclude=("_models_evaluate",))
        supers = [c for c in walk_no_nested(fn) if isinstance(c, ast.Call) and util.is_super_call(c) in ("min", "max")]
        for st in walk_no_nested(fn):
            if not (isinstance(st, ast.Assign) and len(st.targets) == 1 and isinstance(st.targets[0], ast.Subscript) and re.search(r"_exhausted\b", ast.unparse(st.targets[0].value))):
                continue
            n += 1
            e = ast.unparse(st.value)
            want = re.compile(rf"self\.variables\.issuperset\({re.escape(e)}\.variables\)|{re.escape(e)}\.variables\.issubset\(self\.variables\)|{re.escape(e)}\.variables <= self\.variables|self\.variables >= {re.escape(e)}\.variables")
            facts = guards.guards_of(st)
            direct = any(pol and want.fullmatch(re.sub(r"\s+", " ", ast.unparse(t))) for t, pol in facts)
            via = None
            for t, pol in facts:
                if pol and isinstance(t, ast.Name):
                    defs = [a for a in walk_no_nested(fn) if isinstance(a, ast.Assign) and len(a.targets) == 1 and isinstance(a.targets[0], ast.Name) and a.targets[0].id == t.id]
                    if len(defs) == 1 and want.fullmatch(re.sub(r"\s+", " ", ast.unparse(defs[0].value))):
                        via = defs[0]
            if supers:
                first_super = min(getattr(c, "lineno", 0) for c in supers)
                ok = via is not None and getattr(via, "lineno", 0) < first_super
                why = "the coverage test is taken before the delegated search"
            else:
                ok = direct or via is not None
                why = "the mark is under the coverage test"
            # ... and every cached model can be asked for e's value (a lookup skips a model under which e divides by zero)
            evaluable = any(pol and re.fullmatch(rf"self\._models_evaluate\({re.escape(e)}\)", re.sub(r"\s+", " ", ast.unparse(t))) for t, pol in facts)
            R.check(
                evaluable,
                m,
                st,
                f"{name}: mark only where every cached model evaluates the expression",
                f"ModelCacheMixin.{name} marks `{e}` exhausted without checking that the cached models can all be asked for its value: "
                f"a lookup skips a model under which the expression divides by zero, so after add(x == 3); eval(5 // (x - 3), 2) "
                f"== (255,) the second call answered () and max() raised UnsatError",
                construct=f"{name}: exhausted mark for {e} without an evaluability test",
            )
            R.check(
                ok,
                m,
                st,
                f"{name}: {why}",
                f"ModelCacheMixin.{name} marks `{e}` exhausted "
                + ("without" if not (direct or via) else "with a coverage test taken only after super()." + name + "() returned, not")
                + f" a test, taken before the search, that the solver's own variables cover {e}'s: the models found on the way are "
                f"kept for those variables only, so the optimum need not be among them (after s.max(y) on a solver without a "
                f"constraint on y and one eval that cached y = 0, the next s.max(y) answered 0)",
                construct=f"{name}: exhausted mark for {e}",
            )
    R.need(n >= 3, f"only {n} exhausted marks found")
    # ... and the evaluability test does what its callers rely on: it asks every cached model (eval_ast) and answers
    # for a refused division (a handler for the division error that does not just go on to the next model)
    ev = util.methods_of(cls).get("_models_evaluate")
    R.need(ev is not None, "ModelCacheMixin._models_evaluate not found")
    closure = [ev]
    for c in ast.walk(ev):
        if isinstance(c, ast.Call) and isinstance(c.func, ast.Attribute) and isinstance(c.func.value, ast.Name) and c.func.value.id in ("self", "cls", "ModelCacheMixin"):
            h = util.methods_of(cls).get(c.func.attr)
            if h is not None and h not in closure:
                closure.append(h)
    over_models = any(
        isinstance(x, (ast.For, ast.comprehension)) and re.search(r"\bself\._models\b", ast.unparse(x.iter)) for f in closure for x in ast.walk(f)
    )
    answered = False
    for f in closure:
        for t in (x for x in ast.walk(f) if isinstance(x, ast.Try)):
            if not any(isinstance(c, ast.Call) and isinstance(c.func, ast.Attribute) and c.func.attr == "eval_ast" for b in t.body for c in ast.walk(b)):
                continue
            for h in t.handlers:
                names = {x.id if isinstance(x, ast.Name) else x.attr for x in ast.walk(h.type) if isinstance(x, (ast.Name, ast.Attribute))} if h.type is not None else {"Exception"}
                if names & {"ZeroDivisionError", "ClaripyZeroDivisionError", "ArithmeticError"} and not all(isinstance(b, (ast.Pass, ast.Continue)) for b in h.body):
                    answered = True
    R.check(
        over_models and answered,
        m,
        ev,
        "_models_evaluate asks every cached model and answers for a refused division",
        "ModelCacheMixin._models_evaluate no longer "
        + ("goes through self._models" if not over_models else "turns a division by zero raised by a model's eval_ast into an answer")
        + ": the exhausted marks rely on it to tell whether a lookup in the cached models sees every value of the expression",
        construct="_models_evaluate: evaluability test",
    )


@rule(
    "C11.consult",
    props=("C11",),
    floor=2,
    family="SIB",
    desc="ModelCacheMixin.min/max, where they may answer from the cache on the strength of eval's exhaustion mark, read the "
    "cached models with the completion eval counted with (allow_unconstrained follows membership in _eval_exhausted, or is "
    "True): a value that only a partial model stands for may be the optimum",
)
def c11_consult(R):
    tree = R.tree
    m = tree.mod(MC)
    n = 0
    for name in ("min", "max"):
        fn = util.resolve_locals(tree.func_inlined(MC, f"ModelCacheMixin.{name}", exclude=("_get_batch_solutions", "_get_models")))
        reads = [c for c in walk_no_nested(fn) if isinstance(c, ast.Call) and isinstance(c.func, ast.Attribute) and c.func.attr in ("_get_solutions", "_get_batch_solutions")]
        for c in reads:
            facts = [re.sub(r"\s+", " ", ast.unparse(t)) for t, pol in guards.guards_of(c) if pol]
            via_eval = any("_eval_exhausted" in f for f in facts)
            if not via_eval:
                continue
            n += 1
            au = next((k.value for k in c.keywords if k.arg == "allow_unconstrained"), None)
            ok = au is None or (isinstance(au, ast.Constant) and au.value is True) or "_eval_exhausted" in ast.unparse(au)
            R.check(
                ok,
                m,
                c,
                f"{name}: cache read with eval's completion",
                f"ModelCacheMixin.{name} may answer from the cache because e is in _eval_exhausted, but reads the models with "
                f"allow_unconstrained={ast.unparse(au) if au is not None else 'default'}: eval counted models that do not mention one "
                f"of e's variables with a default value, this read skips them, and the value they stand for may be the optimum "
                f"(add(x == 5); add(y >s 6); eval(y, 70); min(y) answered 1 instead of 0)",
                construct=f"{name}: cached read under _eval_exhausted with allow_unconstrained={ast.unparse(au) if au is not None else 'default'}",
            )
    R.need(n >= 2, f"only {n} cache reads under _eval_exhausted found in min/max")


def _single_ast_fact(t, p):
    """`len(p) == 1`, `len(p) < 2`, `len(p) <= 1` (either way round)"""
    if not (isinstance(t, ast.Compare) and len(t.ops) == 1):
        return False
    a, op, b = t.left, t.ops[0], t.comparators[0]
    for x, y, o in ((a, b, op), (b, a, {ast.Lt: ast.Gt, ast.Gt: ast.Lt, ast.LtE: ast.GtE, ast.GtE: ast.LtE}.get(type(op), type(op))())):
        if ast.unparse(x) == f"len({p})" and isinstance(y, ast.Constant):
            if isinstance(o, ast.Eq) and y.value == 1:
                return True
            if isinstance(o, ast.Lt) and y.value == 2:
                return True
            if isinstance(o, ast.LtE) and y.value == 1:
                return True
    return False


@rule(
    "C11.batchmark",
    props=("C11",),
    floor=1,
    family="GRD",
    desc="ModelCacheMixin.batch_eval answers from the cache on the strength of eval's per-expression exhaustion marks only "
    "for a batch of one expression: every value of a and every value of b being cached does not make every pair cached",
)
def c11_batchmark(R):
    tree = R.tree
    m = tree.mod(MC)
    fn = util.resolve_locals(tree.func_inlined(MC, "ModelCacheMixin.batch_eval", exclude=("_get_batch_solutions", "_get_models")))
    ps = [a.arg for a in fn.args.args]
    R.need(len(ps) >= 2, "batch_eval no longer takes (self, asts, ..)")
    p = ps[1]
    n = 0
    for r in walk_no_nested(fn):
        if not (isinstance(r, ast.Return) and r.value is not None):
            continue
        if any(isinstance(c, ast.Call) and util.is_super_call(c) for c in ast.walk(r.value)):
            continue
        pos = [t for t, pol in guards.guards_of(r) if pol]
        for t in pos:
            if "_eval_exhausted" not in ast.unparse(t):
                continue
            disjuncts = t.values if isinstance(t, ast.BoolOp) and isinstance(t.op, ast.Or) else [t]
            for d in disjuncts:
                if "_eval_exhausted" not in ast.unparse(d):
                    continue
                n += 1
                conj = (d.values if isinstance(d, ast.BoolOp) and isinstance(d.op, ast.And) else [d]) + [o for o in pos if o is not t]
                R.check(
                    any(_single_ast_fact(c, p) for c in conj),
                    m,
                    r,
                    "batch_eval: exhaustion marks answer only a batch of one",
                    f"ModelCacheMixin.batch_eval returns the cached rows under `{ast.unparse(d)[:110]}` - eval's marks are per "
                    f"expression, and the condition is not restricted to len({p}) == 1: after eval(a, 9) and eval(b, 9) exhausted "
                    f"a and b separately, batch_eval([a, b], 9) returns only the pairs that happen to be cached",
                    construct="batch_eval: early return on _eval_exhausted",
                )
    if n == 0:
        R.ok(m, fn, "batch_eval does not answer from the exhaustion marks")
