"""C20 - thread confinement of Z3 state: thread-local storage, explicit contexts, shared mutable state."""

from __future__ import annotations

import ast

from .. import util
from ..core import FuncTypes, dotted, norm, walk_no_nested
from ..report import rule

Z3 = "claripy/backends/backend_z3.py"
BK = "claripy/backends/backend.py"
FF = "claripy/frontend/full_frontend.py"

TLS_PROPS = {
    Z3: ["bvs_annotations", "_c_uint64_p", "_context", "_boolref_tactics", "_ast_cache", "_var_cache", "_sym_cache"],
    BK: ["_object_cache"],
}

# z3 entry points that build a term/solver from Python values or names and therefore cannot infer the context
NEEDS_CTX_KW = {
    "z3.BoolVal", "z3.BitVecVal", "z3.StringVal", "z3.String", "z3.Solver", "z3.Tactic", "z3.Then", "z3.fpToFP",
    "z3.fpToFPUnsigned", "z3.BoolSort", "z3.IntVal", "z3.BitVec", "z3.Bool", "z3.FPVal", "z3.FP", "z3.BitVecSort",
    "z3.IntSort", "z3.StringSort", "z3.Int", "z3.RealVal", "z3.SolverFor", "z3.SimpleSolver", "z3.Optimize", "z3.Goal",
}
# wrapper classes: (ast, ctx)
WRAPPERS = {
    "z3.BoolRef", "z3.BitVecRef", "z3.BitVecNumRef", "z3.FPRef", "z3.FPNumRef", "z3.FPRMRef", "z3.FPSortRef",
    "z3.BitVecSortRef", "z3.ExprRef", "z3.SeqRef", "z3.ArithRef", "z3.IntNumRef", "z3.SortRef", "z3.AstRef",
}


def _ctx_like(e):
    """Does the expression denote a context derived from this thread's context or from an argument?"""
    t = ast.unparse(e)
    return (
        "self._context" in t
        or t.endswith(".ctx")
        or t in ("ctx", "a.ctx", "sort.ctx")
        or ".ctx" in t
    )


@rule(
    "C20.tls",
    props=("C20",),
    floor=10,
    family="WHO",
    desc="attributes of the backends that hold Z3 handles or conversion caches live in the per-thread storage "
    "(self._tls) and nowhere else: no Z3 object is kept in another instance attribute, class attribute or module global",
)
def c20_tls(R):
    tree = R.tree
    for path, names in TLS_PROPS.items():
        m = tree.mod(path)
        cname = "BackendZ3" if path == Z3 else "Backend"
        cls = tree.cls(path, cname)
        ms = util.methods_of(cls)
        for nm in names:
            fn = ms.get(nm)
            R.need(fn is not None, f"{cname}.{nm} missing")
            is_prop = any(dotted(d) == "property" for d in fn.decorator_list)
            rets = [r.value for r in walk_no_nested(fn) if isinstance(r, ast.Return) and r.value is not None]
            ok = is_prop and rets and all(ast.unparse(r).startswith("self._tls.") for r in rets)
            R.check(
                bool(ok),
                m,
                fn,
                f"{cname}.{nm} is a property over self._tls",
                f"{cname}.{nm} no longer returns per-thread state (self._tls.*): threads would share it",
            )
            stores = [a for a, kind, node, val in util.attr_writes(fn, "self") if a != "_tls"]
            R.check(not stores, m, fn, f"{cname}.{nm} writes only self._tls", f"{cname}.{nm} also writes {stores}")
        init = ms.get("__init__")
        if path == BK:
            R.check(
                any(a == "_tls" and ast.unparse(v) == "threading.local()" for a, k, n, v in util.attr_writes(init, "self")),
                m,
                init,
                "Backend.__init__ creates the thread-local storage",
                "Backend.__init__ no longer creates self._tls = threading.local()",
                construct="Backend.__init__ _tls",
            )
    # no Z3 object stored outside _tls in BackendZ3
    m = tree.mod(Z3)
    cls = tree.cls(Z3, "BackendZ3")
    for name, fn in util.methods_of(cls).items():
        for a, kind, node, val in util.attr_writes(fn, "self"):
            if a == "_tls" or val is None:
                continue
            holds_z3 = any(
                (isinstance(x, ast.Call) and (dotted(x.func) or "").startswith("z3.")) or (isinstance(x, ast.Attribute) and dotted(x) == "self._context")
                for x in ast.walk(val)
            )
            R.check(
                not holds_z3,
                m,
                node,
                f"BackendZ3.{name}: instance attribute {a} holds no Z3 object",
                f"BackendZ3.{name} stores a Z3 object in self.{a}, which every thread shares (Z3 contexts are not thread-safe)",
            )
    for st in m.tree.body:
        if isinstance(st, ast.Assign) and isinstance(st.value, ast.Call):
            d = dotted(st.value.func) or ""
            if d in ("z3.Context", "z3.Solver", "z3.main_ctx") or d in NEEDS_CTX_KW:
                R.bad(m, st, f"module-level Z3 object `{norm(st)}` is shared by all threads")
    for st in cls.body:
        if isinstance(st, ast.Assign) and isinstance(st.value, ast.Call) and (dotted(st.value.func) or "").startswith("z3."):
            R.bad(m, st, f"class-level Z3 object `{norm(st)}` is shared by all threads")
    # worker threads get their own context
    ctx = util.methods_of(cls)["_context"]
    Fx = util.Frags(ctx)
    R.check(
        Fx.has("main_thread = threading.current_thread() == threading.main_thread()\nself._tls.context = z3.Context() if not main_thread else z3.main_ctx()"),
        m,
        ctx,
        "every non-main thread gets a fresh z3.Context",
        "BackendZ3._context no longer creates a separate context for non-main threads",
        construct="BackendZ3._context per-thread",
    )


@rule(
    "C20.ctx",
    props=("C20",),
    floor=40,
    family="DEP",
    desc="every call to a Z3 entry point that cannot infer its context from an argument receives one derived from "
    "this thread's context (self._context) or from an argument's .ctx: constructors via ctx=, wrapper classes via "
    "their second argument (the default is the main thread's context)",
)
def c20_ctx(R):
    tree = R.tree
    m = tree.mod(Z3)
    n = 0
    for q, fn0 in m.functions.items():
        # locals are resolved to what they stand for (`ctx = args[0].ctx`); a *parameter* called ctx is the caller's
        if not any(isinstance(x, ast.Call) and ((dotted(x.func) or "") in NEEDS_CTX_KW or (dotted(x.func) or "") in WRAPPERS or dotted(x.func) == "z3.to_symbol") for x in walk_no_nested(fn0)):
            continue
        # only a local literally called `ctx` needs resolving (everything else is judged by its text)
        fn = util.inline_aliases(fn0, lambda v: True) if any(isinstance(x, ast.Name) and x.id in util.local_names(fn0) for c_ in walk_no_nested(fn0) if isinstance(c_, ast.Call) for a_ in list(c_.args) + [k.value for k in c_.keywords] for x in [a_] if isinstance(a_, ast.Name)) else fn0
        for c in (x for x in walk_no_nested(fn) if isinstance(x, ast.Call)):
            d = dotted(c.func) or ""
            if d in NEEDS_CTX_KW:
                n += 1
                k = util.kw(c, "ctx")
                if k is None:
                    k = next((a for a in c.args if _ctx_like(a) and "self._context" in ast.unparse(a)), None)
                R.check(
                    k is not None and _ctx_like(k),
                    m,
                    c,
                    f"{q}: {d}(..., ctx=<thread context>)",
                    f"{q} calls `{norm(c)}` without a context derived from the calling thread: Z3 uses the main "
                    f"thread's context, and mixing terms of two contexts fails or corrupts the solver",
                )
            elif d in WRAPPERS:
                n += 1
                ok = len(c.args) >= 2 and _ctx_like(c.args[1])
                R.check(
                    ok,
                    m,
                    c,
                    f"{q}: {d}(ast, <context>)",
                    f"{q} wraps a Z3 handle with `{norm(c)}` and no context: the wrapper defaults to the main "
                    f"thread's context although the handle belongs to this thread's",
                )
            elif d == "z3.to_symbol":
                n += 1
                R.check(len(c.args) >= 2 and _ctx_like(c.args[1]), m, c, f"{q}: to_symbol(name, ctx)", f"{q}: `{norm(c)}` without context")
    R.extra["context_taking_calls"] = n


SHARED_OK = {
    ("claripy/ast/base.py", "Base._hash_cache"): "hash-cons table: weak-valued, keyed by structural hash; entries are immutable ASTs",
    ("claripy/ast/base.py", "var_counter"): "itertools.count: next() is atomic under the GIL",
    ("claripy/ast/bv.py", "_bvv_cache"): "weak-valued cache of immutable constants",
    ("claripy/algorithm/simplify.py", "simplification_cache"): "weak-valued memo of immutable ASTs",
    ("claripy/algorithm/ite_relocation.py", "burrowed_cache"): "weak-valued memo of immutable ASTs",
    ("claripy/algorithm/ite_relocation.py", "excavated_cache"): "weak-valued memo of immutable ASTs",
    ("claripy/frontend/composite_frontend.py", "symbolic_count"): "itertools.count",
    ("claripy/backends/backend_vsa/discrete_strided_interval_set.py", "dsis_id_ctr"): "itertools.count",
    ("claripy/backends/backend_z3.py", "ALL_Z3_CONTEXTS"): "WeakSet of contexts, only added to; read by the SIGINT handler",
    ("claripy/backends/backend_z3.py", "_gc_lock"): "the lock of the GC guard (C19)",
    ("claripy/ast/base.py", "_hash_cache_lock"): "the lock under which a new AST is filed in the hash-cons table (C06.bypass): a lock is what threads are meant to share",
    ("claripy/backends/backend_vsa/strided_interval.py", "si_id_ctr"): "itertools.count",
    ("claripy/backends/backend_vsa/valueset.py", "vs_id_ctr"): "itertools.count",
}
MUTABLE_CTORS = {
    "dict", "list", "set", "WeakValueDictionary", "weakref.WeakValueDictionary", "weakref.WeakSet", "WeakSet",
    "itertools.count", "count", "collections.defaultdict", "defaultdict", "LRUCache", "threading.Lock", "threading.RLock", "deque",
    "collections.deque",
}


@rule(
    "C20.shared",
    props=("C20",),
    floor=8,
    family="WHO",
    desc="process-wide mutable state (module- or class-level containers/counters that some code mutates) is a "
    "frozen list, each entry with the reason it is safe; a new one must be classified",
)
def c20_shared(R):
    tree = R.tree
    seen = 0
    for m in tree.modules.values():
        cands = {}
        for st in m.tree.body:
            tg, val = None, None
            if isinstance(st, ast.Assign) and len(st.targets) == 1 and isinstance(st.targets[0], ast.Name):
                tg, val = st.targets[0].id, st.value
            elif isinstance(st, ast.AnnAssign) and isinstance(st.target, ast.Name) and st.value is not None:
                tg, val = st.target.id, st.value
            if tg is None:
                continue
            if isinstance(val, ast.Call) and (dotted(val.func) or "") in MUTABLE_CTORS:
                cands[tg] = st
            elif isinstance(val, ast.Call) and any(
                (dotted(x) or "").startswith("ctypes.") for x in ast.walk(val.func) if isinstance(x, ast.Attribute)
            ):
                cands[tg] = st  # a ctypes cell / buffer / pointer: foreign code writes through it
            elif isinstance(val, (ast.Dict, ast.List, ast.Set)) and not getattr(val, "keys", getattr(val, "elts", [])):
                cands[tg] = st
        for q, c in m.classes.items():
            if "." in q:
                continue
            for st in c.body:
                tg, val = None, None
                if isinstance(st, ast.Assign) and len(st.targets) == 1 and isinstance(st.targets[0], ast.Name):
                    tg, val = st.targets[0].id, st.value
                elif isinstance(st, ast.AnnAssign) and isinstance(st.target, ast.Name) and st.value is not None:
                    tg, val = st.target.id, st.value
                if tg and isinstance(val, ast.Call) and (dotted(val.func) or "") in MUTABLE_CTORS:
                    cands[f"{q}.{tg}"] = st
        for name, st in sorted(cands.items()):
            seen += 1
            key = (m.path, name)
            R.check(
                key in SHARED_OK,
                m,
                st,
                f"{name}: {SHARED_OK.get(key, '')}",
                f"{m.path}: new process-wide mutable object `{name} = {norm(st.value)}`: threads share it; it has to be "
                f"shown safe (immutable entries, weak values, atomic operation) and added to the list, or made per-thread",
                construct=f"shared mutable {name}",
            )
    R.need(seen >= 8, f"only {seen} shared mutable objects found")
    # `_errored` on ASTs: only ever added to / unioned
    base = tree.mod("claripy/ast/base.py")
    for mm, q, fn in tree.all_functions():
        for n in walk_no_nested(fn):
            if isinstance(n, ast.Call) and isinstance(n.func, ast.Attribute) and isinstance(n.func.value, ast.Attribute) and n.func.value.attr == "_errored":
                R.check(
                    n.func.attr in ("add", "update", "union", "copy"),
                    mm,
                    n,
                    f"{q}: _errored only grows",
                    f"{q} calls _errored.{n.func.attr}(): the shared per-AST error set may only grow (a removal races with readers)",
                )


@rule(
    "C20.solver",
    props=("C20", "C14"),
    floor=5,
    family="WHO",
    desc="the native solver of a frontend lives in the frontend's own threading.local(): it is created in "
    "__init__/_blank_copy/__setstate__ and the solver is read and written only as <frontend>._tls.solver",
)
def c20_solver(R):
    tree = R.tree
    m = tree.mod(FF)
    cls = tree.cls(FF, "FullFrontend")
    ms = util.methods_of(cls)
    for name, recv_idx in (("__init__", 0), ("_blank_copy", 1), ("__setstate__", 0)):
        fn = ms[name]
        recv = util.func_param(fn, recv_idx)
        ok = any(a == "_tls" and ast.unparse(v) == "threading.local()" for a, k, n, v in util.attr_writes(fn, recv))
        R.check(
            ok,
            m,
            fn,
            f"FullFrontend.{name} gives the object its own threading.local()",
            f"FullFrontend.{name} does not create a fresh threading.local(): two frontends (or two threads) share one native solver slot",
            construct=f"FullFrontend.{name} _tls",
        )
    for name, fn in ms.items():
        for n in walk_no_nested(fn):
            if isinstance(n, ast.Attribute) and n.attr == "solver" and not isinstance(getattr(n, "_parent", None), ast.Call):
                base = ast.unparse(n.value)
                if base.endswith("_solver_backend"):
                    continue
                R.check(
                    base.endswith("._tls"),
                    m,
                    n,
                    f"FullFrontend.{name}: solver accessed through _tls",
                    f"FullFrontend.{name} keeps the native solver in `{norm(n)}`, outside the thread-local slot",
                )
            if isinstance(n, ast.Call) and dotted(n.func) == "getattr" and len(n.args) >= 2 and isinstance(n.args[1], ast.Constant) and n.args[1].value == "solver":
                R.check(ast.unparse(n.args[0]).endswith("._tls"), m, n, f"FullFrontend.{name}: getattr(_tls, 'solver')",
                        f"FullFrontend.{name}: `{norm(n)}` reads the solver outside _tls")
    # the reuse-mode solver of the backend is per thread as well
    mz = tree.mod(Z3)
    sv = tree.func(Z3, "BackendZ3.solver")
    Fv = util.Frags(sv)
    R.check(Fv.has("s = z3.Solver(ctx=self._context)") and Fv.has("self._tls.solver = s") and Fv.has("s = self._tls.solver"), mz, sv,
            "BackendZ3.solver: created in this thread's context, cached per thread", "BackendZ3.solver changed how it caches / contextualises solvers",
            construct="BackendZ3.solver per-thread")
    cl = tree.func(Z3, "BackendZ3.clone_solver")
    R.check("s.translate(self._context)" in ast.unparse(cl), mz, cl, "clone_solver translates into this thread's context",
            "clone_solver no longer translates into self._context", construct="BackendZ3.clone_solver")


@rule(
    "C20.fresh",
    props=("C20",),
    floor=4,
    family="WHO",
    desc="what a backend stores in its per-thread storage (self._tls.x = ...) is created in that statement: it does "
    "not alias a module- or class-level object (a per-thread slot that points at one shared cell is shared state)",
)
def c20_fresh(R):
    tree = R.tree
    n = 0
    for m in tree.modules.values():
        if not m.path.startswith("claripy/backends/"):
            continue
        shared_objs = {}
        for st in m.tree.body:
            if isinstance(st, ast.Assign) and len(st.targets) == 1 and isinstance(st.targets[0], ast.Name) and isinstance(st.value, (ast.Call, ast.Dict, ast.List, ast.Set)):
                shared_objs[st.targets[0].id] = st
        for q, fn in m.functions.items():
            for st in walk_no_nested(fn):
                if not isinstance(st, ast.Assign):
                    continue
                for t in st.targets:
                    if isinstance(t, ast.Attribute) and isinstance(t.value, ast.Attribute) and t.value.attr == "_tls":
                        n += 1
                        used = sorted({x.id for x in ast.walk(st.value) if isinstance(x, ast.Name) and x.id in shared_objs})
                        cls_attrs = sorted(
                            {ast.unparse(x) for x in ast.walk(st.value) if isinstance(x, ast.Attribute) and isinstance(x.value, ast.Name) and x.value.id in ("cls", "type") }
                        )
                        R.check(
                            not used and not cls_attrs,
                            m,
                            st,
                            f"{q}: per-thread slot {t.attr} holds an object created for this thread",
                            f"{q} fills the per-thread slot `{t.attr}` from the process-wide object(s) {used + cls_attrs} "
                            f"(`{norm(st)}`): every thread's slot refers to the same object, so values written by one "
                            f"thread's Z3 call are read by another",
                        )
    R.need(n >= 4, f"only {n} per-thread slot initialisations found")


# ----------------------------------------------------------------------------- C20.weakget


def _weak_tables(tree):
    """(module, qualified name, bare name) of every module- or class-level WeakValueDictionary of the package"""
    out = []
    for m in tree.modules.values():
        scopes = [("", m.tree.body)] + [(q + ".", c.body) for q, c in m.classes.items() if "." not in q]
        for prefix, body in scopes:
            for st in body:
                tg, val = None, None
                if isinstance(st, ast.Assign) and len(st.targets) == 1 and isinstance(st.targets[0], ast.Name):
                    tg, val = st.targets[0].id, st.value
                elif isinstance(st, ast.AnnAssign) and isinstance(st.target, ast.Name) and st.value is not None:
                    tg, val = st.target.id, st.value
                if tg and isinstance(val, ast.Call) and (dotted(val.func) or "").split(".")[-1] == "WeakValueDictionary":
                    out.append((m, prefix + tg, tg))
    return out


@rule(
    "C20.weakget",
    props=("C20",),
    floor=3,
    family="TS",
    desc="a process-wide weak-valued cache is read in one step: no `cache[k]` outside a handler for KeyError (or a "
    "lock) - an entry lives only while some thread holds the cached value, so it can die between a membership test "
    "and the read when another thread drops the last reference; `.get()` tests and pins the value at once",
)
def c20_weakget(R):
    tree = R.tree
    tables = _weak_tables(tree)
    R.need(len(tables) >= 3, f"only {len(tables)} process-wide weak-valued caches found")
    names = {bare for _m, _q, bare in tables}
    reads = 0
    for mm, q, fn in tree.all_functions():
        # locals that stand for one of the tables (`cache = type(self)._hash_cache`)
        alias = set()
        for st in walk_no_nested(fn):
            if isinstance(st, ast.Assign) and len(st.targets) == 1 and isinstance(st.targets[0], ast.Name):
                d = dotted(st.value) or (ast.unparse(st.value) if isinstance(st.value, ast.Attribute) else "")
                if d.split(".")[-1] in names:
                    alias.add(st.targets[0].id)

        def is_table(e):
            if isinstance(e, ast.Name):
                return e.id in names or e.id in alias
            return isinstance(e, ast.Attribute) and e.attr in names

        for x in walk_no_nested(fn):
            if isinstance(x, ast.Call) and isinstance(x.func, ast.Attribute) and x.func.attr in ("get", "setdefault", "pop") and is_table(x.func.value):
                reads += 1
                R.ok(mm, x, f"{q}: one-step read of {norm(x.func.value)}")
            if not (isinstance(x, ast.Subscript) and isinstance(x.ctx, ast.Load) and is_table(x.value)):
                continue
            reads += 1
            protected = False
            p, child = getattr(x, "_parent", None), x
            while p is not None and p is not fn:
                if isinstance(p, ast.Try) and child in p.body:
                    for h in p.handlers:
                        hn = {n_.id if isinstance(n_, ast.Name) else n_.attr for n_ in ast.walk(h.type) if isinstance(n_, (ast.Name, ast.Attribute))} if h.type is not None else {"BaseException"}
                        if hn & {"KeyError", "LookupError", "Exception", "BaseException"}:
                            protected = True
                if isinstance(p, ast.With) and any("lock" in ast.unparse(i.context_expr).lower() for i in p.items):
                    protected = True
                if isinstance(p, ast.With):
                    for i in p.items:
                        ce = i.context_expr
                        if isinstance(ce, ast.Call) and (dotted(ce.func) or "").split(".")[-1] == "suppress":
                            sn = {n_.id if isinstance(n_, ast.Name) else n_.attr for a_ in ce.args for n_ in ast.walk(a_) if isinstance(n_, (ast.Name, ast.Attribute))}
                            if sn & {"KeyError", "LookupError", "Exception", "BaseException"}:
                                protected = True
                child, p = p, getattr(p, "_parent", None)
            R.check(
                protected,
                mm,
                x,
                f"{q}: `{norm(x)[:50]}` under a KeyError handler or a lock",
                f"{q} reads `{norm(x)[:70]}` from a process-wide weak-valued cache outside a KeyError handler: the entry lives only "
                f"while some thread holds the cached value, so after `k in cache` (or an earlier read) it can be gone when another "
                f"thread drops its last reference, and this look-up raises KeyError out of simplify() / the VSA conversion "
                f"(SolverVSA.max on an expression shared by four threads answered KeyError)",
                construct=f"{q}: unprotected item read of a shared weak cache",
            )
    R.need(reads >= 3, f"only {reads} reads of the process-wide weak caches found")
