"""C11.shortcut - answers given without looking at the constraint set.

C11 asks that every answer match the constraint set at that moment and that eval / min / max / solution answer with
feasible values only.  A mixin method that returns a value computed from the *expression alone* - without delegating
to the next layer and without a satisfiability check - answers the same for an unsatisfiable constraint set (or
unsatisfiable extra constraints) as for a satisfiable one.  ConcreteHandlerMixin does exactly that for concrete
expressions, by design (it exists to keep concrete queries away from the solver); SolverReplacement inherits it for every
symbolic expression its replacements make concrete.  The rule reports each such return; on the pinned tree they are
known findings (the behaviour is deliberate and cheap, a repair costs a solver call per concrete query).
"""

from __future__ import annotations

import ast
import re

from .. import guards, util
from ..core import norm, walk_no_nested
from ..report import rule

CH = "claripy/frontend/mixin/concrete_handler_mixin.py"
QUERIES = ("eval", "batch_eval", "min", "max", "solution")  # is_true / is_false of a constant are vacuous on an unsatisfiable set: not claimed


@rule(
    "C11.shortcut",
    props=("C11", "C13"),
    floor=5,
    family="PAIR",
    desc="every query method of ConcreteHandlerMixin that answers from the expression alone (no delegation to the next "
    "layer on that path) does so only after a satisfiability check of the constraint set with the extra constraints: "
    "otherwise an unsatisfiable set gets the same answer as a satisfiable one",
)
def c11_shortcut(R):
    tree = R.tree
    m = tree.mod(CH)
    cls = tree.cls(CH, "ConcreteHandlerMixin")
    n = 0
    for name, raw in util.methods_of(cls).items():
        if name not in QUERIES:
            continue
        fn = tree.func_inlined(CH, f"ConcreteHandlerMixin.{name}", exclude=("_concrete_value", "_concrete_constraint"))
        checked_before = {
            getattr(c, "lineno", 0)
            for c in walk_no_nested(fn)
            if isinstance(c, ast.Call) and isinstance(c.func, ast.Attribute) and c.func.attr in ("satisfiable", "check_satisfiability", "_ensure_sat")
        }
        for r in walk_no_nested(fn):
            if not (isinstance(r, ast.Return) and r.value is not None):
                continue
            delegates = any(isinstance(c, ast.Call) and util.is_super_call(c) for c in ast.walk(r.value))
            if delegates:
                continue
            # a value assembled from a delegated result counts as delegated (batch_eval mixes concrete and solved columns)
            names = {x.id for x in ast.walk(r.value) if isinstance(x, ast.Name)}
            from_super = False
            for st in walk_no_nested(fn):
                if isinstance(st, ast.Assign) and any(isinstance(t, ast.Name) and t.id in names for t in st.targets) and any(isinstance(c, ast.Call) and util.is_super_call(c) for c in ast.walk(st.value)):
                    from_super = True
            if from_super:
                continue
            n += 1
            ok = any(ln < getattr(r, "lineno", 0) for ln in checked_before)
            facts = [f for f in guards.holds(r)]
            R.check(
                ok,
                m,
                r,
                f"{name}: concrete answer only after a satisfiability check",
                f"ConcreteHandlerMixin.{name} returns `{norm(r.value)[:60]}` under {facts[-1:] or ['no condition']} without delegating and "
                f"without a satisfiability check: for an unsatisfiable constraint set (or unsatisfiable extra constraints) it "
                f"answers as if a model existed instead of raising UnsatError - s.add(x == 0); s.add(x == 4); s.eval(BVV(1, 3), 1) "
                f"is (1,), and SolverReplacement answers [0] for the symbolic x & LShR(x, 1) the same way",
                construct=f"{name}: concrete answer without consulting the constraint set",
            )
    R.need(n >= 5, f"only {n} concrete shortcuts found")


Z3B = "claripy/backends/backend_z3.py"


@rule(
    "C26.modelfold",
    props=("C26", "C03"),
    floor=1,
    family="PAIR",
    desc="BackendZ3._primitive_from_model folds (z3.simplify) a model term before handing it to the value reader, at least "
    "on the path where the term is not a value yet: Z3 leaves some terms of a completed model unevaluated",
)
def c26_modelfold(R):
    tree = R.tree
    m = tree.mod(Z3B)
    fn = tree.func_inlined(Z3B, "BackendZ3._primitive_from_model", exclude=("_abstract_to_primitive",))
    evals = [c for c in walk_no_nested(fn) if isinstance(c, ast.Call) and isinstance(c.func, ast.Attribute) and c.func.attr == "eval"]
    reads = [c for c in walk_no_nested(fn) if isinstance(c, ast.Call) and isinstance(c.func, ast.Attribute) and c.func.attr == "_abstract_to_primitive"]
    R.need(evals and reads, "_primitive_from_model no longer evaluates the model and reads the value")
    folds = [c for c in walk_no_nested(fn) if isinstance(c, ast.Call) and (util.dotted(c.func) if hasattr(util, "dotted") else "") in ("z3.simplify",) or (isinstance(c, ast.Call) and ast.unparse(c.func) == "z3.simplify")]
    ok = any(getattr(e, "lineno", 0) <= getattr(f, "lineno", 0) <= getattr(r, "lineno", 0) for e in evals for f in folds for r in reads)
    R.check(
        ok,
        m,
        fn,
        "model term folded before it is read",
        "_primitive_from_model reads the term model.eval() returned without folding it: for str.indexof with a start position "
        "beyond any string Z3 returns an If over constants, and eval(StrIndexOf(x, t, 2**64 - 1)) raised 'unknown decl op "
        "Z3_OP_INT2BV' although the expression folds to -1 concretely",
        construct="_primitive_from_model: z3.simplify between model.eval and the value reader",
    )


def _in_loop(node):
    p_ = getattr(node, "_parent", None)
    while p_ is not None and not isinstance(p_, (ast.FunctionDef, ast.AsyncFunctionDef)):
        if isinstance(p_, (ast.While, ast.For)):
            return True
        p_ = getattr(p_, "_parent", None)
    return False


@rule(
    "C11.probemodel",
    props=("C11", "C26"),
    floor=2,
    family="PAIR",
    desc="every satisfiability probe of BackendZ3._extrema hands the model of a satisfiable probe to model_callback (under "
    "no other condition than the probe's result and the callback being given): ModelCacheMixin marks the expression "
    "exhausted after min/max on the strength of those models, and the model of the optimum may come from any probe, the "
    "last one included",
)
def c11_probemodel(R):
    tree = R.tree
    m = tree.mod(Z3B)
    fn = tree.func_inlined(Z3B, "BackendZ3._extrema")
    ps = [a.arg for a in fn.args.args]
    # which parameter carries the public `model_callback` of _min / _max
    cb = None
    for c in ast.walk(tree.func(Z3B, "BackendZ3._max")):
        if isinstance(c, ast.Call) and isinstance(c.func, ast.Attribute) and c.func.attr == "_extrema":
            for i, a in enumerate(c.args):
                if isinstance(a, ast.Name) and a.id == "model_callback" and i + 1 < len(ps):
                    cb = ps[i + 1]
            for k in c.keywords:
                if isinstance(k.value, ast.Name) and k.value.id == "model_callback":
                    cb = k.arg
    R.need(cb is not None, "_max no longer passes its model_callback to _extrema")

    def blocks(node):
        for fld in ("body", "orelse", "finalbody"):
            b = getattr(node, fld, None)
            if isinstance(b, list) and b and isinstance(b[0], ast.stmt):
                yield b
                for st in b:
                    if not isinstance(st, (ast.FunctionDef, ast.AsyncFunctionDef, ast.ClassDef)):
                        yield from blocks(st)
        for h in getattr(node, "handlers", []) or []:
            yield from blocks(h)

    n = 0
    for b in blocks(fn):
        for i, st in enumerate(b):
            if not (isinstance(st, ast.Assign) and len(st.targets) == 1 and isinstance(st.targets[0], ast.Name) and isinstance(st.value, ast.Call) and (ast.unparse(st.value.func).split(".")[-1] == "z3_solver_sat")):
                continue
            n += 1
            var = st.targets[0].id
            outer = {re.sub(r"\s+", " ", f) for f in guards.holds(st)}
            found = False
            for later in b[i + 1 :]:
                if isinstance(later, ast.Assign) and any(isinstance(t, ast.Name) and t.id == var for t in later.targets):
                    break
                for c in ast.walk(later):
                    if isinstance(c, ast.Call) and isinstance(c.func, ast.Name) and c.func.id == cb:
                        extra = {re.sub(r"\s+", " ", f) for f in guards.holds(c)} - outer
                        allowed = {var, f"{cb} is not None", cb, f"{var} is True", f"{var} == True"}
                        if extra <= allowed:
                            found = True
            R.check(
                found,
                m,
                st,
                "probe reports its model",
                f"_extrema probes with `{ast.unparse(st)[:70]}` and does not hand the model of a satisfiable outcome to `{cb}` "
                f"(under nothing but the outcome and the callback being given): the optimum's model may come from this probe "
                f"only, ModelCacheMixin marks the expression exhausted all the same, and the next max() answers from the cache "
                f"with a smaller value",
                construct=f"_extrema: {'search-loop' if _in_loop(st) else 'closing'} probe reports a satisfiable model",
            )
    R.need(n >= 2, f"_extrema: only {n} probes found")


@rule(
    "C16.clonecore",
    props=("C16", "C14"),
    floor=1,
    family="SIB",
    desc="BackendZ3._unsat_core matches the members of Z3's core against both halves of every tracked assertion "
    "`Implies(literal, formula)`: a native solver obtained by clone_solver (translate) - which is what a branch with "
    "pending constraints continues on - reports the tracked formulas, not the literals",
)
def c16_clonecore(R):
    tree = R.tree
    m = tree.mod(Z3B)
    fn = util.resolve_locals(tree.func_inlined(Z3B, "BackendZ3._unsat_core"))
    clones = tree.func(Z3B, "BackendZ3.clone_solver")
    uses_translate = any(isinstance(c, ast.Call) and isinstance(c.func, ast.Attribute) and c.func.attr == "translate" for c in ast.walk(clones))
    if not uses_translate:
        R.ok(m, clones, "clone_solver does not translate: literals survive")
        return
    tests = [x for x in ast.walk(fn) if isinstance(x, ast.Compare) and len(x.ops) == 1 and isinstance(x.ops[0], ast.In)]
    halves = set()
    for t in tests:
        mm = re.search(r"\.children\(\)\[(\d)\]$", ast.unparse(t.left))
        if mm:
            halves.add(mm.group(1))
    R.check(
        {"0", "1"} <= halves,
        m,
        fn,
        "core members matched by literal and by formula",
        f"_unsat_core looks for the members of the core only among the halves {sorted(halves)} of the tracked assertions; a "
        f"cloned solver (translate) reports the formulas themselves, so after add(c1); is_true(..); add(c2); branch() the core "
        f"came back empty on both sides although c1 alone is unsatisfiable",
        construct="_unsat_core: which half of a tracked assertion is looked up in the core",
    )


@rule(
    "C16.trackname",
    props=("C16", "C11"),
    floor=1,
    family="GRD",
    desc="BackendZ3._add leaves a tracked constraint unasserted only after comparing *formulas* (structural .eq): the "
    "names constraints are tracked under come from Z3's 32-bit AST hash, which collides",
)
def c16_trackname(R):
    tree = R.tree
    m = tree.mod(Z3B)
    fn = tree.func_inlined(Z3B, "BackendZ3._add")
    calls = [c for c in walk_no_nested(fn) if isinstance(c, ast.Call) and isinstance(c.func, ast.Attribute) and c.func.attr == "assert_and_track"]
    R.need(len(calls) >= 1, "_add no longer asserts tracked constraints with assert_and_track")
    for c in calls:
        loop = getattr(c, "_parent", None)
        while loop is not None and not isinstance(loop, (ast.For, ast.FunctionDef)):
            loop = getattr(loop, "_parent", None)
        inner = [t for t, pol in guards.guards_of(c, stop=loop)] if isinstance(loop, ast.For) else []
        if not inner:
            R.ok(m, c, "every tracked constraint is asserted")
            continue
        var = {x.id for x in ast.walk(loop.target) if isinstance(x, ast.Name)}
        eqs = [
            k
            for k in ast.walk(loop)
            if isinstance(k, ast.Call)
            and isinstance(k.func, ast.Attribute)
            and k.func.attr == "eq"
            and (any(isinstance(x, ast.Name) and x.id in var for a in k.args for x in ast.walk(a)) or any(isinstance(x, ast.Name) and x.id in var for x in ast.walk(k.func.value)))
        ]
        R.check(
            bool(eqs),
            m,
            c,
            "a constraint is skipped only as the same formula",
            f"BackendZ3._add asserts a tracked constraint only under `{' and '.join(ast.unparse(t)[:50] for t in inner)}` and never "
            f"compares the formula itself: the name is Z3's 32-bit AST hash, x + y == 643 and x + y == 3839 share one, the second "
            f"was never asserted and a tracked solver answered satisfiable with an empty core",
            construct="_add: tracked constraint skipped by name alone",
        )


FF = "claripy/frontend/full_frontend.py"


@rule(
    "C16.owncore",
    props=("C16",),
    floor=1,
    family="DEP",
    desc="what FullFrontend.unsat_core returns for an unsatisfiable set is drawn from the solver's own constraints (it depends "
    "on self.constraints): the backend alone recognises tracked formulas through a process-wide cache that downsize() "
    "empties and other solvers overwrite",
)
def c16_owncore(R):
    tree = R.tree
    m = tree.mod(FF)
    fn = tree.func(FF, "FullFrontend.unsat_core")
    nested = {n.name: n for n in ast.walk(fn) if isinstance(n, (ast.FunctionDef, ast.Lambda)) and n is not fn and hasattr(n, "name")}
    assigns = {}
    for n in ast.walk(fn):
        if isinstance(n, ast.Assign):
            for t in n.targets:
                for x in ast.walk(t):
                    if isinstance(x, ast.Name):
                        assigns.setdefault(x.id, []).append(n.value)
    n_ret = 0
    for r in ast.walk(fn):
        if not (isinstance(r, ast.Return) and r.value is not None):
            continue
        owner = getattr(r, "_parent", None)
        while owner is not None and not isinstance(owner, (ast.FunctionDef, ast.Lambda)):
            owner = getattr(owner, "_parent", None)
        if owner is not fn:
            continue
        if isinstance(r.value, (ast.Tuple, ast.List)) and not r.value.elts:
            continue  # satisfiable: the empty core
        n_ret += 1
        seen, work, dep = set(), [r.value], False
        while work:
            e = work.pop()
            for x in ast.walk(e):
                if isinstance(x, ast.Attribute) and ast.unparse(x) == "self.constraints":
                    dep = True
                if isinstance(x, ast.Name) and x.id not in seen:
                    seen.add(x.id)
                    work.extend(assigns.get(x.id, []))
                    if x.id in nested:
                        work.extend(nested[x.id].body)
        R.check(
            dep,
            m,
            r,
            "the core is matched against the solver's own constraints",
            f"FullFrontend.unsat_core returns `{norm(r.value)[:80]}`, which does not depend on self.constraints: after "
            f"claripy.backends.z3.downsize() the core of [x >=s 5, x + y <= 3, y == 0 (annotated)] came back as 5 <=s x, .., 0 == y "
            f"without the annotation, and a second tracked solver holding the same formulas decided which annotations were reported",
            construct="unsat_core: core elements drawn from self.constraints",
        )
    R.need(n_ret >= 1, "FullFrontend.unsat_core: no return of a core found")


@rule(
    "FE.z3cow.who",
    props=("C14", "C11"),
    floor=2,
    family="WHO",
    desc="the native solver of a FullFrontend receives constraints in one place only: _get_solver (which first replaces a "
    "solver shared with a finalized copy by a clone) and the helper it calls; no other method of the frontend classes "
    "pushes constraints into `self._tls.solver`",
)
def fe_z3cow_who(R):
    tree = R.tree
    m = tree.mod(FF)
    cls = tree.cls(FF, "FullFrontend")
    ms = util.methods_of(cls)
    pushers = set()
    for name, fn in ms.items():
        for c in walk_no_nested(fn):
            if isinstance(c, ast.Call) and isinstance(c.func, ast.Attribute) and c.func.attr == "add" and ast.unparse(c.func.value).endswith("_solver_backend"):
                pushers.add(name)
    R.need(pushers, "FullFrontend: no method asserts into the native solver any more")
    # callers, transitively, inside the frontend package
    n = 0
    allowed_entry = "_get_solver"
    for mm in tree.modules.values():
        if not mm.path.startswith("claripy/frontend/"):
            continue
        for q, fn in mm.functions.items():
            short = q.split(".")[-1]
            for c in walk_no_nested(fn):
                if not (isinstance(c, ast.Call) and isinstance(c.func, ast.Attribute)):
                    continue
                direct = c.func.attr == "add" and ast.unparse(c.func.value).endswith("_solver_backend")
                via = c.func.attr in pushers and isinstance(c.func.value, ast.Name) and c.func.value.id == "self" and c.func.attr != allowed_entry
                if not (direct or via):
                    continue
                n += 1
                ok = (direct and short in pushers and mm.path == FF) or (via and short == allowed_entry and mm.path == FF)
                R.check(
                    ok,
                    mm,
                    c,
                    f"{q}: constraints reach the native solver through _get_solver only",
                    f"{q} pushes constraints into the native solver (`{norm(c)[:70]}`) outside _get_solver: a solver that was finalized "
                    f"by an earlier branch shares its native solver with that copy, and only _get_solver replaces it by a clone first - "
                    f"after query; branch; add; branch the first branch answered with the later constraint (b1.max(x) = 3 instead of 9)",
                    construct=f"{q}: asserts into the native solver",
                )
    R.need(n >= 2, f"only {n} sites assert into the native solver")


@rule(
    "C02.zerosign",
    props=("C02", "C26"),
    floor=1,
    family="GRD",
    desc="no order comparison of X with 0 is evaluated under the fact X == 0: it is constant, and where it is meant to "
    "give the sign of a floating-point zero the sign of -0.0 is lost (the sign of a zero is read with copysign, from the "
    "text or from the bits)",
)
def c02_zerosign(R):
    tree = R.tree
    n = 0
    scanned = 0
    for mm in tree.modules.values():
        for q, fn in mm.functions.items():
            src = ast.unparse(fn)
            if "== 0" not in src and "== 0.0" not in src:
                continue
            scanned += 1
            for c in walk_no_nested(fn):
                if not (isinstance(c, ast.Compare) and len(c.ops) == 1 and isinstance(c.ops[0], (ast.Lt, ast.Gt))):
                    continue
                a, b = c.left, c.comparators[0]
                if isinstance(b, ast.Constant) and b.value == 0 and not isinstance(b.value, bool):
                    x = ast.unparse(a)
                elif isinstance(a, ast.Constant) and a.value == 0 and not isinstance(a.value, bool):
                    x = ast.unparse(b)
                else:
                    continue
                facts = [re.sub(r"\s+", " ", f) for f in guards.holds(c)]
                if any(f in (f"{x} == 0", f"{x} == 0.0", f"0 == {x}", f"0.0 == {x}") for f in facts):
                    n += 1
                    R.bad(
                        mm,
                        c,
                        f"{q} evaluates `{norm(c)}` under the fact `{x} == 0`: the comparison is constant (False also for -0.0), so "
                        f"as the sign of a zero it turns -0.0 into +0.0 - FPV(-0.0) reached Z3 as +0.0 and 1.0 / -0.0 was +inf on the "
                        f"solver path",
                        construct=f"{q}: sign of a zero by order comparison",
                    )
    R.need(scanned >= 20, f"only {scanned} functions with a zero test scanned")
    if n == 0:
        R.ok(tree.mod(Z3B), None, f"no order comparison with 0 under a zero fact in {scanned} functions that test for zero")


@rule(
    "C03.blocklit",
    props=("C03", "C26", "C11"),
    floor=2,
    family="DEP",
    desc="a Python str that BackendZ3 compares with a Z3 term (the value it blocks in _batch_eval, the candidate of "
    "_solution) is first turned into a string constant through the backend's own encoder: z3py would coerce it without "
    "escaping and read `\\u{41}` inside a found value as the character A",
)
def c03_blocklit(R):
    tree = R.tree
    m = tree.mod(Z3B)
    n = 0

    def encodes(e):
        return any(isinstance(c, ast.Call) and ((isinstance(c.func, ast.Attribute) and c.func.attr == "_string_literal") or (isinstance(c.func, ast.Name) and c.func.id == "_z3_string_encode")) for c in ast.walk(e))

    for name in ("_batch_eval", "_solution"):
        fn = tree.func(Z3B, f"BackendZ3.{name}")
        assigns = {}
        for st in ast.walk(fn):
            if isinstance(st, ast.Assign):
                for t in st.targets:
                    for x in ast.walk(t):
                        if isinstance(x, ast.Name):
                            assigns.setdefault(x.id, []).append(st.value)
        # primitive values: what _primitive_from_model produced (and containers they were put into), or the candidate
        prim = set()
        if name == "_solution":
            prim.add([a.arg for a in fn.args.args][2])
        for _ in range(3):
            for c in ast.walk(fn):
                if isinstance(c, ast.Assign) and any(isinstance(k, ast.Call) and isinstance(k.func, ast.Attribute) and k.func.attr == "_primitive_from_model" for k in ast.walk(c.value)):
                    prim |= {x.id for t in c.targets for x in ast.walk(t) if isinstance(x, ast.Name)}
                if isinstance(c, ast.Call) and isinstance(c.func, ast.Attribute) and c.func.attr == "append" and isinstance(c.func.value, ast.Name) and any(isinstance(x, ast.Name) and x.id in prim for a in c.args for x in ast.walk(a)):
                    prim.add(c.func.value.id)
        # ... and what is computed from them
        for _ in range(3):
            for nm, ds in assigns.items():
                if nm not in prim and any(isinstance(x, ast.Name) and x.id in prim for d in ds for x in ast.walk(d)):
                    prim.add(nm)
        for cmp_ in ast.walk(fn):
            if not (isinstance(cmp_, ast.Compare) and len(cmp_.ops) == 1 and isinstance(cmp_.ops[0], (ast.Eq, ast.NotEq))):
                continue
            sides = [cmp_.left, cmp_.comparators[0]]
            for side in sides:
                names = {x.id for x in ast.walk(side) if isinstance(x, ast.Name)}
                # a comprehension variable ranges over what it is drawn from
                srcs = set(names)
                for comp in ast.walk(fn):
                    if isinstance(comp, ast.comprehension):
                        tn = [x.id for x in ast.walk(comp.target) if isinstance(x, ast.Name)]
                        if names & set(tn):
                            srcs |= {x.id for x in ast.walk(comp.iter) if isinstance(x, ast.Name)}
                raw = srcs & prim
                if not raw:
                    continue
                # is the value used here a raw primitive, or one that went through the encoder?
                n += 1
                ok = True
                for v in raw:
                    defs = assigns.get(v, [])
                    # reassigned through the encoder under an isinstance(v, str) test, or used raw
                    ok = ok and any(encodes(d) for d in defs)
                R.check(
                    ok,
                    m,
                    cmp_,
                    f"{name}: string values are compared as encoded constants",
                    f"BackendZ3.{name} compares a Z3 term with the raw Python value `{ast.unparse(side)[:40]}`: for a str z3py builds the "
                    f"constant without claripy's escaping, so a found `\\\\u{{41}}` is read as A - eval(x, 10) over {{\\\\u{{41}}, A, B}} "
                    f"returned one value ten times, and solution(x, '\\\\u{{41}}') was False for x pinned to that text",
                    construct=f"{name}: raw model value compared with a Z3 term",
                )
    R.need(n >= 2, f"only {n} comparisons of model values found in _batch_eval / _solution")


@rule(
    "C17.condom",
    props=("C17",),
    floor=3,
    family="WHO",
    desc="every method of BackendZ3 that asks the native solver (calls z3_solver_sat, directly or through a method of the "
    "class that is not itself guarded) runs inside the Z3 guard `condom`, which turns a z3.Z3Exception into ClaripyZ3Error: "
    "Z3 reports some resource limits by raising from Solver.check",
)
def c17_condom(R):
    tree = R.tree
    m = tree.mod(Z3B)
    cls = tree.cls(Z3B, "BackendZ3")
    ms = util.methods_of(cls)

    def guarded(fn):
        return any((isinstance(d, ast.Name) and d.id == "condom") or (isinstance(d, ast.Attribute) and d.attr == "condom") for d in fn.decorator_list)

    asks = {name for name, fn in ms.items() if any(isinstance(c, ast.Call) and isinstance(c.func, ast.Name) and c.func.id == "z3_solver_sat" for c in ast.walk(fn))}
    n = 0
    # an unguarded method that asks is fine only if every caller inside the class is guarded
    callers = {}
    for name, fn in ms.items():
        for c in ast.walk(fn):
            if isinstance(c, ast.Call) and isinstance(c.func, ast.Attribute) and isinstance(c.func.value, ast.Name) and c.func.value.id == "self" and c.func.attr in ms:
                callers.setdefault(c.func.attr, set()).add(name)
    for name in sorted(asks):
        n += 1
        fn = ms[name]
        ok = guarded(fn)
        if not ok:
            cs = callers.get(name, set())
            # private helper reached only from guarded methods (never from outside: the Backend base class calls the
            # underscore methods by name, so anything it may call has to be guarded itself)
            ok = bool(cs) and all(guarded(ms[c]) for c in cs) and name not in _BACKEND_ENTRY
        R.check(
            ok,
            m,
            fn,
            f"BackendZ3.{name} asks the solver inside the guard",
            f"BackendZ3.{name} calls z3_solver_sat outside the Z3 guard: a z3.Z3Exception raised by Solver.check ('max. memory "
            f"exceeded') escapes as a foreign exception from satisfiable() / solution() / min() / max() / unsat_core() of every "
            f"solver class instead of a claripy error",
            construct=f"{name}: solver asked outside condom",
        )
    R.need(n >= 3, f"only {n} methods of BackendZ3 ask the solver")


# the underscore methods the Backend base class dispatches to
_BACKEND_ENTRY = {"_satisfiable", "_solution", "_eval", "_batch_eval", "_min", "_max", "_unsat_core", "_check_satisfiability"}
