"""C22.widen - the stride / lattice clause of StridedInterval.widen, with the machinery of C21.joinstride.

`a.widen(b)` must contain both operands (C22).  As for the join, it is necessary that the stride of the constructed
result divides the stride of every operand that may hold several values and the offset between the result's lattice
and each operand's lower bound.  widen() moves a bound to the extreme of the number line with
`StridedInterval.lower(bits, i, stride)` / `upper(bits, i, stride)`, which return the extreme value *congruent to i
modulo stride*; for divisibility by that same stride the moved bound therefore stands for `i`.  One more clause is
visible in the shape of the code: lower() answers on the signed line (>= -2**(w-1)) and upper() on the unsigned one
(<= 2**w - 1), so a result built from *both* spans more than one turn of the circle and denotes, after reduction
modulo 2**w, an arc that need not contain either operand - such a path has to give TOP.
"""

from __future__ import annotations

import ast

from ..core import dotted, norm, positional_params
from ..report import rule
from .joinstride import EVERYTHING, SI, _built, _kw, _NotLinear, divides, linear, paths


def _extreme(e):
    """('lower' | 'upper', i, stride) for StridedInterval.lower(bits, i, stride) / upper(...)"""
    if isinstance(e, ast.Call) and (dotted(e.func) or "").split(".")[-1] in ("lower", "upper") and len(e.args) == 3 and not e.keywords:
        return (dotted(e.func) or "").split(".")[-1], e.args[1], e.args[2]
    return None


@rule(
    "C22.widen",
    props=("C22",),
    floor=6,
    family="FIN",
    desc="stride clause of widening, for all inputs: on every path of StridedInterval.widen the constructed result's "
    "stride provably divides the stride of each operand that may hold several values and the offset of each operand's "
    "lower bound from the result's lattice (a bound moved with lower()/upper() stands for the value it is aligned to); "
    "a result with both bounds moved to the extremes is TOP; an operand is handed back only where the other is empty",
)
def c22_widen(R):
    tree = R.tree
    m = tree.mod(SI)
    fn = tree.func_inlined(SI, "StridedInterval.widen", exclude=("_modular_sub", "_modular_add", "_wrapped_cardinality", "lower", "upper"))
    ps = positional_params(fn)
    R.need(len(ps) == 2, "StridedInterval.widen no longer takes two operands")
    s, b = ps
    ops = (s, b)
    n = 0
    for facts, ret, st in paths(fn):
        fset = set(facts)

        def singleton(x):
            return (f"{x}.is_integer", True) in fset or (f"{x}.is_interval", False) in fset or (f"{x}.stride == 0", True) in fset

        def empty(x):
            return (f"{x}.is_empty", True) in fset

        def canon(text):
            for x in ops:
                if singleton(x) and text == f"{x}.upper_bound":
                    return f"{x}.lower_bound"
            return text

        if isinstance(ret, ast.Name) and ret.id in ops:
            other = b if ret.id == s else s
            R.check(
                empty(other),
                m,
                st,
                f"`{ret.id}` handed back only where {other} is empty",
                f"widen hands back its operand `{ret.id}` on a path where the other operand is not known to be empty: "
                f"the other operand's values are not in the result",
                construct=f"widen: {'first' if ret.id == s else 'second'} operand handed back unchanged",
            )
            continue
        c = _built(ret)
        if c is None:
            continue
        E, L, U = _kw(c, "stride"), _kw(c, "lower_bound"), _kw(c, "upper_bound")
        if E is None or L is None or U is None:
            continue
        n += 1
        exl, exu = _extreme(L), _extreme(U)
        R.check(
            not (exl and exu and exl[0] == "lower" and exu[0] == "upper") or (singleton(s) and singleton(b)),
            m,
            st,
            "not both bounds at the extremes",
            f"widen builds `{norm(c)[:200]}` on a path where the lower bound is moved to the signed minimum and the upper "
            f"bound to the unsigned maximum: the pair spans more than 2**w values and, reduced modulo 2**w, is an arc that "
            f"need not contain either operand - this path must give TOP",
            construct="widen: both bounds moved to the extremes, result not TOP",
        )
        div = divides(E, canon, {})
        # a bound aligned to i modulo this very stride stands for i
        base = L
        if exl is not None and norm(exl[2]) == norm(E):
            base = exl[1]
        try:
            lbase = linear(base, canon, {})
        except _NotLinear:
            lbase = None
        for x in ops:
            if empty(x):
                continue
            if not singleton(x):
                R.check(
                    div == EVERYTHING or ("stride", x) in div,
                    m,
                    st,
                    f"result stride divides {x}.stride",
                    f"widen builds a result with stride `{norm(E)[:120]}`, not known to divide {x}.stride",
                    construct=f"widen: stride of the result divides the {'first' if x == s else 'second'} operand's stride",
                )
            if lbase is None:
                continue
            try:
                off = linear(ast.BinOp(left=ast.Attribute(value=ast.Name(id=x, ctx=ast.Load()), attr="lower_bound", ctx=ast.Load()), op=ast.Sub(), right=base), canon, {})
            except _NotLinear:
                continue
            if not off:
                R.ok(m, st, f"the result's lattice passes through {x}.lower_bound")
                continue
            R.check(
                div == EVERYTHING or ("lin", frozenset(off.items())) in div,
                m,
                st,
                f"result stride divides the offset of {x}.lower_bound",
                f"widen builds a result with stride `{norm(E)[:120]}` on the lattice of `{norm(base)[:60]}`; the stride is not "
                f"known to divide ({x}.lower_bound - {norm(base)[:40]}) mod 2**w, so the members of {x} need not be on the "
                f"result's lattice (0 widen <4>2[1, 3] gives <4>2[0, 14])",
                construct=f"widen: stride of the result divides the offset of the {'first' if x == s else 'second'} operand's lower bound",
            )
    R.need(n >= 2, f"widen: only {n} constructed results found on its paths")
