"""C22.widen - the stride / lattice clause of StridedInterval.widen, with the machinery of C21.joinstride.

`a.widen(b)` must contain both operands (C22).  As for the join, it is necessary that the stride of the constructed
result divides the stride of every operand that may hold several values and the offset between the result's lattice
and each operand's lower bound.  widen() moves a bound to the extreme of the number line with
`StridedInterval.lower(bits, i, stride)` / `upper(bits, i, stride)`, which return the extreme value *congruent to i
modulo stride*; for divisibility by that same stride the moved bound therefore stands for `i`.  One more clause is
visible in the shape of the code: lower() answers on the signed line (>= -2**(w-1)) and upper() on the unsigned one
(<= 2**w - 1), so a result built from *both* spans more than one turn of the circle and denotes, after reduction
modulo 2**w, an arc that need not contain either operand - such a path has to give TOP.
"""

from __future__ import annotations

import ast

from ..core import dotted, norm, positional_params
from ..report import rule
from .joinstride import EVERYTHING, SI, _built, _kw, _NotLinear, divides, linear, paths


def _extreme(e):
    """('lower' | 'upper', i, stride) for StridedInterval.lower(bits, i, stride) / upper(...)"""
    if isinstance(e, ast.Call) and (dotted(e.func) or "").split(".")[-1] in ("lower", "upper") and len(e.args) == 3 and not e.keywords:
        return (dotted(e.func) or "").split(".")[-1], e.args[1], e.args[2]
    return None


def _mod_diff(e, a, b_):
    """`e` is (a - b_) reduced modulo 2**w (any width expression)"""
    if isinstance(e, ast.BinOp) and isinstance(e.op, (ast.Mod, ast.BitAnd)) and isinstance(e.left, ast.BinOp) and isinstance(e.left.op, ast.Sub):
        return ast.unparse(e.left.left) == a and ast.unparse(e.left.right) == b_
    if isinstance(e, ast.Call) and (dotted(e.func) or "").split(".")[-1] == "_modular_sub" and len(e.args) >= 2:
        return ast.unparse(e.args[0]) == a and ast.unparse(e.args[1]) == b_
    return False


def _containment_ok(tree, name):
    """the helper `name(self, x)` answers True only where x is inside self: the arc test
    (x.lb - self.lb) + (x.ub - x.lb) <= (self.ub - self.lb), all modulo 2**w, and the lattice test (offset and x's stride
    divisible by self's stride, or x a single value).  Returns a list of what is missing."""
    import re

    from .. import guards, util
    from ..core import walk_no_nested

    fn = util.resolve_locals(tree.func_inlined(SI, f"StridedInterval.{name}"))
    ps = positional_params(fn)
    if len(ps) != 2:
        return [f"{name} does not take (self, x)"]
    me, x = ps
    missing = []
    n = 0
    for r in walk_no_nested(fn):
        if not (isinstance(r, ast.Return) and r.value is not None):
            continue
        if isinstance(r.value, ast.Constant) and r.value.value is False:
            continue
        facts = guards.guards_of(r)
        texts = [re.sub(r"\s+", " ", f) for f in guards.holds(r)]
        if f"{x}.is_empty" in texts:
            continue
        n += 1
        arc = False
        for t, pol in facts:
            if isinstance(t, ast.Compare) and len(t.ops) == 1 and isinstance(t.left, ast.BinOp) and isinstance(t.left.op, ast.Add):
                gt = isinstance(t.ops[0], ast.Gt) and not pol
                le = isinstance(t.ops[0], ast.LtE) and pol
                if not (gt or le):
                    continue
                parts = (t.left.left, t.left.right)
                span = t.comparators[0]
                has_off = any(_mod_diff(p_, f"{x}.lower_bound", f"{me}.lower_bound") for p_ in parts)
                has_xs = any(_mod_diff(p_, f"{x}.upper_bound", f"{x}.lower_bound") for p_ in parts)
                if has_off and has_xs and _mod_diff(span, f"{me}.upper_bound", f"{me}.lower_bound"):
                    arc = True
        if not arc:
            missing.append(f"the answer `{norm(r.value)[:50]}` is not under the arc test offset + span(x) <= span(self)")
        v = ast.unparse(r.value) + " ; " + " ; ".join(texts)
        lattice = (f"% {me}.stride == 0" in v and f"{x}.stride % {me}.stride == 0" in v) or (f"{me}.stride == 0" in " ".join(texts))
        if not lattice:
            missing.append(f"the answer `{norm(r.value)[:50]}` does not test the offset and {x}.stride for divisibility by {me}.stride")
    if n == 0:
        missing.append(f"{name} has no answer to examine")
    return missing


def _containment_net(fn, s, b):
    """(helper name, statement) when every value `widen` returns has passed `R.helper(s) and R.helper(b)` or is TOP:
    the last statements are `if not (R.h(s) and R.h(b)): R = <top>` and `return R`"""
    body = [st for st in fn.body if not (isinstance(st, ast.Expr) and isinstance(st.value, ast.Constant))]
    if len(body) < 2 or not (isinstance(body[-1], ast.Return) and isinstance(body[-1].value, ast.Name)):
        return None
    rname = body[-1].value.id
    if any(isinstance(x, ast.Return) for st in body[:-2] for x in ast.walk(st)):
        return None
    guard = body[-2]
    if not (isinstance(guard, ast.If) and not guard.orelse and len(guard.body) == 1):
        return None
    asg = guard.body[0]
    # `R = <top>` (falling through to `return R`) or `return <top>` straight away
    if isinstance(asg, ast.Assign):
        if not (len(asg.targets) == 1 and isinstance(asg.targets[0], ast.Name) and asg.targets[0].id == rname):
            return None
        topv = asg.value
    elif isinstance(asg, ast.Return) and asg.value is not None:
        topv = asg.value
    else:
        return None
    if not (isinstance(topv, ast.Call) and (dotted(topv.func) or "").split(".")[-1] == "top"):
        return None
    t = guard.test
    # `not (A and B)` or `not A or not B`
    if isinstance(t, ast.UnaryOp) and isinstance(t.op, ast.Not) and isinstance(t.operand, ast.BoolOp) and isinstance(t.operand.op, ast.And):
        conj = list(t.operand.values)
    elif isinstance(t, ast.BoolOp) and isinstance(t.op, ast.Or) and all(isinstance(v, ast.UnaryOp) and isinstance(v.op, ast.Not) for v in t.values):
        conj = [v.operand for v in t.values]
    else:
        return None
    helpers, covered = set(), set()
    for c in conj:
        if isinstance(c, ast.Call) and isinstance(c.func, ast.Attribute) and isinstance(c.func.value, ast.Name) and c.func.value.id == rname and len(c.args) == 1 and isinstance(c.args[0], ast.Name):
            helpers.add(c.func.attr)
            covered.add(c.args[0].id)
    if len(helpers) == 1 and {s, b} <= covered:
        return next(iter(helpers)), guard
    return None


@rule(
    "C22.widen",
    props=("C22",),
    floor=1,
    family="FIN",
    desc="stride clause of widening, for all inputs: on every path of StridedInterval.widen the constructed result's "
    "stride provably divides the stride of each operand that may hold several values and the offset of each operand's "
    "lower bound from the result's lattice (a bound moved with lower()/upper() stands for the value it is aligned to); "
    "a result with both bounds moved to the extremes is TOP; an operand is handed back only where the other is empty",
)
def c22_widen(R):
    tree = R.tree
    m = tree.mod(SI)
    from .. import util

    raw = util.resolve_locals(tree.func(SI, "StridedInterval.widen"))
    rps = positional_params(raw)
    R.need(len(rps) == 2, "StridedInterval.widen no longer takes two operands")
    net = _containment_net(tree.func(SI, "StridedInterval.widen"), rps[0], rps[1]) or _containment_net(raw, rps[0], rps[1])
    if net is not None:
        # whatever the extrapolation builds, it is returned only after it has been found to contain both operands
        # (the full interval otherwise): the per-path obligations below are discharged by the test itself, provided
        # the test is a containment test
        helper, guard = net
        missing = _containment_ok(tree, helper)
        R.check(
            not missing,
            m,
            guard,
            f"every result of widen has passed {helper}(operand) for both operands or is TOP, and {helper} is a containment test",
            f"widen relies on `{helper}` to keep only results that contain both operands, but {'; '.join(missing)}",
            construct=f"widen: containment net through {helper}",
        )
        return
    fn = tree.func_inlined(SI, "StridedInterval.widen", exclude=("_modular_sub", "_modular_add", "_wrapped_cardinality", "lower", "upper"))
    ps = positional_params(fn)
    R.need(len(ps) == 2, "StridedInterval.widen no longer takes two operands")
    s, b = ps
    ops = (s, b)
    n = 0
    for facts, ret, st in paths(fn):
        fset = set(facts)

        def singleton(x):
            return (f"{x}.is_integer", True) in fset or (f"{x}.is_interval", False) in fset or (f"{x}.stride == 0", True) in fset

        def empty(x):
            return (f"{x}.is_empty", True) in fset

        def canon(text):
            for x in ops:
                if singleton(x) and text == f"{x}.upper_bound":
                    return f"{x}.lower_bound"
            return text

        if isinstance(ret, ast.Name) and ret.id in ops:
            other = b if ret.id == s else s
            R.check(
                empty(other),
                m,
                st,
                f"`{ret.id}` handed back only where {other} is empty",
                f"widen hands back its operand `{ret.id}` on a path where the other operand is not known to be empty: "
                f"the other operand's values are not in the result",
                construct=f"widen: {'first' if ret.id == s else 'second'} operand handed back unchanged",
            )
            continue
        c = _built(ret)
        if c is None:
            continue
        E, L, U = _kw(c, "stride"), _kw(c, "lower_bound"), _kw(c, "upper_bound")
        if E is None or L is None or U is None:
            continue
        n += 1
        exl, exu = _extreme(L), _extreme(U)
        R.check(
            not (exl and exu and exl[0] == "lower" and exu[0] == "upper") or (singleton(s) and singleton(b)),
            m,
            st,
            "not both bounds at the extremes",
            f"widen builds `{norm(c)[:200]}` on a path where the lower bound is moved to the signed minimum and the upper "
            f"bound to the unsigned maximum: the pair spans more than 2**w values and, reduced modulo 2**w, is an arc that "
            f"need not contain either operand - this path must give TOP",
            construct="widen: both bounds moved to the extremes, result not TOP",
        )
        div = divides(E, canon, {})
        # a bound aligned to i modulo this very stride stands for i
        base = L
        if exl is not None and norm(exl[2]) == norm(E):
            base = exl[1]
        try:
            lbase = linear(base, canon, {})
        except _NotLinear:
            lbase = None
        for x in ops:
            if empty(x):
                continue
            if not singleton(x):
                R.check(
                    div == EVERYTHING or ("stride", x) in div,
                    m,
                    st,
                    f"result stride divides {x}.stride",
                    f"widen builds a result with stride `{norm(E)[:120]}`, not known to divide {x}.stride",
                    construct=f"widen: stride of the result divides the {'first' if x == s else 'second'} operand's stride",
                )
            if lbase is None:
                continue
            try:
                off = linear(ast.BinOp(left=ast.Attribute(value=ast.Name(id=x, ctx=ast.Load()), attr="lower_bound", ctx=ast.Load()), op=ast.Sub(), right=base), canon, {})
            except _NotLinear:
                continue
            if not off:
                R.ok(m, st, f"the result's lattice passes through {x}.lower_bound")
                continue
            R.check(
                div == EVERYTHING or ("lin", frozenset(off.items())) in div,
                m,
                st,
                f"result stride divides the offset of {x}.lower_bound",
                f"widen builds a result with stride `{norm(E)[:120]}` on the lattice of `{norm(base)[:60]}`; the stride is not "
                f"known to divide ({x}.lower_bound - {norm(base)[:40]}) mod 2**w, so the members of {x} need not be on the "
                f"result's lattice (0 widen <4>2[1, 3] gives <4>2[0, 14])",
                construct=f"widen: stride of the result divides the offset of the {'first' if x == s else 'second'} operand's lower bound",
            )
    R.need(n >= 2, f"widen: only {n} constructed results found on its paths")
