"""VSA domain: strided intervals (C21), interval sets / value sets (C23), VSA evaluation (C24),
constraint_to_si (C25)."""

from __future__ import annotations

import ast
import itertools
import re

from .. import guards, refs, util
from ..core import AnalysisError, FuncTypes, dotted, norm, positional_params, walk_no_nested
from ..report import rule
from .ast_tables import dispatch, registry

SI = "claripy/backends/backend_vsa/strided_interval.py"
DSIS = "claripy/backends/backend_vsa/discrete_strided_interval_set.py"
VS = "claripy/backends/backend_vsa/valueset.py"
BR = "claripy/backends/backend_vsa/bool_result.py"
BV = "claripy/backends/backend_vsa/backend_vsa.py"
BAL = "claripy/backends/backend_vsa/balancer.py"
LF = "claripy/frontend/light_frontend.py"
OPS = "claripy/operations.py"

CMP_REL = {"SLT": "<", "SLE": "<=", "SGT": ">", "SGE": ">=", "ULT": "<", "ULE": "<=", "UGT": ">", "UGE": ">="}


def _calls(fn):
    return [n for n in ast.walk(fn) if isinstance(n, ast.Call)]


# ----------------------------------------------------------------------------- C21.cmp


def _eval_test(t, env):
    """Evaluate a comparison/boolean expression over integer-valued names."""
    if isinstance(t, ast.Compare):
        left = _eval_num(t.left, env)
        for op, right in zip(t.ops, t.comparators):
            r = _eval_num(right, env)
            ok = {ast.Lt: left < r, ast.LtE: left <= r, ast.Gt: left > r, ast.GtE: left >= r, ast.Eq: left == r, ast.NotEq: left != r}.get(type(op))
            if ok is None:
                raise AnalysisError(f"C21.cmp: comparison operator outside the fragment: {ast.unparse(t)}")
            if not ok:
                return False
            left = r
        return True
    if isinstance(t, ast.BoolOp):
        vals = [_eval_test(v, env) for v in t.values]
        return all(vals) if isinstance(t.op, ast.And) else any(vals)
    if isinstance(t, ast.UnaryOp) and isinstance(t.op, ast.Not):
        return not _eval_test(t.operand, env)
    raise AnalysisError(f"C21.cmp: test outside the fragment: {ast.unparse(t)}")


def _eval_num(e, env):
    if isinstance(e, ast.Name):
        if e.id not in env:
            raise AnalysisError(f"C21.cmp: comparison reads `{e.id}`, which is not one of the four piece bounds")
        return env[e.id]
    if isinstance(e, ast.Constant) and isinstance(e.value, int):
        return e.value
    raise AnalysisError(f"C21.cmp: operand outside the fragment: {ast.unparse(e)}")


def _verdict_of(stmts, env):
    """Interpret the per-piece if/elif/else chain; returns 'T' | 'F' | 'M' | None (no verdict appended)."""
    for st in stmts:
        if isinstance(st, ast.If):
            branch = st.body if _eval_test(st.test, env) else st.orelse
            v = _verdict_of(branch, env)
            if v is not None:
                return v
        elif isinstance(st, ast.Expr) and isinstance(st.value, ast.Call) and isinstance(st.value.func, ast.Attribute) and st.value.func.attr == "append":
            a = st.value.args[0]
            nm = dotted(a.func) if isinstance(a, ast.Call) else None
            return {"TrueResult": "T", "FalseResult": "F", "MaybeResult": "M"}.get(nm)
        elif isinstance(st, (ast.Pass,)):
            continue
        else:
            raise AnalysisError(f"C21.cmp: statement outside the fragment: {norm(st)}")
    return None


def _aggregate(fn, verdicts):
    """Interpret the aggregation tail of a comparison on a list of piece verdicts."""
    tail = [st for st in fn.body if not isinstance(st, (ast.For, ast.Assign)) and not (isinstance(st, ast.Expr) and isinstance(st.value, ast.Constant))]
    for st in tail:
        if isinstance(st, ast.If):
            c = st.test
            ok = None
            if isinstance(c, ast.Call) and dotted(c.func) in ("all", "any") and isinstance(c.args[0], ast.GeneratorExp):
                g = c.args[0]
                e = g.elt
                if isinstance(e, ast.Call) and isinstance(e.func, ast.Attribute) and e.func.attr == "identical" and isinstance(e.args[0], ast.Call):
                    k = {"TrueResult": "T", "FalseResult": "F", "MaybeResult": "M"}.get(dotted(e.args[0].func))
                    vals = [v == k for v in verdicts]
                    ok = all(vals) if dotted(c.func) == "all" else any(vals)
            if ok is None:
                raise AnalysisError(f"C21.cmp: aggregation test outside the fragment: {norm(c)}")
            if ok:
                r = st.body[-1]
                return {"TrueResult": "T", "FalseResult": "F", "MaybeResult": "M"}[dotted(r.value.func)]
        elif isinstance(st, ast.Return):
            return {"TrueResult": "T", "FalseResult": "F", "MaybeResult": "M"}[dotted(st.value.func)]
    raise AnalysisError("C21.cmp: aggregation falls off the end")


def _piece_loops(fn):
    """The iteration over pairs of pieces of a comparison method: nested `for (lb, ub) in A: for (lb, ub) in B:` or the
    equivalent single loop over itertools.product(A, B).  Returns (names of piece 1, names of piece 2, body,
    iterable 1, iterable 2) or None."""
    for st in fn.body:
        if not isinstance(st, ast.For):
            continue
        if isinstance(st.target, ast.Tuple) and len(st.target.elts) == 2 and all(isinstance(e, ast.Name) for e in st.target.elts):
            inner = st.body[0] if st.body and isinstance(st.body[0], ast.For) else None
            if inner is not None and isinstance(inner.target, ast.Tuple) and len(inner.target.elts) == 2 and all(isinstance(e, ast.Name) for e in inner.target.elts) and len(st.body) == 1:
                return [e.id for e in st.target.elts], [e.id for e in inner.target.elts], inner.body, st.iter, inner.iter
        if (
            isinstance(st.target, ast.Tuple)
            and len(st.target.elts) == 2
            and all(isinstance(e, ast.Tuple) and len(e.elts) == 2 and all(isinstance(x, ast.Name) for x in e.elts) for e in st.target.elts)
            and isinstance(st.iter, ast.Call)
            and (dotted(st.iter.func) or "").split(".")[-1] == "product"
            and len(st.iter.args) == 2
            and not st.iter.keywords
        ):
            a, b = st.target.elts
            return [e.id for e in a.elts], [e.id for e in b.elts], st.body, st.iter.args[0], st.iter.args[1]
    return None


@rule(
    "C21.cmp",
    props=("C21", "C24"),
    floor=8,
    family="FIN",
    desc="decides soundness of the eight order comparisons for all inputs: each touches the pieces only through "
    "comparisons of four bounds, so the per-piece verdict is evaluated under every weak ordering of "
    "(lb1, ub1, lb2, ub2) with lb<=ub: True only if the relation holds for every point pair, False only if for none; "
    "aggregation True/False only if all pieces agree",
)
def c21_cmp(R):
    tree = R.tree
    m = tree.mod(SI)
    cls = tree.cls(SI, "StridedInterval")
    ms = util.methods_of(cls)
    total = 0
    for name, rel in CMP_REL.items():
        fn = tree.func_inlined(SI, f"StridedInterval.{name}", exclude=("_signed_bounds", "_unsigned_bounds")) if name in ms else None
        R.need(fn is not None, f"StridedInterval.{name} missing")
        pl = _piece_loops(fn)
        R.need(pl is not None, f"{name}: iteration over pairs of pieces not found")
        n1, n2, pair_body, _, _ = pl
        bad = None
        count = 0
        for lb1, ub1, lb2, ub2 in itertools.product(range(4), repeat=4):
            if lb1 > ub1 or lb2 > ub2:
                continue
            count += 1
            env = {n1[0]: lb1, n1[1]: ub1, n2[0]: lb2, n2[1]: ub2}
            v = _verdict_of(pair_body, env)
            if v is None:
                bad = (env, "no verdict appended for this ordering")
                break
            forall = {"<": ub1 < lb2, "<=": ub1 <= lb2, ">": lb1 > ub2, ">=": lb1 >= ub2}[rel]
            exists = {"<": lb1 < ub2, "<=": lb1 <= ub2, ">": ub1 > lb2, ">=": ub1 >= lb2}[rel]
            if v == "T" and not forall:
                bad = (env, f"answers True although some x in [{lb1},{ub1}], y in [{lb2},{ub2}] violate x {rel} y")
                break
            if v == "F" and exists:
                bad = (env, f"answers False although some x in [{lb1},{ub1}], y in [{lb2},{ub2}] satisfy x {rel} y")
                break
        total += count
        if bad:
            R.bad(
                m,
                fn,
                f"StridedInterval.{name}: per-piece verdict is unsound for the bound ordering {bad[0]}: {bad[1]}",
                construct=f"StridedInterval.{name} piece verdict",
            )
        else:
            R.ok(m, fn, f"StridedInterval.{name}: piece verdict sound under all {count} orderings of the four bounds")
        # aggregation over 1, 2 or 4 pieces
        agg_bad = None
        for k in (1, 2, 4):
            for vs in itertools.product("TFM", repeat=k):
                a = _aggregate(fn, list(vs))
                if a == "T" and any(v != "T" for v in vs):
                    agg_bad = (vs, a)
                if a == "F" and any(v != "F" for v in vs):
                    agg_bad = (vs, a)
        R.check(
            agg_bad is None,
            m,
            fn,
            f"StridedInterval.{name}: aggregation is definite only when every piece is",
            f"StridedInterval.{name}: pieces {agg_bad[0] if agg_bad else ''} aggregate to {agg_bad[1] if agg_bad else ''}",
            construct=f"StridedInterval.{name} aggregation",
        )
    R.extra["orderings_evaluated"] = total


@rule(
    "C21.bounds",
    props=("C21",),
    floor=8,
    family="SIB",
    desc="signed comparisons read the signed bounds of both operands, unsigned ones the unsigned bounds; the "
    "outer loop ranges over self's pieces and the inner one over the other operand's",
)
def c21_bounds(R):
    tree = R.tree
    m = tree.mod(SI)
    cls = tree.cls(SI, "StridedInterval")
    ms = util.methods_of(cls)
    for name in CMP_REL:
        fn = tree.func_inlined(SI, f"StridedInterval.{name}", exclude=("_signed_bounds", "_unsigned_bounds"))
        want = "_signed_bounds" if name.startswith("S") else "_unsigned_bounds"
        o = positional_params(fn)[1]
        src = {}
        for st in fn.body:
            if isinstance(st, ast.Assign) and isinstance(st.targets[0], ast.Name) and isinstance(st.value, ast.Call):
                src[st.targets[0].id] = ast.unparse(st.value)
        pl = _piece_loops(fn)
        R.need(pl is not None, f"{name}: iteration over pairs of pieces not found")
        a = src.get(ast.unparse(pl[3]), ast.unparse(pl[3]))
        b = src.get(ast.unparse(pl[4]), ast.unparse(pl[4]))
        R.check(
            a == f"self.{want}()" and b == f"{o}.{want}()",
            m,
            fn,
            f"StridedInterval.{name} compares self.{want}() with {o}.{want}()",
            f"StridedInterval.{name} iterates over `{a}` and `{b}`; a {'signed' if name.startswith('S') else 'unsigned'} "
            f"comparison must read self.{want}() and {o}.{want}()",
            construct=f"StridedInterval.{name}: {a} x {b}",
        )
    # the bound helpers convert exactly the right hemisphere
    sb = ms["_signed_bounds"]
    txt = ast.unparse(sb)
    R.check(
        "_unsigned_to_signed" in txt and "._nsplit()" in txt,  # which bounds are converted is decided by C22.signedq
        m,
        sb,
        "_signed_bounds splits at the north pole and converts to signed",
        "_signed_bounds no longer splits with _nsplit / converts the right pieces to signed",
        construct="_signed_bounds shape",
    )
    ub = ms["_unsigned_bounds"]
    R.check("self._ssplit()" in ast.unparse(ub) and "_unsigned_to_signed" not in ast.unparse(ub), m, ub,
            "_unsigned_bounds splits at the south pole", "_unsigned_bounds no longer splits with _ssplit", construct="_unsigned_bounds shape")


# ----------------------------------------------------------------------------- C21.kleene

GAMMA = {"T": {True}, "F": {False}, "M": {True, False}}


def _kleene_eval(expr, env):
    """Evaluate a BoolResult-valued expression over abstract values T/F/M."""
    if isinstance(expr, ast.Name):
        return env[expr.id]
    if isinstance(expr, ast.Call):
        d = dotted(expr.func)
        if d in ("TrueResult", "FalseResult", "MaybeResult") and not expr.args:
            return {"TrueResult": "T", "FalseResult": "F", "MaybeResult": "M"}[d]
    raise AnalysisError(f"C21.kleene: value outside the fragment: {ast.unparse(expr)}")


def _kleene_test(t, env):
    if isinstance(t, ast.BoolOp):
        vals = [_kleene_test(v, env) for v in t.values]
        return all(vals) if isinstance(t.op, ast.And) else any(vals)
    if isinstance(t, ast.UnaryOp) and isinstance(t.op, ast.Not):
        return not _kleene_test(t.operand, env)
    if isinstance(t, ast.Call):
        d = (dotted(t.func) or "").split(".")[-1]
        if d in ("is_true", "is_false", "has_true", "has_false", "is_maybe") and len(t.args) == 1:
            v = _kleene_eval(t.args[0], env)
            g = GAMMA[v]
            return {"is_true": g == {True}, "is_false": g == {False}, "has_true": True in g, "has_false": False in g, "is_maybe": g == {True, False}}[d]
    raise AnalysisError(f"C21.kleene: test outside the fragment: {ast.unparse(t)}")


_FALLS = object()


def _kleene_block(stmts, env):
    """value returned by a block of if / return statements (nested arms allowed), or _FALLS when it falls through"""
    for st in stmts:
        if isinstance(st, ast.Expr) and isinstance(st.value, ast.Constant):
            continue
        if isinstance(st, ast.Pass):
            continue
        if isinstance(st, ast.If):
            r = _kleene_block(st.body if _kleene_test(st.test, env) else st.orelse, env)
            if r is not _FALLS:
                return r
            continue
        if isinstance(st, ast.Return):
            if isinstance(st.value, ast.IfExp):
                v = st.value
                while isinstance(v, ast.IfExp):
                    v = v.body if _kleene_test(v.test, env) else v.orelse
                return _kleene_eval(v, env)
            return _kleene_eval(st.value, env)
        raise AnalysisError(f"C21.kleene: statement outside the fragment: {norm(st)}")
    return _FALLS


def _kleene_run(fn, env):
    r = _kleene_block(fn.body, env)
    if r is _FALLS:
        raise AnalysisError("C21.kleene: falls off the end")
    return r


@rule(
    "C21.kleene",
    props=("C21", "C24"),
    floor=20,
    family="FIN",
    desc="BoolResult.__and__/__or__/__invert__, interpreted over {True, False, Maybe}, contain every concrete "
    "truth value of the operation; union is the set union of both operands' values",
)
def c21_kleene(R):
    tree = R.tree
    m = tree.mod(BR)
    cls = tree.cls(BR, "BoolResult")
    ms = util.methods_of(cls)
    for name, op in (("__and__", lambda a, b: a and b), ("__or__", lambda a, b: a or b)):
        fn = ms[name]
        ps = positional_params(fn)
        for a, b in itertools.product("TFM", repeat=2):
            r = _kleene_run(fn, {ps[0]: a, ps[1]: b})
            need = {op(x, y) for x in GAMMA[a] for y in GAMMA[b]}
            R.check(
                need <= GAMMA[r],
                m,
                fn,
                f"BoolResult.{name}({a}, {b}) = {r} contains {sorted(need)}",
                f"BoolResult.{name}({a}, {b}) returns {r}, which excludes the possible value(s) {sorted(need - GAMMA[r])}",
                construct=f"BoolResult.{name}({a},{b}) -> {r}",
            )
    fn = ms["__invert__"]
    ps = positional_params(fn)
    for a in "TFM":
        r = _kleene_run(fn, {ps[0]: a})
        need = {not x for x in GAMMA[a]}
        R.check(
            need <= GAMMA[r],
            m,
            fn,
            f"BoolResult.__invert__({a}) = {r} contains {sorted(need)}",
            f"BoolResult.__invert__({a}) returns {r}, which excludes {sorted(need - GAMMA[r])}",
            construct=f"BoolResult.__invert__({a}) -> {r}",
        )
    un = ms["union"]
    t = ast.unparse(un)
    R.check(
        "set(self.value) | set(other.value)" in t or "set(other.value) | set(self.value)" in t,
        m,
        un,
        "BoolResult.union is the union of the two value sets",
        f"BoolResult.union computes `{norm(un.body[-1])}`",
        construct="BoolResult.union",
    )
    for fname, vals in (("TrueResult", "(True,)"), ("FalseResult", "(False,)"), ("MaybeResult", "(True, False)")):
        f = tree.func(BR, fname)
        r = [x.value for x in walk_no_nested(f) if isinstance(x, ast.Return)][0]
        got = ast.unparse(r.args[0]) if isinstance(r, ast.Call) and r.args else ""
        R.check(
            sorted(got.strip("()").replace(" ", "").split(",")) == sorted(vals.strip("()").replace(" ", "").split(",")),
            m,
            f,
            f"{fname}() holds {vals}",
            f"{fname}() holds {got}",
            construct=f"{fname}: {got}",
        )


# ----------------------------------------------------------------------------- C21.delegate

SI_DELEGATE = {
    "__add__": "add", "__sub__": "sub", "__mul__": "mul", "__floordiv__": "udiv", "__neg__": "neg",
    "__invert__": "bitwise_not", "__or__": "bitwise_or", "__and__": "bitwise_and", "__xor__": "bitwise_xor",
    "__lshift__": "lshift", "__rshift__": "rshift_arithmetic", "LShR": "rshift_logical",
    "__eq__": "eq", "__gt__": "UGT", "__ge__": "UGE", "__lt__": "ULT", "__le__": "ULE",
}


def _delegated(fn):
    """Name of the self-method whose result the function returns: `return self.m(...)` / `return ~self.m(...)`."""
    rets = [r.value for r in walk_no_nested(fn) if isinstance(r, ast.Return) and r.value is not None]
    if len(rets) != 1:
        return None, None
    v = rets[0]
    neg = False
    if isinstance(v, ast.UnaryOp) and isinstance(v.op, ast.Invert):
        neg = True
        v = v.operand
    if isinstance(v, ast.Call) and isinstance(v.func, ast.Attribute) and dotted(v.func.value) == "self":
        return v.func.attr, neg
    return None, neg


@rule(
    "C21.delegate",
    props=("C21", "C24"),
    floor=16,
    family="TAB",
    desc="operator-to-transfer-function table of StridedInterval: each Python operator the VSA backend reaches "
    "delegates to the transfer function of that meaning (unary minus to neg, not to bitwise_not; >> to the "
    "arithmetic shift; order operators to the unsigned comparisons; != to the complement of ==)",
)
def c21_delegate(R):
    tree = R.tree
    m = tree.mod(SI)
    cls = tree.cls(SI, "StridedInterval")
    ms = util.methods_of(cls)
    for dn, want in sorted(SI_DELEGATE.items()):
        fn = ms.get(dn)
        R.need(fn is not None, f"StridedInterval.{dn} missing")
        got, neg = _delegated(fn)
        R.check(
            got == want and not neg,
            m,
            fn,
            f"StridedInterval.{dn} -> {want}",
            f"StridedInterval.{dn} delegates to `{got}`; the transfer function for this operator is `{want}` "
            f"(every `{dn}` on an interval computes {got} instead)",
            construct=f"StridedInterval.{dn} -> {got}",
        )
        if got == want and len(positional_params(fn)) == 2:
            call = [r.value for r in walk_no_nested(fn) if isinstance(r, ast.Return)][0]
            R.check(
                len(call.args) == 1 and ast.unparse(call.args[0]) == positional_params(fn)[1],
                m,
                fn,
                f"StridedInterval.{dn}: the other operand is passed through",
                f"StridedInterval.{dn} passes `{', '.join(ast.unparse(a) for a in call.args)}`",
            )
    fn = ms["__ne__"]
    got, neg = _delegated(fn)
    R.check(got == "eq" and neg, m, fn, "StridedInterval.__ne__ is the complement of eq", f"StridedInterval.__ne__ returns `{norm(fn.body[-1])}`")
    # reflected subtraction builds o - self
    rs = ms["__rsub__"]
    t = ast.unparse([r.value for r in walk_no_nested(rs) if isinstance(r, ast.Return)][0])
    R.check(
        t.endswith(".sub(self)") and "lower_bound=o" in t,
        m,
        rs,
        "StridedInterval.__rsub__ computes o - self",
        f"StridedInterval.__rsub__ computes `{t}`",
    )
    # neg() is 0 - self
    ng = ms["neg"]
    t = ast.unparse(ng)
    R.check(
        "lower_bound=0, upper_bound=0).sub(self)" in t,
        m,
        ng,
        "StridedInterval.neg is 0 - self",
        "StridedInterval.neg is no longer 0 - self",
        construct="StridedInterval.neg",
    )


@rule(
    "C21.shiftamt",
    props=("C21",),
    floor=3,
    family="DEP",
    desc="the shift range returned by _get_shift_range depends on the shift amount and the width only, never on "
    "the bounds of the value being shifted",
)
def c21_shiftamt(R):
    tree = R.tree
    m = tree.mod(SI)
    fn = tree.func(SI, "StridedInterval._get_shift_range")
    rets = [r for r in walk_no_nested(fn) if isinstance(r, ast.Return) and r.value is not None]
    R.need(len(rets) >= 3, "_get_shift_range: returns not found")
    for r in rets:
        bad = [
            ast.unparse(x)
            for x in ast.walk(r.value)
            if isinstance(x, ast.Attribute) and isinstance(x.value, ast.Name) and x.value.id == "self" and x.attr not in ("bits", "_bits")
        ]
        R.check(
            not bad,
            m,
            r,
            "shift range derived from the amount and the width",
            f"_get_shift_range returns `{norm(r.value)}`, which reads {bad} of the value being shifted: the range of "
            f"shift amounts is taken from the wrong operand",
        )
    # the shift transfer functions use the range
    cls = tree.cls(SI, "StridedInterval")
    ms = util.methods_of(cls)
    for name in ("lshift", "rshift_logical", "rshift_arithmetic"):
        f = ms[name]
        calls = [c for c in _calls(f) if isinstance(c.func, ast.Attribute) and c.func.attr == "_get_shift_range"]
        R.check(
            len(calls) >= 1 and all(ast.unparse(c.args[0]) == positional_params(f)[1] for c in calls),
            m,
            f,
            f"{name} asks for the range of its shift amount",
            f"{name} no longer derives its range from its shift-amount operand",
            construct=f"{name} uses _get_shift_range",
        )


# ----------------------------------------------------------------------------- C23

NONCOMM_REFLECTED = {"__rsub__": "__sub__", "__rfloordiv__": "__floordiv__", "__rtruediv__": "__truediv__", "__rmod__": "__mod__",
                     "__rlshift__": "__lshift__", "__rrshift__": "__rshift__"}


@rule(
    "C23.reflect",
    props=("C23",),
    floor=4,
    family="SIB",
    desc="a reflected form of a non-commutative operator never delegates to the forward operator with the "
    "operands in the same order (k - s is not s - k)",
)
def c23_reflect(R):
    tree = R.tree
    n = 0
    for path, cname in ((SI, "StridedInterval"), (DSIS, "DiscreteStridedIntervalSet"), (VS, "ValueSet")):
        m = tree.mod(path)
        cls = tree.cls(path, cname)
        ms = util.methods_of(cls)
        for rn, fwd in NONCOMM_REFLECTED.items():
            fn = ms.get(rn)
            if fn is None:
                continue
            n += 1
            ps = positional_params(fn)
            same_order = False
            for c in _calls(fn):
                f = c.func
                if isinstance(f, ast.Attribute) and dotted(f.value) == "self" and f.attr in (fwd, NONCOMM_REFLECTED.get(rn), fwd.strip("_")):
                    if c.args and ast.unparse(c.args[0]) == ps[1]:
                        same_order = True
                if isinstance(f, ast.Attribute) and dotted(f.value) == "self" and f.attr in NONCOMM_REFLECTED and f.attr != rn:
                    # delegating to another reflected form is fine if that one is correct (judged separately)
                    pass
            for b in (x for x in ast.walk(fn) if isinstance(x, ast.BinOp)):
                sym = {"__sub__": ast.Sub, "__floordiv__": ast.FloorDiv, "__truediv__": ast.Div, "__mod__": ast.Mod,
                       "__lshift__": ast.LShift, "__rshift__": ast.RShift}[fwd]
                if isinstance(b.op, sym) and ast.unparse(b.left) == "self" and ast.unparse(b.right) == ps[1]:
                    same_order = True
            R.check(
                not same_order,
                m,
                fn,
                f"{cname}.{rn} does not compute self {fwd} other",
                f"{cname}.{rn}({ps[1]}) returns self.{fwd}({ps[1]}): `{ps[1]} {fwd.strip('_')} s` is computed as "
                f"`s {fwd.strip('_')} {ps[1]}`",
                construct=f"{cname}.{rn} -> self.{fwd}({ps[1]})",
            )
    R.need(n >= 4, f"only {n} reflected non-commutative operators found")


@rule(
    "C23.lift",
    props=("C23",),
    floor=14,
    family="SIB",
    desc="every operation lifted element-wise over an interval set names an operation StridedInterval defines "
    "(the decorator dispatches by the method's name), and the set's unary minus / complement apply the member "
    "operation of the same meaning",
)
def c23_lift(R):
    tree = R.tree
    m = tree.mod(DSIS)
    cls = tree.cls(DSIS, "DiscreteStridedIntervalSet")
    si_cls = tree.cls(SI, "StridedInterval")
    si_ms = util.methods_of(si_cls)
    n = 0
    for name, fn in util.methods_of(cls).items():
        decs = [dotted(d) for d in fn.decorator_list]
        if "apply_on_each_si" not in decs:
            continue
        n += 1
        target = si_ms.get(name)
        R.check(
            target is not None,
            m,
            fn,
            f"DiscreteStridedIntervalSet.{name} lifts StridedInterval.{name}",
            f"DiscreteStridedIntervalSet.{name} is lifted with apply_on_each_si, which calls getattr(member, "
            f"'{name}'), but StridedInterval defines no `{name}`",
        )
        if target is not None:
            want = len(positional_params(fn))
            have = len(positional_params(target))
            R.check(
                want == have or (want == 2 and have == 2) or (want == 1 and have == 1),
                m,
                fn,
                f"{name}: same arity as the member operation",
                f"DiscreteStridedIntervalSet.{name} takes {want - 1} operand(s) but StridedInterval.{name} takes {have - 1}",
            )
    R.need(n >= 12, f"only {n} lifted operations found")
    # the decorator really dispatches by name
    dec = tree.func(DSIS, "apply_on_each_si.operator")
    R.check(
        sum(
            1
            for c in ast.walk(dec)
            if isinstance(c, ast.Call) and dotted(c.func) == "getattr" and len(c.args) == 2 and ast.unparse(c.args[1]) == "f.__name__" and isinstance(c.args[0], ast.Name)
        )
        >= 3,
        m,
        dec,
        "apply_on_each_si dispatches on the decorated method's name",
        "apply_on_each_si no longer dispatches by f.__name__",
        construct="apply_on_each_si dispatch",
    )
    ms = util.methods_of(cls)
    for name, sym, word in (("__neg__", ast.USub, "-"), ("__invert__", ast.Invert, "~")):
        fn = ms[name]
        # follow one level of delegation to a sibling method
        body_fn = fn
        got, _ = _delegated(fn)
        if got in ms and got != name:
            body_fn = ms[got]
        ops = {type(x.op) for x in ast.walk(body_fn) if isinstance(x, ast.UnaryOp) and isinstance(x.op, (ast.USub, ast.Invert))}
        R.check(
            ops == {sym},
            m,
            fn,
            f"DiscreteStridedIntervalSet.{name} applies `{word}` to each member",
            f"DiscreteStridedIntervalSet.{name} applies {sorted(o.__name__ for o in ops)} to its members; `{word}s` "
            f"must apply `{word}` to each member interval",
            construct=f"DiscreteStridedIntervalSet.{name} member operator",
        )


@rule(
    "C23.vsorder",
    props=("C23",),
    floor=12,
    family="TAB",
    desc="order comparisons on region value sets answer Maybe (pointers into different regions are not ordered); "
    "!= is the complement of ==; min/max are defined only for a single region",
)
def c23_vsorder(R):
    tree = R.tree
    m = tree.mod(VS)
    cls = tree.cls(VS, "ValueSet")
    ms = util.methods_of(cls)
    for name in ("__le__", "__lt__", "__ge__", "__gt__", "ULE", "ULT", "UGT", "UGE", "SLT", "SGT", "SLE", "SGE"):
        fn = ms.get(name)
        R.need(fn is not None, f"ValueSet.{name} missing")
        rets = [ast.unparse(r.value) for r in walk_no_nested(fn) if isinstance(r, ast.Return)]
        R.check(rets == ["MaybeResult()"], m, fn, f"ValueSet.{name} answers Maybe", f"ValueSet.{name} answers {rets}")
    ne = ms["__ne__"]
    rets = [ast.unparse(r.value) for r in walk_no_nested(ne) if isinstance(r, ast.Return)]
    R.check(rets == ["~(self == other)"], m, ne, "ValueSet.__ne__ is the complement of ==", f"ValueSet.__ne__ returns {rets}")
    eq = ms["__eq__"]
    # two flags: "some common region may be equal" (set under has_true) and "some region may differ" (set under
    # has_false or for a region missing on one side); the verdict after the loop is interpreted for all four values
    loops = [st for st in ast.walk(eq) if isinstance(st, ast.For)]
    verdict_ok, why = False, "no loop over the regions found"
    for lp in loops:
        blk = None
        for fld in ("body", "orelse"):
            lst = getattr(getattr(lp, "_parent", None), fld, None)
            if isinstance(lst, list) and any(x is lp for x in lst):
                blk = lst
        if blk is None:
            continue
        i = [k for k, x in enumerate(blk) if x is lp][0]
        flags = [st.targets[0].id for st in blk[:i] if isinstance(st, ast.Assign) and isinstance(st.targets[0], ast.Name) and isinstance(st.value, ast.Constant) and st.value.value is False]
        may_eq = [f for f in flags if any(isinstance(st, ast.Assign) and ast.unparse(st.targets[0]) == f and any("has_true" in ast.unparse(t) and pol for t, pol in guards.guards_of(st)) for st in ast.walk(lp))]
        may_ne = [f for f in flags if f not in may_eq and any(isinstance(st, ast.Assign) and ast.unparse(st.targets[0]) == f for st in ast.walk(lp))]
        if len(may_eq) != 1 or len(may_ne) != 1:
            why = f"flags set in the loop: may-equal {may_eq}, may-differ {may_ne}"
            continue
        S, D = may_eq[0], may_ne[0]

        def ev(e, env):
            if isinstance(e, ast.Name) and e.id in env:
                return env[e.id]
            if isinstance(e, ast.Constant) and isinstance(e.value, bool):
                return e.value
            if isinstance(e, ast.UnaryOp) and isinstance(e.op, ast.Not):
                return not ev(e.operand, env)
            if isinstance(e, ast.BoolOp):
                vals = [ev(v, env) for v in e.values]
                return all(vals) if isinstance(e.op, ast.And) else any(vals)
            raise AnalysisError(f"C23.vsorder: verdict test outside the fragment: {ast.unparse(e)}")

        def raiser(st):
            """`if <test that is not about the flags>: <flag> = True`: can only move a flag from False to True - the
            verdict is interpreted for every final combination anyway"""
            return (
                isinstance(st, ast.If)
                and not st.orelse
                and not any(isinstance(x, ast.Name) and x.id in (S, D) for x in ast.walk(st.test))
                and all(isinstance(b, ast.Assign) and isinstance(b.targets[0], ast.Name) and b.targets[0].id in (S, D) and isinstance(b.value, ast.Constant) and b.value.value is True for b in st.body)
            )

        def run(stmts, env):
            for st in stmts:
                if raiser(st):
                    continue
                if isinstance(st, ast.If):
                    r = run(st.body if ev(st.test, env) else st.orelse, env)
                    if r is not None:
                        return r
                elif isinstance(st, ast.Return):
                    return {"TrueResult": "T", "FalseResult": "F", "MaybeResult": "M"}.get(dotted(st.value.func) if isinstance(st.value, ast.Call) else "")
                else:
                    raise AnalysisError(f"C23.vsorder: statement outside the fragment in the verdict: {norm(st)}")
            return None

        table = {(se, de): run(blk[i + 1 :], {S: se, D: de}) for se in (True, False) for de in (True, False)}
        want = {(True, False): "T", (True, True): "M", (False, True): "F", (False, False): "F"}
        verdict_ok = table == want
        why = f"verdict table (may-equal, may-differ) -> {table}"
        break
    # a region that only one of the two value sets has makes them possibly different - whichever side has it
    p_other = [a.arg for a in eq.args.args][1]
    txt_eq = ast.unparse(eq)
    other_only = bool(re.search(rf"in self\.regions", txt_eq)) and any(isinstance(lp_, ast.For) and p_other in ast.unparse(lp_.iter) for lp_ in ast.walk(eq))
    self_only = bool(re.search(rf"not in {p_other}\.regions", txt_eq)) or any(isinstance(lp_, ast.For) and ("|" in ast.unparse(lp_.iter) or "union" in ast.unparse(lp_.iter)) for lp_ in ast.walk(eq))
    R.check(
        other_only and self_only,
        m,
        eq,
        "ValueSet.__eq__: a region only one side has counts as a possible difference, on either side",
        "ValueSet.__eq__ walks the regions of one operand only: a region that only the other operand has is ignored, and "
        "{global: 13, heap: 0x20} == {global: 13} is a definite True although the left side may be the heap pointer",
        construct="ValueSet.__eq__: regions of one side only",
    )
    R.check(
        verdict_ok,
        m,
        eq,
        "ValueSet.__eq__: True only if some region pair can be equal and none can differ",
        f"ValueSet.__eq__ lost its same/different bookkeeping: {why}; it must be True only for (equal possible, difference impossible), Maybe for (possible, possible), False otherwise",
        construct="ValueSet.__eq__ shape",
    )
    for name in ("min", "max"):
        fn = ms[name]
        t = ast.unparse(fn)
        R.check(
            "len(self.regions) != 1" in t and f".{name}(signed=signed)" in t,
            m,
            fn,
            f"ValueSet.{name}: single region only, delegated with the same signedness",
            f"ValueSet.{name} changed shape",
            construct=f"ValueSet.{name}",
        )
    # per-region arithmetic applies the same operator to every region
    for name, sym in (("__add__", "+"), ("__sub__", "-"), ("__mod__", "%")):
        fn = ms[name]
        loops = [st for st in ast.walk(fn) if isinstance(st, ast.For) and "_regions" in ast.unparse(st.iter)]
        ok = False
        for lp in loops:
            for b in (x for x in ast.walk(lp) if isinstance(x, ast.BinOp)):
                s = {ast.Add: "+", ast.Sub: "-", ast.Mod: "%"}.get(type(b.op))
                if s == sym and ast.unparse(b.right) == "other":
                    ok = True
        R.check(ok, m, fn, f"ValueSet.{name}: every region's offset gets `{sym} other`", f"ValueSet.{name} no longer applies `{sym} other` per region",
                construct=f"ValueSet.{name} per region")


# ----------------------------------------------------------------------------- C24

VSA_BV_OPS = [
    "__add__", "__sub__", "__mul__", "__floordiv__", "__mod__", "__and__", "__or__", "__xor__", "__lshift__", "__rshift__",
    "__invert__", "__neg__", "__eq__", "__ne__", "LShR", "ULT", "ULE", "UGT", "UGE", "SLT", "SLE", "SGT", "SGE",
    "Concat", "Extract", "ZeroExt", "SignExt", "Reverse", "And", "Or", "Not",
]
VSA_UNSUPPORTED = ["SDiv", "SMod", "RotateLeft", "RotateRight"]
VSA_METHOD = {"Concat": "concat", "Extract": "extract", "ZeroExt": "zero_extend", "SignExt": "sign_extend", "Reverse": "reverse",
              "LShR": "LShR"}


@rule(
    "C24.dispatch",
    props=("C24",),
    floor=30,
    family="TAB",
    desc="the VSA column of the dispatch table: every bit-vector / Boolean op reaches the transfer function of "
    "that meaning with its operands in order, and ops without a VSA meaning are unsupported (BackendError), never "
    "a silent default",
)
def c24_dispatch(R):
    tree = R.tree
    m = tree.mod(BV)
    d = dispatch(tree, "vsa")
    cls = tree.cls(BV, "BackendVSA")
    si_ms = util.methods_of(tree.cls(SI, "StridedInterval"))
    for op in VSA_BV_OPS:
        h = d.handler(op)
        if h.kind == "opfallback":
            R.check(
                op in si_ms,
                m,
                cls,
                f"vsa: {op} -> StridedInterval.{op} (operator fallback)",
                f"vsa: op {op} falls back to Python's operator.{op}, but StridedInterval does not define it",
                construct=f"vsa dispatch {op} fallback",
            )
            continue
        R.check(h.kind in ("method", "func") and h.fn is not None, m, cls, f"vsa: {op} has a handler", f"vsa: op {op} is {h.kind}",
                construct=f"vsa dispatch {op}")
        if h.fn is None:
            continue
        fn = h.fn
        if op in CMP_REL:
            ps = positional_params(fn)
            rets = [ast.unparse(r.value) for r in walk_no_nested(fn) if isinstance(r, ast.Return)]
            R.check(
                rets == [f"{ps[0]}.{op}({ps[1]})"],
                m,
                fn,
                f"BackendVSA.{op}(a, b) = a.{op}(b)",
                f"BackendVSA.{op} returns {rets}; it must be {ps[0]}.{op}({ps[1]})",
                construct=f"BackendVSA.{op}: {rets}",
            )
        elif op in VSA_METHOD:
            meth = VSA_METHOD[op]
            calls = [c.func.attr for c in _calls(fn) if isinstance(c.func, ast.Attribute) and c.func.attr in set(VSA_METHOD.values()) | {"zero_extend", "sign_extend"}]
            R.check(
                calls == [meth],
                m,
                fn,
                f"BackendVSA.{op} -> .{meth}()",
                f"BackendVSA.{op} calls {calls}; the transfer function of this op is .{meth}()",
                construct=f"BackendVSA.{op}: {calls}",
            )
    # argument decoding of the bit-manipulation handlers
    ex = d.handler("Extract").fn
    exi = util.inline_aliases(ex, lambda v: True)  # locals resolved: the call reads in terms of args[i]
    R.check(any(ast.unparse(r.value) == "args[2].extract(args[0], args[1])" for r in walk_no_nested(exi) if isinstance(r, ast.Return)), m, ex,
            "Extract(high, low, x) -> x.extract(high, low)", "BackendVSA.Extract decodes its arguments differently", construct="BackendVSA.Extract args")
    for op, meth in (("SignExt", "sign_extend"), ("ZeroExt", "zero_extend")):
        fn = d.handler(op).fn
        fni = util.inline_aliases(fn, lambda v: True)
        R.check(any(ast.unparse(r.value) in (f"args[1].{meth}(args[0] + args[1].bits)", f"args[1].{meth}(args[1].bits + args[0])") for r in walk_no_nested(fni) if isinstance(r, ast.Return)), m, fn,
                f"{op}(n, x) -> x.{meth}(n + x.bits)", f"BackendVSA.{op} changed its argument decoding", construct=f"BackendVSA.{op} args")
    cc = d.handler("Concat").fn
    FCc = util.Frags(cc)
    R.check(FCc.has("ret = None") and FCc.has("for expr in args:\n    ...") is not None and FCc.has("ret = ret.concat(expr) if ret is not None else expr") and FCc.has("return ret"), m, cc, "Concat folds left to right (first argument is most significant)",
            "BackendVSA.Concat no longer folds ret.concat(expr) left to right", construct="BackendVSA.Concat fold")
    for op in VSA_UNSUPPORTED:
        h = d.handler(op)
        R.check(
            h.kind == "unsupported",
            m,
            cls,
            f"vsa: {op} is unsupported (BackendError)",
            f"vsa: op {op} now has a handler ({h.kind}): it must implement the signed/rotating meaning soundly - "
            f"classify it in the VSA tables",
            construct=f"vsa dispatch {op} unsupported",
        )
    # unsupported -> BackendError
    bk = tree.func("claripy/backends/backend.py", "Backend.default_op")
    R.check("raise BackendError" in ast.unparse(bk), tree.mod("claripy/backends/backend.py"), bk, "unsupported ops raise BackendError",
            "Backend.default_op no longer raises BackendError", construct="Backend.default_op")
    # Not / And / Or on BoolResults
    nt = d.handler("Not").fn
    R.check([ast.unparse(r.value) for r in walk_no_nested(nt) if isinstance(r, ast.Return)] == ["~a"], m, nt, "BackendVSA.Not = ~a",
            "BackendVSA.Not changed")
    an = d.handler("And").fn
    R.check("operator.__and__" in ast.unparse(an), m, an, "BackendVSA.And folds with Kleene &", "BackendVSA.And no longer folds with &",
            construct="BackendVSA.And")
    orr = d.handler("Or").fn
    t = ast.unparse(orr)
    reduces = [
        c
        for c in ast.walk(orr)
        if isinstance(c, ast.Call)
        and (dotted(c.func) or "").split(".")[-1] == "reduce"
        and c.args
        and isinstance(c.args[0], ast.Lambda)
        and len(c.args[0].args.args) == 2
        and ast.unparse(c.args[0].body) == f"{c.args[0].args.args[0].arg}.union({c.args[0].args.args[1].arg})"
    ]
    R.check(util.Frags(orr).all("first = args[0]", "first = first.union(o)", "return first") or bool(reduces) or "operator.__or__" in t, m, orr, "BackendVSA.Or joins / Kleene-ors its operands", "BackendVSA.Or changed",
            construct="BackendVSA.Or")


@rule(
    "C24.if",
    props=("C24",),
    floor=4,
    family="GRD",
    desc="BackendVSA.If returns a single branch only when the other one is impossible (not has_true -> else, not "
    "has_false -> then) and the join of both otherwise; conversion excavates ITEs first",
)
def c24_if(R):
    tree = R.tree
    m = tree.mod(BV)
    fn = tree.func(BV, "BackendVSA.If")
    ps = positional_params(fn)
    c, t, f = ps[1], ps[2], ps[3]
    arms = {}
    for st in fn.body:
        if isinstance(st, ast.If):
            arms[ast.unparse(st.test)] = ast.unparse(st.body[-1].value) if isinstance(st.body[-1], ast.Return) else None
    R.check(
        arms.get(f"not self.has_true({c})") == f,
        m,
        fn,
        "condition cannot be true -> else branch",
        f"If(): when the condition cannot be true the result is `{arms.get(f'not self.has_true({c})')}`; it must be the else branch",
        construct="BackendVSA.If: not has_true",
    )
    R.check(
        arms.get(f"not self.has_false({c})") == t,
        m,
        fn,
        "condition cannot be false -> then branch",
        f"If(): when the condition cannot be false the result is `{arms.get(f'not self.has_false({c})')}`; it must be the then branch",
        construct="BackendVSA.If: not has_false",
    )
    last = fn.body[-1]
    R.check(
        isinstance(last, ast.Return) and ast.unparse(last.value) in (f"{t}.union({f})", f"{f}.union({t})"),
        m,
        fn,
        "otherwise the join of both branches",
        f"If(): the undecided case returns `{norm(last.value) if isinstance(last, ast.Return) else None}`, not the union of both branches",
        construct="BackendVSA.If: union",
    )
    cv = tree.func(BV, "BackendVSA.convert")
    R.check("claripy.excavate_ite(expr)" in ast.unparse(cv), m, cv, "convert() excavates ITEs before abstract evaluation",
            "BackendVSA.convert no longer excavates ITEs", construct="BackendVSA.convert excavate")
    # Backend.has_true/has_false forward to the native predicate of the same name
    bk = tree.mod("claripy/backends/backend.py")
    for nm in ("has_true", "has_false"):
        f_ = tree.func(bk.path, f"Backend.{nm}")
        rets = [ast.unparse(r.value) for r in walk_no_nested(f_) if isinstance(r, ast.Return)]
        R.check(rets and rets[0].startswith(f"self._{nm}(self.convert(e)"), bk, f_, f"Backend.{nm} -> _{nm}", f"Backend.{nm} returns {rets}")


@rule(
    "C24.anno",
    props=("C24",),
    floor=3,
    family="DEP",
    desc="apply_annotation builds the interval from the annotation's own stride and bounds at the object's width; "
    "a symbol without annotation is the full interval of its width; a constant is the singleton",
)
def c24_anno(R):
    tree = R.tree
    m = tree.mod(BV)
    fn = tree.func_inlined(BV, "BackendVSA.apply_annotation")
    ps = positional_params(fn)
    o, a = ps[1], ps[2]
    built = [c for c in _calls(fn) if dotted(c.func) == "StridedInterval"]
    n_ok = 0
    for c in built:
        kws = {k.arg: ast.unparse(k.value) for k in c.keywords}
        if kws.get("stride") == f"{a}.stride":
            n_ok += 1
            R.check(
                kws.get("lower_bound") == f"{a}.lower_bound" and kws.get("upper_bound") == f"{a}.upper_bound" and kws.get("bits") == f"{o}.bits",
                m,
                c,
                "interval = (annotation.stride, annotation.lower_bound, annotation.upper_bound) at the object's width",
                f"apply_annotation builds StridedInterval({kws}): bounds/stride/width are not the annotation's / object's own",
            )
    R.need(n_ok >= 2, "apply_annotation: interval constructions from the annotation not found")
    bvs = tree.func(BV, "BackendVSA.BVS")
    R.check("StridedInterval(name=ast.args[0], bits=ast.size())" in ast.unparse(bvs), m, bvs, "BVS -> full interval of its width",
            "BackendVSA.BVS changed", construct="BackendVSA.BVS")
    bvv = tree.func(BV, "BackendVSA.BVV")
    t = ast.unparse(bvv)
    R.check("stride=0, lower_bound=ast.args[0], upper_bound=ast.args[0]" in t and "bits=ast.args[1]" in t, m, bvv, "BVV -> singleton interval",
            "BackendVSA.BVV changed", construct="BackendVSA.BVV")
    # annotations are applied to every converted node
    cv = tree.func("claripy/backends/backend.py", "Backend.convert")
    R.check(util.Frags(cv).has("for a in ast.annotations:\n    r = self.apply_annotation(r, a)"),
            tree.mod("claripy/backends/backend.py"), cv, "Backend.convert applies every annotation of a node",
            "Backend.convert no longer applies the node's annotations", construct="Backend.convert annotations")


@rule(
    "C24.query",
    props=("C24", "C13", "C22"),
    floor=6,
    family="TAB",
    desc="interval queries: min is the least lower bound and max the greatest upper bound over the signed or "
    "unsigned pieces matching `signed`; the light frontend is satisfiable unless some constraint is definitely "
    "false; its queries pass `signed` through",
)
def c24_query(R):
    tree = R.tree
    m = tree.mod(SI)
    cls = tree.cls(SI, "StridedInterval")
    ms = util.methods_of(cls)
    for name, fold, comp in (("min", "min", "lb for lb, _ in split"), ("max", "max", "ub for _, ub in split")):
        fn = ms[name]
        Fq = util.Frags(fn)
        R.check(
            Fq.has("split = self._signed_bounds() if signed else self._unsigned_bounds()"),
            m,
            fn,
            f"StridedInterval.{name}: pieces chosen by `signed`",
            f"StridedInterval.{name} no longer chooses signed/unsigned pieces by `signed`",
            construct=f"StridedInterval.{name} split",
        )
        R.check(
            Fq.has(f"return {fold}({comp})"),
            m,
            fn,
            f"StridedInterval.{name} = {fold} over the pieces' {'lower' if name == 'min' else 'upper'} bounds",
            f"StridedInterval.{name} folds differently: `{[norm(r) for r in walk_no_nested(fn) if isinstance(r, ast.Return)]}`",
            construct=f"StridedInterval.{name} fold",
        )
    mv = tree.mod(BV)
    for name in ("_min", "_max"):
        fn = tree.func(BV, f"BackendVSA.{name}")
        R.check(f"return expr.{name[1:]}(signed=signed)" in ast.unparse(fn), mv, fn, f"BackendVSA.{name} -> expr.{name[1:]}(signed=signed)",
                f"BackendVSA.{name} changed", construct=f"BackendVSA.{name}")
    ml = tree.mod(LF)
    sat = tree.func(LF, "LightFrontend.satisfiable")
    t = ast.unparse(sat)
    R.check(
        t.count("not any(") == 1 and "self.is_false(c" in t and "self.constraints + list(extra_constraints)" in t,
        ml,
        sat,
        "LightFrontend.satisfiable = no constraint (own or extra) is definitely false",
        "LightFrontend.satisfiable changed shape (it must only answer False on a definitely false constraint)",
        construct="LightFrontend.satisfiable",
    )
    for name in ("min", "max"):
        fn = tree.func(LF, f"LightFrontend.{name}")
        R.check(f"self._solver_backend.{name}(e, signed=signed)" in ast.unparse(fn), ml, fn, f"LightFrontend.{name} forwards signed",
                f"LightFrontend.{name} no longer forwards `signed`", construct=f"LightFrontend.{name}")


# ----------------------------------------------------------------------------- C25


@rule(
    "C25.info",
    props=("C25",),
    floor=12,
    family="TAB",
    desc="Balancer.comparison_info[op] is (is a less-than, includes equality, is unsigned) for the eight order "
    "comparisons, and _get_assumptions pairs each comparison class with the trivial bound of the same signedness",
)
def c25_info(R):
    tree = R.tree
    m = tree.mod(BAL)
    cls = tree.cls(BAL, "Balancer")
    node = None
    for st in cls.body:
        if isinstance(st, (ast.Assign, ast.AnnAssign)):
            tg = st.targets[0] if isinstance(st, ast.Assign) else st.target
            if isinstance(tg, ast.Name) and tg.id == "comparison_info":
                node = st
    R.need(node is not None and isinstance(node.value, ast.Dict), "Balancer.comparison_info not found")
    got = {}
    for k, v in zip(node.value.keys, node.value.values):
        got[k.value] = tuple(e.value for e in v.elts)
    for op, want in sorted(refs.COMPARISON_INFO.items()):
        R.check(
            got.get(op) == want,
            m,
            node,
            f"comparison_info[{op}] == {want}",
            f"comparison_info[{op!r}] is {got.get(op)}; {op} is (lt={want[0]}, eq={want[1]}, unsigned={want[2]})",
            construct=f"comparison_info[{op!r}] = {got.get(op)}",
        )
    hc = tree.func_inlined(BAL, "Balancer._handle_comparison", exclude=("_add_upper_bound", "_add_lower_bound", "_min", "_max", "_range"))
    F = util.Frags(hc)
    # the unpacking fixes which local holds which column of the table; the uses below have to agree with it
    R.need(F.has("is_lt, is_equal, is_unsigned = self.comparison_info[truism.op]"), "_handle_comparison no longer unpacks comparison_info[truism.op] into three locals")
    uses = {
        "unsigned column selects the unsigned maximum": "int_max = 2 ** size - 1 if is_unsigned else 2 ** (size - 1) - 1",
        "equality column decides strictness (upper)": "bound_max = right_max if is_equal else right_max - 1 if is_lt else right_max + 1",
        "equality column decides strictness (lower)": "bound_min = right_min if is_equal else right_min - 1 if is_lt else right_min + 1",
    }
    for what, frag in uses.items():
        R.check(
            F.has(frag),
            m,
            hc,
            f"_handle_comparison: {what}",
            f"_handle_comparison does not use the columns of comparison_info in the order it unpacks them ({what}: `{frag}` not found with the unpacked names)",
            construct=f"_handle_comparison unpack/use: {what}",
        )
    signed_args = [util.kw(c, "signed") for c in _calls(hc) if isinstance(c.func, ast.Attribute) and c.func.attr in ("_min", "_max", "_range")]
    sgn_locals = {st.targets[0].id for st in walk_no_nested(hc) if isinstance(st, ast.Assign) and isinstance(st.targets[0], ast.Name) and F.canon(st.value) == "not is_unsigned"}
    R.check(
        bool(signed_args) and all(k is not None and (F.canon(k) == "not is_unsigned" or (isinstance(k, ast.Name) and k.id in sgn_locals)) for k in signed_args),
        m,
        hc,
        "_handle_comparison queries signed ranges exactly for signed comparisons",
        f"_handle_comparison passes signed={[F.canon(k) if k is not None else None for k in signed_args]} to the range queries; it must be `not <unsigned column>`",
        construct="_handle_comparison signedness of range queries",
    )
    ga = tree.func(BAL, "Balancer._get_assumptions")
    from ..opfacts import Aliases, op_set_of_fact

    al = Aliases(ga)
    arms = {}
    for r in (x for x in walk_no_nested(ga) if isinstance(x, ast.Return)):
        ops = None
        for t, pol in guards.guards_of(r):
            f = op_set_of_fact(t, pol, al)
            if f is not None and pol:
                ops = f[1] if ops is None else ops & f[1]
        if ops:
            arms[tuple(sorted(ops))] = ast.unparse(r.value)
    want = {
        ("ULE", "ULT"): ("t.args[0] >= 0", None),
        ("UGE", "UGT"): ("t.args[0] <= 2 ** len(t.args[0]) - 1", None),
        ("SLE", "SLT"): ("claripy.SGE(t.args[0], -(1 << len(t.args[0]) - 1))", "SGE"),
        ("SGE", "SGT"): ("claripy.SLE(t.args[0], (1 << len(t.args[0]) - 1) - 1)", "SLE"),
    }
    for ops, (txt, _) in want.items():
        g = arms.get(ops, "")
        R.check(
            g == f"[{txt}]",
            m,
            ga,
            f"assumption for {ops}: {txt}",
            f"_get_assumptions for {ops} returns `{g}`; the trivial bound of that signedness is `{txt}`",
            construct=f"_get_assumptions {ops}: {g}",
        )


@rule(
    "C25.bounds",
    props=("C25",),
    floor=6,
    family="GRD",
    desc="_handle_comparison adds an upper bound exactly for less-than comparisons and a lower bound otherwise; "
    "accumulated lower bounds keep the maximum and upper bounds the minimum; replacements intersect with the bound",
)
def c25_bounds(R):
    tree = R.tree
    m = tree.mod(BAL)
    hc = tree.func_inlined(BAL, "Balancer._handle_comparison", exclude=("_add_upper_bound", "_add_lower_bound", "_min", "_max", "_range"))
    F = util.Frags(hc)
    R.need(F.has("is_lt, is_equal, is_unsigned = self.comparison_info[truism.op]"), "_handle_comparison no longer unpacks comparison_info[truism.op] into three locals")
    for c in _calls(hc):
        if isinstance(c.func, ast.Attribute) and c.func.attr in ("_add_upper_bound", "_add_lower_bound"):
            facts = [(F.canon(t), pol) for t, pol in guards.guards_of(c)]
            want = ("is_lt", c.func.attr == "_add_upper_bound")
            R.check(
                want in facts,
                m,
                c,
                f"{c.func.attr} under is_lt == {want[1]}",
                f"_handle_comparison calls {c.func.attr} under {facts}: a less-than must add an upper bound and a "
                f"greater-than a lower bound",
            )
            R.check(ast.unparse(c.args[0]) == "truism.args[0]", m, c, "the bound is recorded for the left-hand side",
                    f"the bound is recorded for `{norm(c.args[0])}`")
    F.has("left_min = Balancer._min(truism.args[0], signed=not is_unsigned)")
    F.has("left_max = Balancer._max(truism.args[0], signed=not is_unsigned)")
    F.has("right_min = Balancer._min(truism.args[1], signed=not is_unsigned)")
    F.has("right_max = Balancer._max(truism.args[1], signed=not is_unsigned)")
    F.has("int_max = 2 ** size - 1 if is_unsigned else 2 ** (size - 1) - 1")
    F.has("int_min = -2 ** (size - 1)")
    F.has("bound_max = right_max if is_equal else right_max - 1 if is_lt else right_max + 1")
    F.has("bound_min = right_min if is_equal else right_min - 1 if is_lt else right_min + 1")
    # the recorded candidates, compared as *values*: the function and a reference are both brought to the same
    # resolved form (helpers inlined, every single-assignment local replaced by what it stands for), so it does not
    # matter which temporaries exist, what they are called, or whether a helper computes the adjusted bound
    hcr = util.resolve_locals(tree.func_inlined(BAL, "Balancer._handle_comparison", exclude=("_add_upper_bound", "_add_lower_bound", "_min", "_max")))
    ps = positional_params(hcr)
    R.need(len(ps) == 2, "_handle_comparison no longer takes (self, truism)")
    ref_src = (
        f"def _ref({ps[0]}, {ps[1]}):\n"
        f"    is_lt, is_equal, is_unsigned = {ps[0]}.comparison_info[{ps[1]}.op]\n"
        f"    size = len({ps[1]}.args[0])\n"
        f"    int_max = 2 ** size - 1 if is_unsigned else 2 ** (size - 1) - 1\n"
        f"    int_min = -2 ** (size - 1)\n"
        f"    left_min = Balancer._min({ps[1]}.args[0], signed=not is_unsigned)\n"
        f"    left_max = Balancer._max({ps[1]}.args[0], signed=not is_unsigned)\n"
        f"    right_min = Balancer._min({ps[1]}.args[1], signed=not is_unsigned)\n"
        f"    right_max = Balancer._max({ps[1]}.args[1], signed=not is_unsigned)\n"
        f"    bound_max = right_max if is_equal else right_max - 1 if is_lt else right_max + 1\n"
        f"    bound_min = right_min if is_equal else right_min - 1 if is_lt else right_min + 1\n"
        f"    UP = (int_max, left_max, bound_max)\n"
        f"    LO = (int_min, left_min, bound_min)\n"
        f"    UP2 = (int_max, left_max, right_max if is_equal else right_max + 1 if not is_lt else right_max - 1)\n"
        f"    LO2 = (int_min, left_min, right_min if is_equal else right_min + 1 if not is_lt else right_min - 1)\n"
        f"    return UP, LO, UP2, LO2\n"
    )
    from ..core import _normalise

    ref_mod = ast.parse(ref_src)
    _normalise(ref_mod)
    for node in ast.walk(ref_mod):
        for child in ast.iter_child_nodes(node):
            child._parent = node
    ref_fn = util.resolve_locals(ref_mod.body[0])
    ref_ret = [n for n in ast.walk(ref_fn) if isinstance(n, ast.Return)][-1].value
    want_up = [{ast.dump(e) for e in t.elts} for t in (ref_ret.elts[0], ref_ret.elts[2])]
    want_lo = [{ast.dump(e) for e in t.elts} for t in (ref_ret.elts[1], ref_ret.elts[3])]

    def recorded_value(call):
        """what is recorded as the bound: the call's second argument, or the last value given to that local before
        the call in the same block"""
        v = call.args[1] if len(call.args) > 1 else None
        if isinstance(v, ast.Name):
            st = call
            while st is not None and not isinstance(st, ast.stmt):
                st = getattr(st, "_parent", None)
            blk = None
            for fld in ("body", "orelse", "finalbody"):
                lst = getattr(getattr(st, "_parent", None), fld, None)
                if isinstance(lst, list) and any(x is st for x in lst):
                    blk = lst
            if blk is not None:
                for prev in reversed(blk[: [i for i, x in enumerate(blk) if x is st][0]]):
                    if isinstance(prev, ast.Assign) and any(isinstance(t_, ast.Name) and t_.id == v.id for t_ in prev.targets):
                        return prev.value
        return v

    def folded(call, fold):
        v = recorded_value(call)
        if isinstance(v, ast.Call) and isinstance(v.func, ast.Name) and v.func.id == fold and not v.keywords:
            return {ast.dump(e) for e in v.args}
        return None

    ups = [c for c in _calls(hcr) if isinstance(c.func, ast.Attribute) and c.func.attr == "_add_upper_bound"]
    lows = [c for c in _calls(hcr) if isinstance(c.func, ast.Attribute) and c.func.attr == "_add_lower_bound"]
    got_up = folded(ups[0], "min") if len(ups) == 1 else None
    got_lo = folded(lows[0], "max") if len(lows) == 1 else None
    shape_ok = got_up is not None and got_lo is not None and len(got_up) == 3 and len(got_lo) == 3
    # two of the three candidates (type limit, own range) and the fold
    R.check(
        shape_ok and len(got_up & want_up[0]) >= 2 and len(got_lo & want_lo[0]) >= 2,
        m,
        hc,
        "upper bound = min of candidates, lower bound = max of candidates",
        "_handle_comparison combines its candidate bounds differently (expected min / max over the type limit, the "
        "left-hand side's own range and the adjusted right-hand bound)",
        construct="_handle_comparison candidates",
    )
    R.check(
        shape_ok and got_up in want_up and got_lo in want_lo,
        m,
        hc,
        "strict comparisons move the bound by one in the right direction",
        "the strict/non-strict adjustment of the bound changed",
        construct="_handle_comparison strictness",
    )
    for name, fold in (("_add_lower_bound", "max"), ("_add_upper_bound", "min")):
        fn = tree.func(BAL, f"Balancer.{name}")
        FF_ = util.Frags(fn)
        tbl = "_lower_bounds" if "lower" in name else "_upper_bounds"
        R.check(
            FF_.has(f"old_b = self.{tbl}[o.hash()]\nb = {fold}(b, old_b)") or FF_.has(f"old_b = self.{tbl}[o.hash()]\nb = {fold}(old_b, b)"),
            m,
            fn,
            f"{name} keeps the {fold} of old and new",
            f"{name} no longer keeps the {fold}imum: a weaker bound can replace a stronger one or a bound is tightened unsoundly",
            construct=f"{name} fold",
        )
    ri = tree.func(BAL, "Balancer._replacements_iter")
    FR = util.Frags(ri)
    R.check(
        FR.has(
            "max_int = (1 << len(ast)) - 1\n"
            "min_int = 0\n"
            "mn = self._lower_bounds.get(k, min_int)\n"
            "mx = self._upper_bounds.get(k, max_int)\n"
            "bound_si = claripy.BVS('bound', len(ast)).annotate(claripy.annotation.StridedIntervalAnnotation(1, mn, mx))"
        )
        and any(isinstance(c_, ast.Call) and isinstance(c_.func, ast.Attribute) and c_.func.attr == "intersection" and ast.unparse(c_.func.value) == FR.code("ast") for c_ in ast.walk(ri)),
        m,
        ri,
        "replacement = expression intersected with [lower, upper], defaults 0 / all-ones",
        "_replacements_iter changed (the bound must be intersected, with trivial defaults)",
        construct="_replacements_iter",
    )
    he = tree.func(BAL, "Balancer._handle_eq")
    FE_ = util.Frags(he)
    R.check(FE_.has("lhs, rhs = truism.args") and FE_.has("lhs.intersection(rhs)") and FE_.has("mn, mx = Balancer._range(rhs)"), m, he, "_handle_eq bounds by the range of the other side",
            "_handle_eq changed shape", construct="_handle_eq")


@rule(
    "C25.unpack",
    props=("C25",),
    floor=5,
    family="TAB",
    desc="truism unpacking: And yields the truisms of every conjunct; Not(And)/Not(Or) apply De Morgan; an Or is "
    "unpacked only when exactly one disjunct is not definitely false; comparisons are reversed through `opposites`",
)
def c25_unpack(R):
    tree = R.tree
    m = tree.mod(BAL)
    # the dispatcher with its per-connective helpers inlined: it does not matter whether And / Not / Or are
    # handled in helpers of their own or in the arms of the dispatcher
    un = tree.func_inlined(BAL, "Balancer._unpack_truisms")
    top = util.value_arms(un, "c.op")
    # what the dispatcher does for Not(And(..)) / Not(Or(..)): the function specialised to that input, whether the
    # choice is an if-chain, match/case, a conditional expression or a dispatch dictionary
    def _not_arm(op):
        sp = util.specialise(un, {"c.op": "Not", "c.args[0].op": op})
        # straight-line code that ends in the return (bindings of propagated locals may be left over)
        *pre, last = sp.body
        plain = all(isinstance(st, ast.Assign) or (isinstance(st, ast.Expr) and isinstance(st.value, ast.Constant)) for st in pre)
        return last.value if isinstance(last, ast.Return) and plain else None

    for op, dual in (("And", "Or"), ("Or", "And")):
        v = _not_arm(op)
        R.check(
            v is not None and util.alpha_eq(v, f"Balancer._unpack_truisms(claripy.{dual}(*[claripy.Not(a) for a in c.args[0].args]))", un),
            m,
            un,
            f"Not({op}(..)) -> {dual} of negations",
            f"Not({op}) is unpacked as `{norm(v) if v is not None else None}`, no longer as the {dual} of the negations",
            construct=f"_unpack_truisms_not {op}",
        )
    FO = util.Frags(un)
    FO2 = util.Frags(un)
    R.check(
        (FO.has("vals = [claripy.backends.vsa.is_false(v) for v in c.args]") and FO.has("vals.count(False) == 1") and FO.has("c.args[vals.index(False)]"))
        or (FO2.has("maybe_true = [v for v in c.args if not claripy.backends.vsa.is_false(v)]") and FO2.has("len(maybe_true) == 1") and FO2.has("Balancer._unpack_truisms(maybe_true[0])")),
        m,
        un,
        "an Or is unpacked only into its single not-definitely-false disjunct",
        "_unpack_truisms_or changed: a disjunction may only be narrowed when exactly one disjunct can hold",
        construct="_unpack_truisms_or",
    )
    # ... and the disjunct that must hold is itself among the truisms handed back (not only what it unpacks to: for a
    # plain comparison that is nothing, and the Or would then be processed as if it were a comparison)
    unr = util.resolve_locals(un)
    live_pat = re.compile(r"c\.args\[.+\.index\(False\)\]|.+\[0\]", re.S)
    handed = False
    for node in ast.walk(unr):
        members = []
        if isinstance(node, ast.Set):
            members = node.elts
        elif isinstance(node, ast.Call) and dotted(node.func) in ("set", "frozenset") and node.args and isinstance(node.args[0], (ast.List, ast.Tuple, ast.Set)):
            members = node.args[0].elts
        if any(live_pat.fullmatch(ast.unparse(e)) for e in members):
            handed = True
    R.check(
        handed,
        m,
        un,
        "the only possible disjunct of an Or is handed back as a truism",
        "_unpack_truisms_or hands back only what the single possible disjunct unpacks to, not the disjunct itself: for a "
        "plain comparison that is nothing, the Or is then processed like a comparison and _adjust_truism raises "
        "ClaripyBalancerError (SolverHybrid().add(Or(x <u 0, y <u 2)) failed)",
        construct="_unpack_truisms_or hands back the live disjunct",
    )
    and_arm = [st for st in top.get("'And'", []) if isinstance(st, ast.Return) and st.value is not None]
    # the And arm hands back every conjunct and, for every conjunct, what it unpacks to - read off the value, whatever
    # the spelling (set(c.args).union(*[..]), {*c.args} | set.union(*[..]), a loop that was normalised to these)
    def _and_parts(v):
        txt = ast.unparse(v)
        unpack_all = any(
            isinstance(x, (ast.ListComp, ast.GeneratorExp, ast.SetComp))
            and len(x.generators) == 1
            and ast.unparse(x.generators[0].iter) == "c.args"
            and not x.generators[0].ifs
            and isinstance(x.elt, ast.Call)
            and (dotted(x.elt.func) or "").endswith("_unpack_truisms")
            and len(x.elt.args) == 1
            and ast.unparse(x.elt.args[0]) == ast.unparse(x.generators[0].target)
            for x in ast.walk(v)
        )
        conjuncts = bool(re.search(r"set\(c\.args\)|frozenset\(c\.args\)|\{\*c\.args\}", txt))
        return unpack_all, conjuncts

    parts = _and_parts(and_arm[0].value) if len(and_arm) == 1 else (False, False)
    R.check(
        parts[0],
        m,
        un,
        "And -> union over every conjunct",
        "_unpack_truisms_and no longer unions what every conjunct unpacks to",
        construct="_unpack_truisms_and",
    )
    # the conjuncts themselves may be handed back only if bounds are kept apart by signedness: one run records every
    # bound in one table per direction, keyed by the expression, and `w <s 5 && w >=u 3` would otherwise give w in [3, 4]
    keyed_by_sign = False
    for nm in ("_add_lower_bound", "_add_upper_bound"):
        f_ = tree.func(BAL, f"Balancer.{nm}")
        for sub in ast.walk(f_):
            if isinstance(sub, ast.Subscript) and "_bounds" in ast.unparse(sub.value) and re.search(r"sign|unsigned", ast.unparse(sub.slice)):
                keyed_by_sign = True
    R.check(
        not parts[1] or keyed_by_sign,
        m,
        un,
        "conjuncts are not processed in one run unless bounds are kept apart by signedness",
        "_unpack_truisms_and hands the conjuncts themselves back as truisms while the bound tables of a run are keyed by the "
        "expression alone: two conjuncts of different signedness bound the same expression in one table - "
        "constraint_to_si(w <s 5 && w >=u 3) gives w in [3, 4] and cuts off 200",
        construct="_unpack_truisms_and hands back conjuncts into one bound table",
    )
    rc = tree.func(BAL, "Balancer._reverse_comparison")
    FC = util.Frags(rc)
    R.check(FC.has("new_op = opposites.get(a.op, None)") and FC.has("op = getattr(BV, new_op)") and FC.has("op(*a.args[::-1])"), m, rc, "reversal = opposite op on swapped operands",
            "_reverse_comparison no longer applies opposites[op] to the swapped operands", construct="_reverse_comparison")
    doit = tree.func(BAL, "Balancer._doit")
    R.check("claripy.excavate_ite(c)" in ast.unparse(doit), m, doit, "constraints are ITE-excavated first", "_doit no longer excavates ITEs",
            construct="_doit excavate")


@rule(
    "C25.unsat",
    props=("C25",),
    floor=4,
    family="GRD",
    desc="ClaripyBalancerUnsatError (constraint reported unsatisfiable) is raised only under a definite is_false / "
    "all-disjuncts-false / empty-range test, and only that error turns into sat=False",
)
def c25_unsat(R):
    tree = R.tree
    m = tree.mod(BAL)
    n = 0
    must = re.compile(r"claripy\.backends\.vsa\.(is_false|is_true)\(")  # definite when it holds
    cannot = re.compile(r"claripy\.backends\.vsa\.(has_true|has_false)\(")  # definite when it does not hold
    rng = re.compile(r"Balancer\._(min|max|range)\(")  # a comparison of computed range ends

    possibly = re.compile(r"^\[.* if not claripy\.backends\.vsa\.is_false\(")  # the list of not-definitely-false items

    def definite(t, pol):
        return bool((pol and must.search(t)) or (not pol and cannot.search(t) and not must.search(t)) or rng.search(t) or (not pol and possibly.search(t)))

    for q, fn0 in m.functions.items():
        # locals are resolved to what they were computed from, so the test reads the same whatever they are called
        fn = fn0
        for _ in range(4):
            fn = util.inline_aliases(fn, lambda v: True)
        for r in (x for x in walk_no_nested(fn) if isinstance(x, ast.Raise)):
            if "ClaripyBalancerUnsatError" not in ast.unparse(r):
                continue
            n += 1
            facts = [(ast.unparse(t), pol) for t, pol in guards.guards_of(r)]
            ok = any(definite(t, pol) for t, pol in facts)
            R.check(
                ok,
                m,
                r,
                f"{q}: unsat only under a definite test",
                f"{q} reports the constraint unsatisfiable under {[(t[:80], p) for t, p in facts]}: that requires a definite "
                f"is_false / has_true / empty-range fact from the VSA backend",
                construct=f"{q}: raise ClaripyBalancerUnsatError",
            )
    R.need(n >= 4, f"only {n} raises of ClaripyBalancerUnsatError found")
    init = tree.func(BAL, "Balancer.__init__")
    hs = [h for x in ast.walk(init) if isinstance(x, ast.Try) for h in x.handlers]
    for h in hs:
        sets_unsat = any(a == "sat" and isinstance(v, ast.Constant) and v.value is False for a, k, nd, v in util.attr_writes(ast.Module(body=h.body, type_ignores=[]), "self"))
        if sets_unsat:
            R.check(
                ast.unparse(h.type) == "ClaripyBalancerUnsatError",
                m,
                h,
                "sat=False only on ClaripyBalancerUnsatError",
                f"Balancer reports sat=False in `except {ast.unparse(h.type)}`: a backend failure is read as unsatisfiable",
            )
    R.check(any(ast.unparse(h.type) == "ClaripyBalancerUnsatError" for h in hs), m, init, "Balancer.__init__ handles ClaripyBalancerUnsatError",
            "Balancer.__init__ no longer maps ClaripyBalancerUnsatError to sat=False", construct="Balancer.__init__ unsat handler")


@rule(
    "C24.wrapcmp",
    props=("C24", "C13", "C21"),
    floor=2,
    family="WHO",
    desc="outside the interval implementation (StridedInterval and its set subclass) nothing orders values against an interval's raw lower_bound / "
    "upper_bound attributes: intervals wrap (the signed range [-5, 5] is stored as lower 0xfffffffb, upper 5), so "
    "`lower_bound <= v <= upper_bound` is not membership; membership, min and max are StridedInterval's methods",
)
def c24_wrapcmp(R):
    tree = R.tree
    n = 0
    for m in tree.modules.values():
        if m.path.endswith(("backend_vsa/strided_interval.py", "backend_vsa/discrete_strided_interval_set.py")):
            continue  # the interval implementation itself (the set class extends StridedInterval)
        reads = [x for x in ast.walk(m.tree) if isinstance(x, ast.Attribute) and x.attr in ("lower_bound", "upper_bound")]
        if not reads:
            continue
        n += 1
        bad = []
        for c in (x for x in ast.walk(m.tree) if isinstance(x, ast.Compare)):
            if not any(isinstance(o, (ast.Lt, ast.LtE, ast.Gt, ast.GtE)) for o in c.ops):
                continue
            sides = [c.left, *c.comparators]
            if any(isinstance(s, ast.Attribute) and s.attr in ("lower_bound", "upper_bound") for s in sides):
                bad.append(c)
        for c in bad:
            R.bad(
                m,
                c,
                f"`{norm(c)}` orders a value against an interval's raw bounds outside StridedInterval: for a wrapped "
                f"interval (lower_bound > upper_bound) the test rejects members / accepts non-members",
            )
        if not bad:
            R.ok(m, m.tree, f"{m.path}: bounds are only passed on, never ordered against")
    R.need(n >= 2, "modules reading interval bounds not found")


@rule(
    "C23.hashfields",
    props=("C23", "C21"),
    floor=5,
    family="SIB",
    desc="StridedInterval.__hash__ consumes every field that copy() carries and that changes the denoted set of "
    "values (width, bounds, stride, the lazy byte-reversal flag): interval sets keep their members in a Python set "
    "and StridedInterval.__eq__ is always truthy, so two members with one hash collapse into one",
)
def c23_hashfields(R):
    tree = R.tree
    m = tree.mod(SI)
    cls = tree.cls(SI, "StridedInterval")
    ms = util.methods_of(cls)
    h, cp = ms.get("__hash__"), ms.get("copy")
    R.need(h is not None and cp is not None, "StridedInterval.__hash__/copy not found")
    h = util.resolve_locals(tree.func_inlined(SI, "StridedInterval.__hash__"))
    cp = tree.func_inlined(SI, "StridedInterval.copy")  # a shared private copy helper reads as its body
    carried = {}
    for c in (x for x in ast.walk(cp) if isinstance(x, ast.Call) and (dotted(x.func) or "") == "StridedInterval"):
        for k in c.keywords:
            if k.arg and isinstance(k.value, ast.Attribute) and isinstance(k.value.value, ast.Name) and k.value.value.id == "self":
                carried[k.arg] = k.value.attr
    R.need(len(carried) >= 6, "copy() no longer passes the interval's fields by keyword")
    # `bottom` is NOT presentation: empty() has the bounds and stride of TOP, and only the flag tells them apart
    presentation = {"name": "a label, not part of the value", "uninitialized": "provenance flag"}
    hashed = {a.lstrip("_") for a, _ in util.attr_reads(h, "self")}
    for kw_, attr in sorted(carried.items()):
        if kw_ in presentation:
            R.ok(m, h, f"{kw_}: {presentation[kw_]}")
            continue
        R.check(
            attr.lstrip("_") in hashed,
            m,
            h,
            f"__hash__ covers {attr}",
            f"StridedInterval.__hash__ ignores `{attr}`, which copy() carries and which changes the set of values the "
            f"interval denotes: two different intervals hash alike and a DiscreteStridedIntervalSet (a Python set of "
            f"members whose __eq__ is always truthy) silently drops one of them",
            construct=f"__hash__ covers {attr.lstrip('_')}",
        )


def _pol_minmax(name):
    low = name.lower()
    parts = [p for p in low.replace(".", "_").split("_") if p]
    has_min = "min" in parts or "lower" in parts or "lb" in parts
    has_max = "max" in parts or "upper" in parts or "ub" in parts
    if has_min == has_max:
        return None
    return "min" if has_min else "max"


def _pol_side(name):
    parts = [p for p in name.lower().split("_") if p]
    l = any(p in ("left", "lhs") for p in parts)
    r = any(p in ("right", "rhs") for p in parts)
    if l == r:
        return None
    return 0 if l else 1


@rule(
    "C25.names",
    props=("C25",),
    floor=10,
    family="TAB",
    desc="polarity of the balancer's bound bookkeeping: a local named *_min / *_max is fed by the minimum / maximum "
    "query or by values of the same polarity (no negation or subtraction in between), the pair returned by _range is "
    "unpacked as (min, max), and a local named left_* / right_* that is cut out of one side of the comparison is cut "
    "out of truism.args[0] / truism.args[1]",
)
def c25_names(R):
    tree = R.tree
    m = tree.mod(BAL)
    cls = tree.cls(BAL, "Balancer")
    ms = util.methods_of(cls)
    n = 0
    # order of the pair returned by _range
    rng = ms.get("_range")
    order = None
    if rng is not None:
        rets = [r for r in walk_no_nested(rng) if isinstance(r, ast.Return)]
        if len(rets) == 1 and isinstance(rets[0].value, ast.Tuple) and len(rets[0].value.elts) == 2:
            pols = []
            for e in rets[0].value.elts:
                d = (dotted(e.func) or "") if isinstance(e, ast.Call) else ast.unparse(e)
                pols.append(_pol_minmax(d.split(".")[-1]))
            if None not in pols:
                order = tuple(pols)
                n += 1
                R.check(order == ("min", "max"), m, rets[0], "_range returns (min, max)", f"_range returns {order}", construct="_range order")
    for name, fn in ms.items():
        for st in walk_no_nested(fn):
            if not isinstance(st, ast.Assign) or len(st.targets) != 1:
                continue
            tg, val = st.targets[0], st.value
            # (min, max) = _range(..)
            if isinstance(tg, ast.Tuple) and len(tg.elts) == 2 and isinstance(val, ast.Call) and (dotted(val.func) or "").endswith("_range") and order:
                pols = tuple(_pol_minmax(ast.unparse(e)) for e in tg.elts)
                if None not in pols:
                    n += 1
                    R.check(
                        pols == order,
                        m,
                        st,
                        f"Balancer.{name}: _range unpacked in the order it returns",
                        f"Balancer.{name} unpacks `{norm(st)}`: _range returns {order}, so the name meant as the "
                        f"{pols[0]}imum receives the {order[0]}imum: every bound derived from it is on the wrong side "
                        f"(invisible while the operand is a single value)",
                    )
                continue
            if not isinstance(tg, ast.Name):
                continue
            pol = _pol_minmax(tg.id)
            if pol is not None and not any(isinstance(x, (ast.USub, ast.Sub, ast.Invert)) for x in ast.walk(val)):
                srcs = []
                if isinstance(val, ast.Call):
                    d = (dotted(val.func) or "")
                    last = d.split(".")[-1]
                    if d not in ("min", "max") and _pol_minmax(last) is not None:
                        srcs.append((d, _pol_minmax(last)))
                for x in ast.walk(val):
                    if isinstance(x, ast.Name) and _pol_minmax(x.id) is not None and not (isinstance(getattr(x, "_parent", None), ast.Call) and x._parent.func is x):
                        srcs.append((x.id, _pol_minmax(x.id)))
                if srcs:
                    n += 1
                    wrong = [s for s, p in srcs if p != pol]
                    R.check(
                        not wrong,
                        m,
                        st,
                        f"Balancer.{name}: {tg.id} is fed by {pol}-polarity values",
                        f"Balancer.{name} computes the {pol}imum-side value `{tg.id}` from {wrong} (`{norm(st)}`): a bound "
                        f"of the opposite polarity makes the narrowed range exclude values that satisfy the constraint",
                    )
            side = _pol_side(tg.id)
            if side is not None:
                # `side[a:b]` cuts bits out of `side`: the slice bounds may mention the other operand's width
                where = val.value if isinstance(val, ast.Subscript) and isinstance(val.slice, ast.Slice) else val
                ks = set()
                stack = [where]
                while stack:
                    x = stack.pop()
                    if isinstance(x, ast.Call) and (dotted(x.func) == "len" or (isinstance(x.func, ast.Attribute) and x.func.attr == "size")):
                        continue  # a width, not the operand
                    if isinstance(x, ast.Subscript) and ast.unparse(x.value) == "truism.args" and isinstance(x.slice, ast.Constant):
                        ks.add(x.slice.value)
                    stack.extend(ast.iter_child_nodes(x))
                if len(ks) == 1:
                    n += 1
                    k = next(iter(ks))
                    R.check(
                        k == side,
                        m,
                        st,
                        f"Balancer.{name}: {tg.id} is taken from side {side} of the comparison",
                        f"Balancer.{name} takes `{tg.id}` from truism.args[{k}] (`{norm(st)}`): the value that is checked "
                        f"or moved as the {'right' if side else 'left'}-hand side is the other operand, so the "
                        f"rebalanced comparison is not implied by the original one",
                    )
    R.need(n >= 10, f"only {n} polarity-named assignments found in the balancer")


# ----------------------------------------------------------------------------- C25.valid

_CMP_OPS = {"ULT", "ULE", "UGT", "UGE", "SLT", "SLE", "SGT", "SGE", "__eq__", "__ne__"}

# arm -> (comparison operators for which the rewrite is an implication without any further condition,
#         the operand a range condition has to talk about otherwise, the argument in one line)
_BALANCE_ARMS = {
    "_balance_reverse": ({"__eq__", "__ne__"}, None, "byte reversal is a bijection: it preserves (in)equality and no order"),
    "_balance_add": (
        {"__eq__", "__ne__"},
        (("truism.args[0]",),),
        "x + k OP c  =>  x OP c - k holds for every x only for == and !=; for an order comparison it fails where x + k wraps",
    ),
    "_balance_sub": (
        {"__eq__", "__ne__"},
        (("truism.args[0]",),),
        "x - k OP c  =>  x OP c + k holds for every x only for == and !=; for an order comparison it fails where x - k wraps",
    ),
    "_balance_zeroext": (set(), (("truism.args[1]",),), "zext(x) OP c => x OP low(c) needs the high bits of c to be 0"),
    "_balance_signext": (set(), (("truism.args[1]",), ("truism.args[0]",)), "sext(x) OP c => x OP low(c) needs c to be a sign extension too"),
    "_balance_extract": (
        {"UGE", "UGT", "__ne__"},
        (("truism.args[0].args",),),
        "x[h:0] OP c => x OP zext(c) holds for every x only for >=, > and != (x >= x[h:0]); otherwise the dropped high bits must be 0",
    ),
    "_balance_concat": (set(), (("truism.args[0].args",), ("truism.args[1]",)), "(a .. b) OP c => b OP low(c) needs a == 0 and the high bits of c == 0"),
    "_balance_lshift": (
        set(),
        (("truism.args[0].args[0]",), ("truism.args[1]",)),
        "(x << k) OP c => x OP (c >> k) needs the k high bits of x to be 0 (they are shifted out) and the k low bits of c to be 0 (c >> k rounds down: for < the bound would need rounding up)",
    ),
}
_BALANCE_EXACT = {
    "_balance_and": "rewrites the left side to an equal expression (x & 0 = 0, zext(a) & ones = zext(a)); any operator is fine",
    "_balance_if": "splits on the VSA truth of both branches; covered by C25.unsat",
}


def _is_width_call(n):
    return isinstance(n, ast.Call) and (dotted(n.func) == "len" or (isinstance(n.func, ast.Attribute) and n.func.attr == "size"))


def _value_names(node):
    """names whose *value* feeds `node` (a width taken with len()/.size() is not a use of the value)"""
    out, stack = set(), [node]
    while stack:
        n = stack.pop()
        if _is_width_call(n):
            continue
        if isinstance(n, ast.Name):
            out.add(n.id)
        stack.extend(ast.iter_child_nodes(n))
    return out


def _value_text(node):
    import copy

    class Strip(ast.NodeTransformer):
        def visit_Call(self, n):
            if _is_width_call(n):
                return ast.Name(id="_WIDTH_", ctx=ast.Load())
            return self.generic_visit(n)

    return ast.unparse(ast.fix_missing_locations(Strip().visit(util.clone(node))))


def _queries_about_values(t):
    """VSA queries in the test `t` whose *answer* the test looks at: `len(<query>)` only counts the listed values"""
    out, stack = [], [t]
    while stack:
        n = stack.pop()
        if _is_width_call(n):
            continue
        if isinstance(n, ast.Call) and (dotted(n.func) or "").startswith("claripy.backends.vsa."):
            out.append(n)
        stack.extend(ast.iter_child_nodes(n))
    return out


def _vsa_fact_subjects(fn):
    """names of locals whose value comes out of a VSA query (claripy.backends.vsa.<q>(..)) -> the query's argument text"""
    out = {}
    for st in walk_no_nested(fn):
        if isinstance(st, ast.Assign) and len(st.targets) == 1 and isinstance(st.targets[0], ast.Name):
            for c in ast.walk(st.value):
                if isinstance(c, ast.Call) and (dotted(c.func) or "").startswith("claripy.backends.vsa."):
                    out[st.targets[0].id] = ast.unparse(c)
    return out


@rule(
    "C25.valid",
    props=("C25",),
    floor=8,
    family="GRD",
    desc="every rewrite `f(x) OP c  ->  x OP g(c)` of the balancer is an implication: the rebuilt comparison is "
    "returned only under a restriction of OP to the operators for which the rewrite holds for every x, or under a "
    "VSA range fact about the operand whose bits the rewrite discards (per arm: reverse, add, sub, zero/sign "
    "extension, extract, concat, shift)",
)
def c25_valid(R):
    tree = R.tree
    m = tree.mod(BAL)
    cls = tree.cls(BAL, "Balancer")
    ms = util.methods_of(cls)
    arms = {n: f for n, f in ms.items() if n.startswith("_balance_")}
    n = 0
    for name, fn in sorted(arms.items()):
        if name in _BALANCE_EXACT:
            # "rewrites the left side only" is read off the code: every rebuilt comparison keeps the operator and the
            # right-hand side of the original
            xfn = util.resolve_locals(tree.func_inlined(BAL, f"Balancer.{name}"))
            px = xfn.args.args[0].arg if xfn.args.args else "truism"
            kept = True
            for r in walk_no_nested(xfn):
                if not (isinstance(r, ast.Return) and isinstance(r.value, ast.Call) and (dotted(r.value.func) or "").split(".")[-1] == "Bool" and len(r.value.args) >= 2):
                    continue
                if name != "_balance_and":
                    continue
                opx, argsx = r.value.args[0], r.value.args[1]
                same = ast.unparse(opx) == f"{px}.op" and isinstance(argsx, (ast.Tuple, ast.List)) and len(argsx.elts) == 2 and ast.unparse(argsx.elts[1]) == f"{px}.args[1]"
                if not same:
                    kept = False
                    R.bad(
                        m,
                        r,
                        f"Balancer.{name} returns `{norm(r.value)[:120]}`: the arm is classified as rewriting the left side to an equal "
                        f"expression, but this comparison changes the operator or the right-hand side - (x & 0xf) <u 0x20 holds for "
                        f"every x, x[3:0] <u 0x20[3:0] for none, and the constraint is reported unsatisfiable",
                        construct=f"{name}: rebuilt comparison changes operator or right-hand side",
                    )
            if kept:
                R.ok(m, fn, f"{name}: {_BALANCE_EXACT[name]}")
            n += 1
            continue
        if name not in _BALANCE_ARMS:
            R.bad(m, fn, f"new balance arm {name}: its rewrite has to be justified (operators it is valid for / range condition) and added to the table", construct=f"unclassified arm {name}")
            continue
        valid_ops, subjects, why = _BALANCE_ARMS[name]
        # every single-assignment local is replaced by what it was computed from: guards and rebuilt comparisons then
        # read in terms of `truism` access paths and VSA queries, whatever the intermediates are called
        rfn = util.resolve_locals(tree.func_inlined(BAL, f"Balancer.{name}"))

        def assigned_values(nm):
            """expressions assigned to the local `nm` anywhere in the function (element-wise for tuple assignments)"""
            out = []
            for st in walk_no_nested(rfn):
                if not isinstance(st, ast.Assign):
                    continue
                for tg in st.targets:
                    if isinstance(tg, ast.Name) and tg.id == nm:
                        out.append(st.value)
                    elif isinstance(tg, (ast.Tuple, ast.List)):
                        for i_, e_ in enumerate(tg.elts):
                            if isinstance(e_, ast.Name) and e_.id == nm:
                                out.append(st.value.elts[i_] if isinstance(st.value, (ast.Tuple, ast.List)) and len(st.value.elts) == len(tg.elts) else st.value)
            return out

        rebuilt = [
            r
            for r in walk_no_nested(rfn)
            if isinstance(r, ast.Return)
            and isinstance(r.value, ast.Call)
            and (dotted(r.value.func) or "") == "Bool"
            and r.value.args
            and "truism.op" in ast.unparse(r.value.args[0])
        ]
        for r in rebuilt:
            n += 1
            # the operator of the rebuilt comparison: the original one, or the original one sent through a literal
            # table `{..}.get(truism.op, truism.op)` (a signed comparison turned into its unsigned counterpart)
            opmap = {}
            oe = r.value.args[0]
            if ast.unparse(oe) != "truism.op":
                ok_map = (
                    isinstance(oe, ast.Call)
                    and isinstance(oe.func, ast.Attribute)
                    and oe.func.attr == "get"
                    and isinstance(oe.func.value, ast.Dict)
                    and len(oe.args) == 2
                    and all(ast.unparse(a_) == "truism.op" for a_ in oe.args)
                    and all(isinstance(k_, ast.Constant) and isinstance(v_, ast.Constant) for k_, v_ in zip(oe.func.value.keys, oe.func.value.values))
                )
                R.need(ok_map, f"{name}: operator of the rebuilt comparison `{norm(oe)[:80]}` is neither the original one nor a literal table of it")
                opmap = {k_.value: v_.value for k_, v_ in zip(oe.func.value.keys, oe.func.value.values)}
            facts = guards.guards_of(r)
            held = [ast.unparse(t) for t, pol in facts if pol]
            # a disjunction that holds is a case split: the rewrite has to be justified in every case (a range fact in one
            # arm of an `or` says nothing where the other arm is the one that held)
            cases = [[]]
            for t, pol in facts:
                alts = [(d, True) for d in t.values] if pol and isinstance(t, ast.BoolOp) and isinstance(t.op, ast.Or) else [(t, pol)]
                cases = [c_ + [alt] for c_ in cases for alt in alts] if len(cases) * len(alts) <= 16 else [c_ + [(t, pol)] for c_ in cases]
            bad_ops = set()
            allowed_all = set()
            range_facts = []
            for case in cases:
                allowed = set(_CMP_OPS)
                covered = {}
                for t, pol in case:
                    # operator restrictions
                    if isinstance(t, ast.Compare) and len(t.ops) == 1 and ast.unparse(t.left) == "truism.op":
                        c = t.comparators[0]
                        vals = None
                        if isinstance(c, ast.Constant):
                            vals = {c.value}
                        elif isinstance(c, (ast.Tuple, ast.List, ast.Set)):
                            vals = {e.value for e in c.elts if isinstance(e, ast.Constant)}
                        if vals is not None and isinstance(t.ops[0], (ast.In, ast.NotIn, ast.Eq, ast.NotEq)):
                            positive = isinstance(t.ops[0], (ast.In, ast.Eq)) == pol
                            allowed = allowed & vals if positive else allowed - vals
                    # range facts: a VSA query that holds on this path and talks about the operand whose bits are discarded
                    if not pol or subjects is None:
                        continue
                    queries = _queries_about_values(t)
                    # a flag that is assigned on several branches (query result / None) is not inlined: follow it
                    # (how many values a query listed - len(..) of its result - is not a fact about the values)
                    for nm_ in sorted(_value_names(t)):
                        for v_ in assigned_values(nm_):
                            queries += [c for c in ast.walk(v_) if isinstance(c, ast.Call) and (dotted(c.func) or "").startswith("claripy.backends.vsa.")]
                    for q in queries:
                        # widths (len(..), .size()) are not uses of the value; names that could not be inlined (assigned
                        # on several branches) are followed to what they were assigned from
                        texts, seen_names, work = [_value_text(q)], set(), [q]
                        for _ in range(3):
                            nxt = []
                            for node_ in work:
                                for nm in _value_names(node_) - seen_names:
                                    seen_names.add(nm)
                                    for v_ in assigned_values(nm):
                                        texts.append(_value_text(v_))
                                        nxt.append(v_)
                            work = nxt
                        text = " ; ".join(texts)
                        for gi, group in enumerate(subjects):
                            for subj in group:
                                if re.search(r"(?<![\w.])" + re.escape(subj) + r"(?![\w])", text):
                                    covered[gi] = ast.unparse(q)[:80]
                range_fact = "; ".join(covered[g] for g in sorted(covered)) if subjects is not None and len(covered) == len(subjects) else None
                # a range fact about discarded bits carries an *unsigned* comparison or an (in)equality over; a signed one
                # only where both sides are known to agree on their high bits, the sign included (zero high bits, or a sign
                # extension with the same constant high bits), and it is rebuilt as its unsigned counterpart on the low bits
                unsigned_eq = {"ULT", "ULE", "UGT", "UGE", "__eq__", "__ne__"}
                to_unsigned = {"SLT": "ULT", "SLE": "ULE", "SGT": "UGT", "SGE": "UGE"}
                for o_ in allowed:
                    o2 = opmap.get(o_, o_)
                    if o2 == o_ and o_ in valid_ops:
                        continue
                    if range_fact is not None and o2 == o_ and o_ in unsigned_eq:
                        continue
                    if range_fact is not None and name in ("_balance_zeroext", "_balance_concat", "_balance_signext") and to_unsigned.get(o_) == o2:
                        continue
                    bad_ops.add(o_)
                allowed_all |= allowed
                range_facts.append(range_fact)
            allowed = allowed_all
            range_fact = None if any(f is None for f in range_facts) else "; ".join(sorted(set(range_facts)))
            ok = not bad_ops
            # the key of a finding must not depend on the locals' names: it is taken from the resolved function
            R.check(
                ok,
                m,
                r,
                f"{name}: rebuilt comparison is implied by the original ({'operators ' + str(sorted(allowed)) if allowed <= valid_ops else 'range fact ' + str(range_fact)}{' with ' + str(opmap) if opmap else ''})",
                f"Balancer.{name} returns `{norm(r.value)[:120]}` for the operators {sorted(bad_ops)} "
                + ("without a range condition on the operand whose bits are lost" if range_fact is None else "although a range condition on the lost bits only carries unsigned comparisons and (in)equalities over (a signed one changes its meaning with the width)")
                + f": {why}. A value of x that satisfies the original "
                f"constraint falls outside the bound derived from the rewritten one (or the constraint is reported "
                f"unsatisfiable)",
                construct=f"{name}: rebuilt comparison for {sorted(bad_ops)} under [{'; '.join(h[:60] for h in held)}]",
            )
            # the rebuilt bound is shifted logically: `>>` on a bit-vector expression is the arithmetic shift
            ar = [x for x in ast.walk(r.value) if isinstance(x, ast.BinOp) and isinstance(x.op, ast.RShift)]
            R.check(
                not ar,
                m,
                r,
                f"{name}: no arithmetic shift in the rebuilt comparison",
                f"Balancer.{name} rebuilds the comparison with `{norm(ar[0])[:80] if ar else ''}`: `>>` on a bit-vector is the "
                f"arithmetic shift and fills the vacated bits with the top bit of the bound ((x << 1) == 8 at 4 bits became "
                f"x == 0xc and was reported unsatisfiable); the bits shifted in on the left side were zeros",
                construct=f"{name}: arithmetic shift in the rebuilt comparison",
            )
    R.need(n >= 8, f"only {n} balance rewrites found")


# ----------------------------------------------------------------------------- C21: wrap-around discipline inside StridedInterval


def _is_bound_diff(e):
    return (
        isinstance(e, ast.BinOp)
        and isinstance(e.op, ast.Sub)
        and isinstance(e.left, ast.Attribute)
        and e.left.attr.lstrip("_") == "upper_bound"
        and isinstance(e.right, ast.Attribute)
        and e.right.attr.lstrip("_") == "lower_bound"
        and ast.unparse(e.left.value) == ast.unparse(e.right.value)
    )


def _nowrap_fact(t, pol, recv):
    """does the fact (t, pol) establish recv.lower_bound <= recv.upper_bound ?"""
    if not pol or not isinstance(t, ast.Compare):
        return False
    sides = [t.left, *t.comparators]
    for i, op in enumerate(t.ops):
        a, b = sides[i], sides[i + 1]
        if isinstance(op, (ast.LtE, ast.Lt)):
            if ast.unparse(a) in (f"{recv}.lower_bound", f"{recv}._lower_bound") and ast.unparse(b) in (f"{recv}.upper_bound", f"{recv}._upper_bound"):
                return True
            if isinstance(a, ast.Constant) and a.value == 0 and _is_bound_diff(b) and ast.unparse(b.left.value) == recv:
                return True
        if isinstance(op, (ast.GtE, ast.Gt)):
            if ast.unparse(b) in (f"{recv}.lower_bound", f"{recv}._lower_bound") and ast.unparse(a) in (f"{recv}.upper_bound", f"{recv}._upper_bound"):
                return True
    return False


@rule(
    "C21.wrapdiff",
    props=("C21", "C24"),
    floor=1,
    family="GRD",
    desc="inside StridedInterval an *ordering* test on the raw span `x.upper_bound - x.lower_bound` also bounds it below "
    "by 0 (same comparison chain) or is dominated by a no-wrap fact: intervals wrap (lower > upper), the raw span of a "
    "wrapped interval is negative and passes every `<= limit` test",
)
def c21_wrapdiff(R):
    tree = R.tree
    m = tree.mod(SI)
    n = 0
    for q, fn0 in m.functions.items():
        if not any(_is_bound_diff(x) for x in ast.walk(fn0)):
            continue
        fn = util.inline_aliases(fn0, _is_bound_diff)  # `span = ub - lb; if 0 <= span <= mask` reads the same
        for c in (x for x in walk_no_nested(fn) if isinstance(x, ast.Compare)):
            sides = [c.left, *c.comparators]
            for i, s in enumerate(sides):
                inner = s
                if not _is_bound_diff(inner):
                    continue
                ops_here = [c.ops[j] for j in (i - 1, i) if 0 <= j < len(c.ops)]
                if not any(isinstance(o, (ast.Lt, ast.LtE, ast.Gt, ast.GtE)) for o in ops_here):
                    continue
                n += 1
                recv = ast.unparse(inner.left.value)
                lower_bounded = i > 0 and isinstance(c.ops[i - 1], (ast.LtE, ast.Lt)) and isinstance(sides[i - 1], ast.Constant) and sides[i - 1].value == 0
                lower_bounded |= i + 1 < len(sides) and isinstance(c.ops[i], (ast.GtE, ast.Gt)) and isinstance(sides[i + 1], ast.Constant) and sides[i + 1].value == 0
                dominated = any(_nowrap_fact(t, pol, recv) for t, pol in guards.guards_of(c))
                R.check(
                    lower_bounded or dominated,
                    m,
                    c,
                    f"{q}: span test is wrap-aware",
                    f"{q} tests `{norm(c)}`: for a wrapped interval (lower_bound > upper_bound) the raw span is negative "
                    f"and satisfies the test, so the shortcut below it treats an interval that covers almost the whole "
                    f"ring as a short one and returns too few values",
                )
    R.need(n >= 1, f"only {n} ordering tests on a raw span found in StridedInterval")


@rule(
    "C21.narrow",
    props=("C21", "C24"),
    floor=2,
    family="GRD",
    desc="truncation shortcuts of StridedInterval (a method that builds an interval at a parameter width from the "
    "receiver's bounds): keeping the receiver's stride requires a dominating no-wrap fact, and claiming a single value "
    "(stride=0) requires a dominating fact that reads the receiver's stride (stride multiple of 2**width) or "
    "establishes a singleton",
)
def c21_narrow(R):
    tree = R.tree
    m = tree.mod(SI)
    cls = tree.cls(SI, "StridedInterval")
    n = 0
    for name, fn in util.methods_of(cls).items():
        params = {a.arg for a in fn.args.args} - {"self"}
        if not any(
            isinstance(x, ast.Call) and (dotted(x.func) or "") == "StridedInterval" and any(k.arg == "bits" and isinstance(k.value, ast.Name) and k.value.id in params for k in x.keywords)
            for x in walk_no_nested(fn)
        ):
            continue
        fn = tree.func_inlined(SI, f"StridedInterval.{name}")  # predicates moved into private helpers read as their bodies
        if any(_is_bound_diff(x) for x in ast.walk(fn)):
            fn = util.inline_aliases(fn, _is_bound_diff)  # a hoisted `span = ub - lb` reads as the difference
        stride_locals = set()
        for st in walk_no_nested(fn):
            if isinstance(st, ast.Assign) and len(st.targets) == 1 and isinstance(st.targets[0], ast.Name):
                if any(isinstance(x, ast.Attribute) and x.attr.lstrip("_") == "stride" and ast.unparse(x.value) == "self" for x in ast.walk(st.value)):
                    stride_locals.add(st.targets[0].id)
        for c in (x for x in walk_no_nested(fn) if isinstance(x, ast.Call) and (dotted(x.func) or "") == "StridedInterval"):
            kws = {k.arg: k.value for k in c.keywords if k.arg}
            b = kws.get("bits")
            if not (isinstance(b, ast.Name) and b.id in params):
                continue
            lo, hi = kws.get("lower_bound"), kws.get("upper_bound")
            if lo is None or hi is None or not util.depends_on(lo, {"self.lower_bound", "self._lower_bound"}, fn):
                continue
            n += 1
            facts = guards.guards_of(c)
            stride = kws.get("stride")
            if isinstance(stride, ast.Constant) and stride.value == 0:
                ok = False
                for t, pol in facts:
                    names = {x.id for x in ast.walk(t) if isinstance(x, ast.Name)}
                    reads_stride = any(isinstance(x, ast.Attribute) and x.attr.lstrip("_") == "stride" and ast.unparse(x.value) == "self" for x in ast.walk(t))
                    if reads_stride or names & stride_locals or "self.is_integer" in ast.unparse(t):
                        ok = True
                R.check(
                    ok,
                    m,
                    c,
                    f"{name}: single-value result depends on the receiver's stride",
                    f"StridedInterval.{name} returns the single value `{norm(lo)}` under "
                    f"{[('' if p else 'not ') + ast.unparse(t)[:60] for t, p in facts][-3:]}, none of which looks at the stride: "
                    f"bounds that agree modulo 2**{b.id} do not make the members agree ([0, 0x290] stride 1 has every low nibble)",
                )
            else:
                ok = any(_nowrap_fact(t, pol, "self") for t, pol in facts)
                R.check(
                    ok,
                    m,
                    c,
                    f"{name}: bounds are reused at the narrower width only for a non-wrapping interval",
                    f"StridedInterval.{name} reuses the receiver's bounds at width `{b.id}` (`{norm(c)[:90]}`) without a "
                    f"dominating lower_bound <= upper_bound fact: a wrapped interval whose bounds are both small still "
                    f"contains values above the mask",
                )
    R.need(n >= 2, f"only {n} truncation shortcuts found")


# ----------------------------------------------------------------------------- C23.regionkey


def _region_map(e):
    """`X._regions` / `X.regions` -> text of X"""
    if isinstance(e, ast.Attribute) and e.attr in ("_regions", "regions"):
        return ast.unparse(e.value)
    return None


def _region_iter(e):
    """an iterable over a region map: the map itself, .values() / .items() / .keys() of it -> receiver text"""
    if isinstance(e, ast.Call) and isinstance(e.func, ast.Attribute) and e.func.attr in ("values", "items", "keys") and not e.args:
        return _region_map(e.func.value)
    return _region_map(e)


@rule(
    "C23.regionkey",
    props=("C23",),
    floor=4,
    family="SIB",
    desc="a ValueSet operation pairs the offsets of two value-sets by region *key*: where a per-region value of one "
    "operand meets a per-region value of another, both are taken under the same key, and two region maps are never "
    "walked side by side by position (the order of a region map is the order in which its regions were added)",
)
def c23_regionkey(R):
    tree = R.tree
    m = tree.mod(VS)
    n = 0
    for q, fn0 in m.functions.items():
        fn = util.resolve_locals(fn0)  # `key = region; a.regions[key] op si` reads as `a.regions[region] op si`
        # loop / comprehension variables over `<recv>.regions.items()`: value variable -> (receiver, key variable)
        loopvals = {}
        for lp in (x for x in ast.walk(fn) if isinstance(x, (ast.For, ast.comprehension))):
            it = lp.iter
            if isinstance(it, ast.Call) and isinstance(it.func, ast.Attribute) and it.func.attr == "items" and _region_map(it.func.value) is not None:
                tg = lp.target
                if isinstance(tg, ast.Tuple) and len(tg.elts) == 2 and all(isinstance(e, ast.Name) for e in tg.elts):
                    loopvals[tg.elts[1].id] = (_region_map(it.func.value), tg.elts[0].id)

        def region_value(e):
            if isinstance(e, ast.Subscript) and _region_map(e.value) is not None:
                return _region_map(e.value), ast.unparse(e.slice)
            if isinstance(e, ast.Name) and e.id in loopvals:
                return loopvals[e.id]
            return None

        for x in walk_no_nested(fn):
            pairs = []
            if isinstance(x, ast.BinOp):
                pairs.append((x.left, x.right))
            elif isinstance(x, ast.Compare) and len(x.comparators) == 1:
                pairs.append((x.left, x.comparators[0]))
            elif isinstance(x, ast.Call) and isinstance(x.func, ast.Attribute) and len(x.args) == 1:
                pairs.append((x.func.value, x.args[0]))
            for a, b in pairs:
                ra, rb = region_value(a), region_value(b)
                if ra is None or rb is None or ra[0] == rb[0]:
                    continue
                n += 1
                R.check(
                    ra[1] == rb[1],
                    m,
                    x,
                    f"{q}: offsets of two value-sets meet under one region key",
                    f"{q} combines `{norm(a)[:50]}` (region {ra[1]} of {ra[0]}) with `{norm(b)[:50]}` (region {rb[1]} of {rb[0]}): the offsets "
                    f"of different regions are unrelated numbers",
                    construct=f"{q}: per-region values of two value-sets paired under different keys",
                )
            if isinstance(x, ast.Call) and isinstance(x.func, ast.Name) and x.func.id == "zip":
                recvs = [_region_iter(a) for a in x.args if not isinstance(a, ast.Starred)]
                recvs = [r_ for r_ in recvs if r_ is not None]
                if len(set(recvs)) >= 2:
                    n += 1
                    R.bad(
                        m,
                        x,
                        f"{q} walks the region maps of {sorted(set(recvs))} side by side (`{norm(x)[:90]}`): a region map keeps the order "
                        f"in which its regions were added, so two value-sets over the same regions, built in different orders, have "
                        f"the offsets of one region combined with those of another",
                        construct=f"{q}: region maps paired by position",
                    )
    R.need(n >= 4, f"only {n} places found where per-region values of two value-sets meet")


# ----------------------------------------------------------------------------- C23.emptymerge


@rule(
    "C23.emptymerge",
    props=("C23",),
    floor=2,
    family="GRD",
    desc="the joins of a value set (union, widen) record a plain (region-less) operand also when the value set has no "
    "region yet: in the arm for an operand that is not a ValueSet, the region map is written somewhere outside a loop "
    "over the value set's own regions (such a loop does nothing for ValueSet.empty())",
)
def c23_emptymerge(R):
    tree = R.tree
    m = tree.mod(VS)
    n = 0
    for name in ("union", "widen"):
        fn = tree.func_inlined(VS, f"ValueSet.{name}", exclude=("_set_si", "_merge_si"))
        ps = [a.arg for a in fn.args.args]
        R.need(len(ps) == 2, f"ValueSet.{name} no longer takes (self, b)")
        b = ps[1]
        # the statements that run for an operand that is not a ValueSet: the other arm of the test of the operand's type
        arms = []
        for st in walk_no_nested(fn):
            if isinstance(st, ast.If):
                t = ast.unparse(st.test)
                if t in (f"type({b}) is ValueSet", f"isinstance({b}, ValueSet)"):
                    arms.append(st.orelse)
                elif t in (f"type({b}) is not ValueSet", f"not isinstance({b}, ValueSet)"):
                    arms.append(st.body)
        if len(arms) == 1 and not arms[0]:
            # guard-clause form: `if type(b) is ValueSet: ...; return ..` followed by the statements for the other case
            for st in walk_no_nested(fn):
                if isinstance(st, ast.If) and (st.orelse is arms[0] or st.body is arms[0]):
                    taken = st.body if st.orelse is arms[0] else st.orelse
                    blk = getattr(st, "_parent", None)
                    for fld in ("body", "orelse", "finalbody"):
                        seq = getattr(blk, fld, None)
                        if isinstance(seq, list) and st in seq and taken and isinstance(taken[-1], (ast.Return, ast.Raise)):
                            arms = [seq[seq.index(st) + 1 :]]
        R.need(len(arms) == 1 and arms[0], f"ValueSet.{name}: the arm for an operand that is not a ValueSet was not found")
        n += 1
        outside = []
        inside = []

        def visit(stmts, in_own_loop):
            for st in stmts:
                for x in ast.walk(st) if not isinstance(st, (ast.For, ast.If, ast.While, ast.With, ast.Try)) else [st]:
                    rec = False
                    if isinstance(x, (ast.Assign, ast.AugAssign)):
                        tgs = x.targets if isinstance(x, ast.Assign) else [x.target]
                        rec = any(isinstance(t_, ast.Subscript) and _region_map(t_.value) is not None for t_ in tgs)
                    elif isinstance(x, ast.Call) and isinstance(x.func, ast.Attribute) and x.func.attr in ("_set_si", "_merge_si"):
                        rec = True
                    if rec:
                        (inside if in_own_loop else outside).append(x)
                if isinstance(st, ast.For):
                    own = _region_iter(st.iter) is not None
                    visit(st.body, in_own_loop or own)
                    visit(st.orelse, in_own_loop)
                elif isinstance(st, (ast.If, ast.While)):
                    visit(st.body, in_own_loop)
                    visit(st.orelse, in_own_loop)
                elif isinstance(st, ast.With):
                    visit(st.body, in_own_loop)
                elif isinstance(st, ast.Try):
                    visit(st.body + st.orelse + st.finalbody + [s_ for h in st.handlers for s_ in h.body], in_own_loop)

        visit(arms[0], False)
        R.check(
            bool(outside) or not inside,
            m,
            fn,
            f"{name}: a plain operand is recorded even without a region to merge it into",
            f"ValueSet.{name} records an operand that is not a ValueSet only inside a loop over the value set's own regions "
            f"(`{norm(inside[0])[:70] if inside else ''}`): for a value set without regions the loop does nothing and the operand is lost - "
            f"ValueSet.empty(8).{name}(5) was empty (eval() == [], cardinality 0)",
            construct=f"{name}: plain operand recorded only per existing region",
        )
    R.need(n >= 2, "ValueSet.union / widen not found")
