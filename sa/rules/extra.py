"""Rules added after the first round of seeded changes (each names the seed that motivated it)."""

from __future__ import annotations

import ast

from .. import guards, util
from ..cfg import CFG, describe_path
from ..core import FuncTypes, dotted, norm, walk_no_nested
from ..report import rule

CO = "claripy/frontend/composite_frontend.py"
CC = "claripy/frontend/mixin/composited_cache_mixin.py"
MC = "claripy/frontend/mixin/model_cache_mixin.py"
SIMP = "claripy/simplifications.py"
ALG = ("claripy/algorithm/simplify.py", "claripy/algorithm/ite_relocation.py")


def _calls(fn):
    return [n for n in ast.walk(fn) if isinstance(n, ast.Call)]


@rule(
    "C12.shared",
    props=("C12", "C15"),
    floor=3,
    family="SIB",
    desc="children treated as common to a merge are those shared by *every* input (intersection over all others, "
    "seeded with self's children), and a cached combined child is evicted whenever it overlaps a changed group",
)
def c12_shared(R):
    tree = R.tree
    m = tree.mod(CO)
    fn = tree.func_inlined(CO, "CompositeFrontend._shared_solvers")  # private helpers are part of the body
    F = util.Frags(fn)
    seeded = F.has("solvers_by_id = {id(s): s for s in self._solver_list}") and F.has("common_solvers = set(solvers_by_id.keys())")
    R.check(
        seeded,
        m,
        fn,
        "the intersection starts from self's own children",
        "_shared_solvers no longer starts from self's children",
        construct="_shared_solvers: seed",
    )
    acc = F.code("common_solvers")
    augs = [st for st in walk_no_nested(fn) if isinstance(st, ast.AugAssign) and ast.unparse(st.target) == acc]
    R.check(
        len(augs) == 1 and isinstance(augs[0].op, ast.BitAnd) and isinstance(augs[0]._parent, ast.For),
        m,
        fn,
        "_shared_solvers intersects over all other inputs",
        f"_shared_solvers combines the inputs with `{norm(augs[0]) if augs else None}`: a child shared with only some "
        f"of the merged solvers is treated as common to all (the others' copy-on-written versions are ignored)",
        construct="_shared_solvers: common_solvers &= o",
    )
    every = F.has("other_sets = [{id(s) for s in cs._solver_list} for cs in others]")
    loop = [st for st in fn.body if isinstance(st, ast.For)]
    R.check(
        every and len(loop) == 1 and ast.unparse(loop[0].iter) == F.code("other_sets") and bool(augs) and ast.unparse(augs[0].value) == ast.unparse(loop[0].target),
        m,
        fn,
        "every other input takes part",
        "_shared_solvers does not iterate over every other input",
        construct="_shared_solvers: loop over other_sets",
    )
    mc = tree.mod(CC)
    rc = tree.func(CC, "CompositedCacheMixin._remove_cached")
    # the filter, as a dict comprehension or as an explicit loop over the cache's items
    cond, key = None, None
    comps = [n for n in ast.walk(rc) if isinstance(n, ast.DictComp) and ast.unparse(n.generators[0].iter) == "self._merged_solvers.items()"]
    loops = [n for n in ast.walk(rc) if isinstance(n, ast.For) and ast.unparse(n.iter) == "self._merged_solvers.items()"]
    if len(comps) == 1 and len(comps[0].generators[0].ifs) == 1 and isinstance(comps[0].generators[0].target, ast.Tuple):
        cond, key = comps[0].generators[0].ifs[0], ast.unparse(comps[0].generators[0].target.elts[0])
    elif len(loops) == 1 and len(loops[0].body) == 1 and isinstance(loops[0].body[0], ast.If) and not loops[0].body[0].orelse and isinstance(loops[0].target, ast.Tuple):
        cond, key = loops[0].body[0].test, ast.unparse(loops[0].target.elts[0])
    R.need(cond is not None, "_remove_cached: filter over self._merged_solvers.items() not found")
    t = ast.unparse(cond)
    ok = t in (f"not {key} & names", f"not names & {key}", f"{key}.isdisjoint(names)", f"names.isdisjoint({key})", f"not ({key} & names)")
    R.check(
        ok,
        mc,
        rc,
        "_remove_cached keeps only cached children disjoint from the changed names",
        f"_remove_cached keeps entries under `{t.replace(key, 'key')}`: a cached combined child that "
        f"overlaps a changed group must be evicted, or later queries are answered from a stale combination",
        construct="_remove_cached filter",
    )
    sc = tree.func(CC, "CompositedCacheMixin._store_child")
    R.check(
        any(
            isinstance(c.func, ast.Attribute) and c.func.attr == "_remove_cached" and len(c.args) == 1 and isinstance(c.args[0], ast.Attribute) and c.args[0].attr == "variables"
            and ast.unparse(c.args[0].value) in [a.arg for a in sc.args.args]
            for c in _calls(sc)
        ),
        mc,
        sc,
        "storing a child evicts the cached combinations over its variables",
        "_store_child no longer evicts cached combinations over the stored child's variables",
        construct="_store_child eviction",
    )


@rule(
    "C11.markafter",
    props=("C11", "C17"),
    floor=4,
    family="PAIR",
    desc="a cache mark that records the outcome of a query (exhausted marks, positive sat cache) is written only "
    "after the delegated query returned normally on every path (a failing query must not leave the mark behind)",
)
def c11_markafter(R):
    tree = R.tree
    n = 0
    for path, cname in ((MC, "ModelCacheMixin"), ("claripy/frontend/mixin/sat_cache_mixin.py", "SatCacheMixin")):
        m = tree.mod(path)
        cls = tree.cls(path, cname)
        for name, fn in util.methods_of(cls).items():
            if name not in ("min", "max", "eval", "batch_eval", "solution"):
                continue
            fn = util.inline_aliases(fn, lambda e: "_exhausted" in ast.unparse(e) or "_cached_" in ast.unparse(e))
            g = CFG(fn)

            def is_mark(nd):
                a = nd.ast
                if not isinstance(a, ast.Assign):
                    return False
                t = a.targets[0]
                if isinstance(t, ast.Subscript):
                    names = {util.recv_attr(x, "self") for x in ast.walk(t.value)}
                    return any(x and x.endswith("_exhausted") for x in names)
                return util.recv_attr(t, "self") == "_cached_satness" and isinstance(a.value, ast.Constant) and a.value.value is True

            def is_query(nd):
                return nd.ast is not None and any(
                    isinstance(c, ast.Call) and (util.is_super_call(c, name) or (isinstance(c.func, ast.Attribute) and c.func.attr == name and dotted(c.func.value) == cname))
                    for c in ast.walk(nd.ast)
                )

            marks = g.find(is_mark)
            if not marks:
                continue
            # reachable from entry without passing the delegated query?
            seen = {id(g.entry)}
            stack = [g.entry]
            early = set()
            while stack:
                nd = stack.pop()
                for nx, lab in nd.succ:
                    if id(nx) in seen:
                        continue
                    h = getattr(nx, "handler", None)
                    if h is not None and h.type is not None and ast.unparse(h.type) == "UnsatError":
                        continue  # UnsatError is an answer of the delegated query ("no (more) solutions"), not a failure
                    if is_query(nx):
                        # only the exceptional edge out of the query bypasses its normal return
                        for nx2, lab2 in nx.succ:
                            if lab2 == "exc" and id(nx2) not in seen:
                                seen.add(id(nx2))
                                stack.append(nx2)
                        continue
                    seen.add(id(nx))
                    if is_mark(nx):
                        early.add(id(nx))
                    stack.append(nx)
            for mk in marks:
                n += 1
                R.check(
                    id(mk) not in early,
                    m,
                    mk.ast,
                    f"{cname}.{name}: mark written only after the delegated {name}() returned",
                    f"{cname}.{name} writes `{norm(mk.ast)}` on a path that has not (successfully) passed the delegated "
                    f"{name}(): if that query times out or raises, the mark claims a result that was never computed and "
                    f"later queries are answered from an incomplete cache",
                )
    R.need(n >= 4, f"only {n} result marks found")


@rule(
    "C07.memo",
    props=("C07", "C08", "C09"),
    floor=3,
    family="PAIR",
    desc="the expression memoised by simplify / burrow_ite / excavate_ite is the one returned: the memoised name is "
    "not rebound between the store and the return (annotations are re-attached before the result is cached)",
)
def c07_memo(R):
    tree = R.tree
    n = 0
    for path in ALG:
        m = tree.mod(path)
        caches = {
            st.targets[0].id if isinstance(st, ast.Assign) else st.target.id
            for st in m.tree.body
            if isinstance(st, (ast.Assign, ast.AnnAssign))
            and isinstance((st.targets[0] if isinstance(st, ast.Assign) else st.target), ast.Name)
            and isinstance(st.value, ast.Call)
            and (dotted(st.value.func) or "").split(".")[-1] in ("WeakValueDictionary", "dict", "LRUCache")
        }
        for q, fn in m.functions.items():
            stores = [
                st
                for st in walk_no_nested(fn)
                if isinstance(st, ast.Assign)
                and isinstance(st.targets[0], ast.Subscript)
                and dotted(st.targets[0].value) in caches
                and isinstance(st.value, ast.Name)
            ]
            if not stores:
                continue
            g = CFG(fn, no_raise=lambda c: True)
            for st in stores:
                var = st.value.id
                n += 1
                node = next((nd for nd in g.nodes if nd.ast is st), None)
                if node is None:
                    continue

                def rebinds(nd, var=var):
                    a = nd.ast
                    return isinstance(a, (ast.Assign, ast.AugAssign)) and any(
                        isinstance(t, ast.Name) and t.id == var for t in (a.targets if isinstance(a, ast.Assign) else [a.target])
                    )

                # is there a path from the store to a `return var` that passes a rebinding of var?
                bad = None
                stack = [(node, False, [node])]
                seen = set()
                while stack and bad is None:
                    nd, dirty, pth = stack.pop()
                    for nx, lab in nd.succ:
                        d2 = dirty or rebinds(nx)
                        if isinstance(nx.ast, ast.Return) and isinstance(nx.ast.value, ast.Name) and nx.ast.value.id == var and d2:
                            bad = pth + [nx]
                            break
                        key = (id(nx), d2)
                        if key in seen or nx is g.exit or nx is g.raise_exit:
                            continue
                        seen.add(key)
                        stack.append((nx, d2, pth + [nx]))
                R.check(
                    bad is None,
                    m,
                    st,
                    f"{q}: `{var}` is cached in its final form",
                    f"{q} memoises `{var}` and then rebinds it before returning it ({describe_path(bad[-4:]) if bad else ''}): "
                    f"the first call returns the finished expression but every later call gets the unfinished cached one",
                )
    R.need(n >= 3, f"only {n} memo stores found")


@rule(
    "C01.loopstate",
    props=("C01",),
    floor=1,
    family="TS",
    desc="loop-carried `prev_*` state that describes the previous element is re-established or reset on every "
    "iteration path that advances the index (otherwise a later element is combined with a non-adjacent earlier one)",
)
def c01_loopstate(R):
    tree = R.tree
    m = tree.mod(SIMP)
    n = 0
    for q, fn in m.functions.items():
        for loop in (x for x in walk_no_nested(fn) if isinstance(x, ast.While)):
            # loop-carried state: locals (re)assigned inside the loop that were initialised to None before it -
            # "nothing seen yet" - i.e. they describe the previous element, whatever they are called
            inside = {t.id for st in ast.walk(loop) if isinstance(st, ast.Assign) for t in st.targets if isinstance(t, ast.Name)}
            before = set()
            for st in walk_no_nested(fn):
                if st is loop:
                    break
                if isinstance(st, ast.Assign) and isinstance(st.value, ast.Constant) and st.value.value is None:
                    before |= {t.id for t in st.targets if isinstance(t, ast.Name)}
            index = {st.target.id for st in ast.walk(loop) if isinstance(st, ast.AugAssign) and isinstance(st.target, ast.Name)} & {x.id for x in ast.walk(loop.test) if isinstance(x, ast.Name)}
            prevs = sorted((inside & before) - index)
            if not prevs or len(index) != 1:
                continue
            idx = next(iter(index))

            def paths(stmts):
                """All straight-line paths (lists of simple statements) through a statement list."""
                out = [[]]
                for st in stmts:
                    if isinstance(st, ast.If):
                        alts = paths(st.body) + (paths(st.orelse) if st.orelse else [[]])
                        out = [p + a for p in out for a in alts]
                    else:
                        out = [p + [st] for p in out]
                return out

            for p in paths(loop.body):
                advances = any(isinstance(st, ast.AugAssign) and isinstance(st.target, ast.Name) and st.target.id == idx for st in p)
                if not advances:
                    continue
                n += 1
                assigned = {t.id for st in p if isinstance(st, ast.Assign) for t in st.targets if isinstance(t, ast.Name)}
                missing = [v for v in prevs if v not in assigned]
                anchor = p[0] if p else loop
                R.check(
                    not missing,
                    m,
                    anchor,
                    f"{q}: every index-advancing path sets {prevs}",
                    f"{q}: an iteration path that advances the index leaves {missing} from an earlier element: the next "
                    f"element can be merged with a slice that is not its neighbour",
                    construct=f"{q}: an index-advancing path keeps {len(missing)} stale previous-element local(s)",
                )
    R.need(n >= 1, "no loop with previous-element state found (anchor vanished)")


# ----------------------------------------------------------------------------- C04.intshift (seed C04-rotate-mask-unguarded-width)

_CONSTRUCTION_CODE = (
    SIMP,
    "claripy/operations.py",
    "claripy/ast/base.py",
    "claripy/ast/bv.py",
    "claripy/ast/bool.py",
    "claripy/ast/fp.py",
    "claripy/ast/strings.py",
)


def _is_args_subscript(e):
    return (
        isinstance(e, ast.Subscript)
        and isinstance(e.value, ast.Attribute)
        and e.value.attr == "args"
    )


def _value_closure(expr, assigns):
    """names reachable from `expr` through local assignments, and whether some `<x>.args[k]` (a raw value taken
    out of an AST, not its width) feeds it"""
    names, raw, seen = set(), False, set()
    work = [expr]
    while work:
        e = work.pop()
        stack = [e]
        while stack:
            n = stack.pop()
            if isinstance(n, ast.Call):
                if dotted(n.func) == "len" or (isinstance(n.func, ast.Attribute) and n.func.attr in ("size", "bit_length")):
                    continue  # a width, bounded by what exists
            if isinstance(n, ast.Attribute) and n.attr in ("length", "bits"):
                continue
            if _is_args_subscript(n):
                raw = True
            if isinstance(n, ast.Name):
                names.add(n.id)
                if n.id in assigns and n.id not in seen:
                    seen.add(n.id)
                    work.extend(assigns[n.id])
            stack.extend(ast.iter_child_nodes(n))
    return names, raw


def _plain_names(e):
    """names used as values in `e` (not as the object of an attribute access: `a.op != 'BVV'` says nothing
    about the integer in a)"""
    out, stack = set(), [e]
    while stack:
        n = stack.pop()
        if isinstance(n, ast.Attribute):
            continue
        if isinstance(n, ast.Name):
            out.add(n.id)
        stack.extend(ast.iter_child_nodes(n))
    return out


@rule(
    "C04.intshift",
    props=("C04",),
    floor=1,
    family="GRD",
    desc="in the construction-time code (simplifiers, operation plumbing, AST classes) a Python `<<` / `**` on "
    "plain integers whose amount is a value taken out of an AST (`x.args[k]`) is dominated by a comparison "
    "bounding that amount (an unbounded amount builds a 2**63-bit integer: MemoryError while *building*)",
)
def c04_intshift(R):
    tree = R.tree
    n = 0
    for path in _CONSTRUCTION_CODE:
        m = tree.mod(path)
        for q, fn in m.functions.items():
            assigns = {}
            for st in walk_no_nested(fn):
                if isinstance(st, ast.Assign) and len(st.targets) == 1 and isinstance(st.targets[0], ast.Name):
                    assigns.setdefault(st.targets[0].id, []).append(st.value)
                elif isinstance(st, ast.AugAssign) and isinstance(st.target, ast.Name):
                    assigns.setdefault(st.target.id, []).append(st.value)
            for b in (x for x in walk_no_nested(fn) if isinstance(x, ast.BinOp) and isinstance(x.op, (ast.LShift, ast.Pow))):
                if isinstance(b.right, ast.Constant):
                    continue
                amt_names, raw = _value_closure(b.right, assigns)
                if not raw:
                    continue
                left = b.left
                if isinstance(left, ast.Name) and len(assigns.get(left.id, ())) == 1:
                    left = assigns[left.id][0]
                left_int = (isinstance(left, ast.Constant) and isinstance(left.value, int)) or _is_args_subscript(left)
                if not left_int:
                    continue  # an AST shift: builds a node, no big integer
                n += 1
                derived = set(amt_names)
                for name, vals in assigns.items():
                    for v in vals:
                        if _value_closure(v, assigns)[0] & amt_names:
                            derived.add(name)
                bounded = False
                for t, pol in guards.guards_of(b):
                    if (
                        isinstance(t, ast.BoolOp)
                        and isinstance(t.op, ast.Or)
                        and pol
                        and all(
                            isinstance(v, ast.Compare) and len(v.ops) == 1 and isinstance(v.ops[0], ast.Eq) and _plain_names(v.left) & derived
                            for v in t.values
                        )
                    ):
                        bounded = True  # one of finitely many values
                    if not isinstance(t, ast.Compare) or len(t.ops) != 1:
                        continue
                    # `entry = TABLE.get(<amount>)` ... `if entry is None: return`: the amount is one of the table's keys
                    if isinstance(t.left, ast.Name) and isinstance(t.comparators[0], ast.Constant) and t.comparators[0].value is None:
                        present = (isinstance(t.ops[0], ast.Is) and not pol) or (isinstance(t.ops[0], ast.IsNot) and pol)
                        for v in assigns.get(t.left.id, ()):
                            if present and isinstance(v, ast.Call) and isinstance(v.func, ast.Attribute) and v.func.attr == "get" and v.args and _plain_names(v.args[0]) & derived:
                                bounded = True
                    lnames, rnames = _plain_names(t.left), _plain_names(t.comparators[0])
                    op = t.ops[0]
                    if lnames & derived:
                        if isinstance(op, ast.In) and pol and isinstance(t.comparators[0], (ast.Tuple, ast.Set, ast.List)):
                            bounded = True
                        if isinstance(op, ast.NotIn) and not pol and isinstance(t.comparators[0], (ast.Tuple, ast.Set, ast.List)):
                            bounded = True
                        if isinstance(op, (ast.Lt, ast.LtE, ast.Eq)) and pol:
                            bounded = True
                        if isinstance(op, (ast.Gt, ast.GtE, ast.NotEq)) and not pol:
                            bounded = True
                    if rnames & derived:
                        if isinstance(op, (ast.Gt, ast.GtE, ast.Eq)) and pol:
                            bounded = True
                        if isinstance(op, (ast.Lt, ast.LtE, ast.NotEq)) and not pol:
                            bounded = True
                R.check(
                    bounded,
                    m,
                    b,
                    f"{q}: integer shift amount taken from an AST is bounded first",
                    f"{q} evaluates `{norm(b)}` on plain integers with an amount taken out of an expression "
                    f"({sorted(amt_names)}) and no dominating bound on it: a shift constant of 2**63 makes building "
                    f"the expression exhaust memory instead of returning an AST or a claripy error",
                )
    R.need(n >= 1, "no integer shift by an AST-derived amount found (anchor vanished)")


# ----------------------------------------------------------------------------- C08.canon (seed C08-canonicalize-renames-per-call)


@rule(
    "C08.canon",
    props=("C08",),
    floor=2,
    family="GRD",
    desc="Base.canonicalize assigns a canonical name to a variable only when the caller's map has none for it "
    "(every store var_map[k] = ... is dominated by `k not in var_map`), the map it threads through is the caller's, "
    "and the result is replace_dict over that map",
)
def c08_canon(R):
    tree = R.tree
    BASE = "claripy/ast/base.py"
    m = tree.mod(BASE)
    fn = tree.func(BASE, "Base.canonicalize")
    stores = [
        st
        for st in walk_no_nested(fn)
        if isinstance(st, ast.Assign) and isinstance(st.targets[0], ast.Subscript) and dotted(st.targets[0].value) == "var_map"
    ]
    R.need(len(stores) >= 1, "canonicalize no longer stores into var_map (anchor vanished)")
    for st in stores:
        key = ast.unparse(st.targets[0].slice)
        facts = [(ast.unparse(t), pol) for t, pol in guards.guards_of(st)]
        ok = (f"{key} not in var_map", True) in facts or (f"{key} in var_map", False) in facts
        R.check(
            ok,
            m,
            st,
            "canonical name assigned only to a variable the map does not know yet",
            f"canonicalize overwrites var_map[{key}] without checking that the variable has no canonical name yet: a "
            f"variable shared between two canonicalize() calls that thread the same map gets two different names",
            construct=f"var_map[{key}] store in {ast.unparse(st.value).split('(')[0]} arm",
        )
    # a renaming changes the name only: what the map stores for a symbol carries the symbol's annotations
    for st in stores:
        keyvar = next((x.id for x in ast.walk(st.targets[0].slice) if isinstance(x, ast.Name) and x.id != "var_map"), None)
        # `key = v.hash()` hoisted into a local: the symbol is v
        for a_ in walk_no_nested(fn):
            if isinstance(a_, ast.Assign) and len(a_.targets) == 1 and isinstance(a_.targets[0], ast.Name) and a_.targets[0].id == keyvar and isinstance(a_.value, ast.Call) and isinstance(a_.value.func, ast.Attribute) and a_.value.func.attr == "hash" and isinstance(a_.value.func.value, ast.Name):
                keyvar = a_.value.func.value.id
        carries = keyvar is not None and any(isinstance(x, ast.Attribute) and x.attr == "annotations" and isinstance(x.value, ast.Name) and x.value.id == keyvar for x in ast.walk(st.value))
        R.check(
            carries,
            m,
            st,
            "the canonical symbol keeps the annotations of the symbol it replaces",
            f"canonicalize stores `{norm(st.value)[:70]}` for a symbol without its annotations: an interval-annotated variable "
            f"SI[10, 20] becomes an unconstrained one for the VSA backend ([10, 20] -> TOP)",
            construct="canonicalize: annotations of the renamed symbol dropped",
        )
    # a map handed in without its counter does not restart the names
    starts = [c for c in walk_no_nested(fn) if isinstance(c, ast.Call) and (dotted(c.func) or "").endswith("count") and c.args]
    R.check(
        bool(starts) and all("var_map" in ast.unparse(c.args[0]) or "0" not in ast.unparse(c.args[0]).split(" if ")[0] for c in starts),
        m,
        fn,
        "the name counter continues after the names the map has used",
        "canonicalize restarts its names at canonical_0 when a map is handed in without its counter: two variables get the same "
        "name ((u - v).canonicalize(var_map=<map of u>) is canonical_0 - canonical_0)",
        construct="canonicalize: counter restarts with a given map",
    )
    rets = [r for r in walk_no_nested(fn) if isinstance(r, ast.Return)]
    good = [r for r in rets if isinstance(r.value, ast.Tuple) and len(r.value.elts) == 3 and ast.unparse(r.value.elts[0]) == "var_map" and ast.unparse(r.value.elts[2]).endswith("replace_dict(self, var_map)")]
    R.check(
        len(rets) == 1 and len(good) == 1,
        m,
        fn,
        "canonicalize returns (map, counter, self rewritten through that map)",
        f"canonicalize returns `{norm(rets[0]) if rets else None}`",
        construct="canonicalize return",
    )


# ----------------------------------------------------------------------------- C11.pending (seed C09-simplify-drops-pending-adds)

FF = "claripy/frontend/full_frontend.py"


def _is_empty_list(v):
    return (isinstance(v, ast.List) and not v.elts) or (isinstance(v, ast.Call) and dotted(v.func) == "list" and not v.args)


@rule(
    "C11.pending",
    props=("C11", "C09", "C14"),
    floor=3,
    family="PAIR",
    desc="the list of accepted-but-not-yet-asserted constraints (FullFrontend._to_add) is emptied only where those "
    "constraints cannot be lost: on a fresh object, right after all constraints were asserted into the native solver, "
    "or in a method that unconditionally drops the native solver (it is rebuilt from self.constraints)",
)
def c11_pending(R):
    tree = R.tree
    m = tree.mod(FF)
    cls = tree.cls(FF, "FullFrontend")
    n = 0
    for name, fn in util.methods_of(cls).items():
        params = [a.arg for a in fn.args.args]
        for st in walk_no_nested(fn):
            if not (isinstance(st, ast.Assign) and len(st.targets) == 1 and isinstance(st.targets[0], ast.Attribute) and st.targets[0].attr == "_to_add"):
                continue
            if not _is_empty_list(st.value):
                continue
            n += 1
            recv = ast.unparse(st.targets[0].value)
            stmts = list(walk_no_nested(fn))
            fresh = any(
                isinstance(x, ast.Assign)
                and any(ast.unparse(t) == f"{recv}._tls" for t in x.targets)
                and isinstance(x.value, ast.Call)
                and (dotted(x.value.func) or "").endswith("local")
                for x in stmts
            ) or (recv != "self" and recv not in params)
            drops = [
                x
                for x in stmts
                if isinstance(x, ast.Assign)
                and any(ast.unparse(t) == f"{recv}._tls.solver" for t in x.targets)
                and isinstance(x.value, ast.Constant)
                and x.value.value is None
            ]
            dropped = any(not guards.guards_of(x) for x in drops)
            flushed = False
            blk = getattr(st, "_parent", None)
            for field in ("body", "orelse", "finalbody"):
                seq = getattr(blk, field, None)
                if isinstance(seq, list) and st in seq:
                    i = seq.index(st)
                    if i > 0 and isinstance(seq[i - 1], ast.Expr) and isinstance(seq[i - 1].value, ast.Call):
                        c = seq[i - 1].value
                        argt = [ast.unparse(a) for a in c.args]
                        if isinstance(c.func, ast.Attribute) and c.func.attr == "add" and f"{recv}._tls.solver" in argt and f"{recv}.constraints" in argt:
                            flushed = True
            R.check(
                fresh or dropped or flushed,
                m,
                st,
                f"FullFrontend.{name}: pending constraints are emptied where they cannot be lost",
                f"FullFrontend.{name} empties the pending list (`{norm(st)}`) although the native solver may survive "
                f"(it is dropped only under {[[('' if p else 'not ') + ast.unparse(t) for t, p in guards.guards_of(x)] for x in drops]}) "
                f"and was not just given all constraints: a constraint that was accepted but not yet asserted is never "
                f"asserted, so later answers ignore it while it is still listed in .constraints",
            )
    R.need(n >= 3, f"only {n} places empty _to_add")


# ----------------------------------------------------------------------------- C09.arms (seed C09-abstract-rotateright-as-left)


@rule(
    "C09.arms",
    props=("C09",),
    floor=3,
    family="TAB",
    desc="in BackendZ3._abstract_internal an arm selected by `op_name == K` that rebuilds the node through a claripy "
    "operation constructor uses the constructor named K, with the Z3 children in their original order",
)
def c09_arms(R):
    from .ast_tables import registry

    tree = R.tree
    Z3P = "claripy/backends/backend_z3.py"
    m = tree.mod(Z3P)
    fn = tree.func(Z3P, "BackendZ3._abstract_internal")
    opnames = {d.name for d in registry(tree).decls}
    # the local that holds the claripy op name: whatever is assigned from op_map[...]
    opvar = [
        st.targets[0].id
        for st in walk_no_nested(fn)
        if isinstance(st, ast.Assign) and isinstance(st.targets[0], ast.Name) and isinstance(st.value, ast.Subscript) and ast.unparse(st.value.value) == "op_map"
    ]
    R.need(len(set(opvar)) == 1, "_abstract_internal: the local holding op_map[...] not found")
    opvar = opvar[0]
    n = 0
    for r in (x for x in walk_no_nested(fn) if isinstance(x, ast.Return)):
        v = r.value
        if not (isinstance(v, ast.Call) and (dotted(v.func) or "").startswith("claripy.")):
            continue
        ctor = dotted(v.func).split(".", 1)[1]
        keys = []
        for t, pol in guards.guards_of(r):
            if pol and isinstance(t, ast.Compare) and len(t.ops) == 1 and ast.unparse(t.left) == opvar:
                c = t.comparators[0]
                if isinstance(t.ops[0], ast.Eq) and isinstance(c, ast.Constant):
                    keys = [c.value]
                elif isinstance(t.ops[0], ast.In) and isinstance(c, (ast.Tuple, ast.List, ast.Set)):
                    keys = [e.value for e in c.elts if isinstance(e, ast.Constant)]
        if len(keys) != 1 or keys[0] not in opnames or ctor not in opnames:
            continue
        n += 1
        idx = [
            x.slice.value
            for a in v.args
            for x in ast.walk(a)
            if isinstance(x, ast.Subscript) and ast.unparse(x.value) == "children" and isinstance(x.slice, ast.Constant)
        ]
        R.check(
            ctor == keys[0] and idx == sorted(idx),
            m,
            r,
            f"_abstract_internal: Z3 node of kind {keys[0]} comes back as {ctor}",
            f"_abstract_internal rebuilds a Z3 `{keys[0]}` node as `{norm(v)}`: the expression that comes back from "
            f"Z3 (simplification, model-independent rewriting) is a different operation / operand order than went in",
            construct=f"_abstract_internal arm {keys[0]}",
        )
    R.need(n >= 3, f"only {n} constructor arms found in _abstract_internal")


def _always_evaluated(x, top):
    """is the sub-expression x evaluated whenever the test `top` is: it is not behind a short circuit (a later operand
    of and/or), not an arm of a conditional expression and not inside a comprehension or lambda of the test"""
    child, parent = x, getattr(x, "_parent", None)
    while child is not top and parent is not None:
        if isinstance(parent, ast.BoolOp) and parent.values and parent.values[0] is not child:
            return False
        if isinstance(parent, ast.IfExp) and child is not parent.test:
            return False
        if isinstance(parent, (ast.Lambda, ast.ListComp, ast.SetComp, ast.GeneratorExp, ast.DictComp, ast.comprehension)):
            return False
        child, parent = parent, getattr(parent, "_parent", None)
    return child is top


# ----------------------------------------------------------------------------- C16.checked (pre-existing defect reported by a seeding agent)


@rule(
    "C16.checked",
    props=("C16", "C18"),
    floor=1,
    family="PAIR",
    desc="the backend's unsat_core(solver) reads the core off that native solver's most recent check, so in "
    "FullFrontend.unsat_core it is preceded, on every path, by a check that is statically bound to the native solver "
    "(FullFrontend.satisfiable / the backend's own satisfiable) - not only by the virtual self.satisfiable(), which "
    "the sat cache answers without touching the (possibly rebuilt) native solver",
)
def c16_checked(R):
    tree = R.tree
    m = tree.mod(FF)
    fn = tree.func(FF, "FullFrontend.unsat_core")
    calls = [c for c in _calls(fn) if isinstance(c.func, ast.Attribute) and c.func.attr == "unsat_core" and "_solver_backend" in ast.unparse(c.func)]
    R.need(calls, "FullFrontend.unsat_core no longer asks the backend for the core (anchor vanished)")
    native = ("FullFrontend.satisfiable", "self._solver_backend.satisfiable", "self._solver_backend.check_satisfiability", "FullFrontend.check_satisfiability")
    for c in calls:
        facts = guards.guards_of(c)
        ok = any(
            isinstance(x, ast.Call) and (dotted(x.func) or "") in native and _always_evaluated(x, t)
            for t, pol in facts
            for x in ast.walk(t)
        )
        R.check(
            ok,
            m,
            c,
            "the native solver is checked in this method before its core is read",
            "FullFrontend.unsat_core reads the core after consulting only "
            f"{[ast.unparse(t) for t, _ in facts]}: self.satisfiable() is answered by SatCacheMixin from its cache, so after "
            "pickling or downsize() (native solver rebuilt, never checked) a tracked unsatisfiable solver returns ()",
        )
