"""C02.divzero - the handler Python forces on float division by zero, decided by abstract interpretation over
the seven IEEE classes {NaN, -inf, -finite, -0, +0, +finite, +inf}.

Python raises ZeroDivisionError for *every* float division by a zero divisor, so the concrete backend has to
produce IEEE 754's answer itself.  The answer depends on the classes of numerator and divisor only:

    NaN / 0, +-0 / 0            -> NaN
    x / 0  (x non-zero, non-NaN) -> inf with sign(x) * sign(0)

The handler is a few lines of sign arithmetic; the interpreter below evaluates it over sets of classes with
transfer functions written here (nothing of the repository is executed) for each of the 7 x 2 inputs."""

from __future__ import annotations

import ast
import itertools

from ..core import AnalysisError, dotted, norm, walk_no_nested
from ..report import rule

CFP = "claripy/backends/backend_concrete/fp.py"

NAN, NINF, NFIN, NZERO, PZERO, PFIN, PINF = "nan", "-inf", "-fin", "-0", "+0", "+fin", "+inf"
CLASSES = (NAN, NINF, NFIN, NZERO, PZERO, PFIN, PINF)
NEG = {NINF, NFIN, NZERO}
POS = {PINF, PFIN, PZERO}
MAG = {NINF: "inf", PINF: "inf", NFIN: "fin", PFIN: "fin", NZERO: "0", PZERO: "0"}


def _mk(sign_neg, mag):
    return {("inf", True): NINF, ("inf", False): PINF, ("fin", True): NFIN, ("fin", False): PFIN, ("0", True): NZERO, ("0", False): PZERO}[
        (mag, sign_neg)
    ]


class F(frozenset):
    """abstract float: a set of classes"""


class B(frozenset):
    """abstract bool: subset of {True, False}"""


class S:
    """abstract str(x) of a float"""

    def __init__(self, f):
        self.f = f


class Ch:
    """first character of str(x)"""

    def __init__(self, f):
        self.f = f


def _lift2(fa, fb, fn):
    out = set()
    for a in fa:
        for b in fb:
            out |= fn(a, b)
    return F(out)


def _mul(a, b):
    if NAN in (a, b):
        return {NAN}
    ma, mb = MAG[a], MAG[b]
    neg = (a in NEG) != (b in NEG)
    if {ma, mb} == {"0", "inf"}:
        return {NAN}
    if "inf" in (ma, mb):
        return {_mk(neg, "inf")}
    if "0" in (ma, mb):
        return {_mk(neg, "0")}
    return {_mk(neg, "fin"), _mk(neg, "0"), _mk(neg, "inf")}  # may under-/overflow


def _copysign(a, b):
    signs = [True, False] if b == NAN else [b in NEG]
    if a == NAN:
        return {NAN}
    return {_mk(s, MAG[a]) for s in signs}


def _cmp(op, a, b):
    """abstract comparison of two classes -> set of bools"""
    if NAN in (a, b):
        return {isinstance(op, ast.NotEq)}
    order = {NINF: 0, NFIN: 1, NZERO: 2, PZERO: 2, PFIN: 3, PINF: 4}
    x, y = order[a], order[b]
    if x != y or x in (0, 2, 4):
        table = {ast.Lt: x < y, ast.LtE: x <= y, ast.Gt: x > y, ast.GtE: x >= y, ast.Eq: x == y, ast.NotEq: x != y}
        return {table[type(op)]}
    return {True, False}  # two finite values of the same sign: any order


class Interp:
    def __init__(self, mod, env):
        self.mod = mod
        self.env = dict(env)  # expression text -> abstract value
        self.depth = 0

    def const(self, v):
        if isinstance(v, bool):
            return B({v})
        if isinstance(v, (int, float)):
            if v != v:
                return F({NAN})
            if v == 0:
                import math

                return F({NZERO if math.copysign(1, v) < 0 else PZERO})
            if v in (float("inf"), float("-inf")):
                return F({PINF if v > 0 else NINF})
            return F({PFIN if v > 0 else NFIN})
        if isinstance(v, str):
            return v
        raise AnalysisError(f"C02.divzero: constant {v!r} outside the interpreted fragment")

    def ev(self, e):
        txt = ast.unparse(e)
        if txt in self.env:
            return self.env[txt]
        if isinstance(e, ast.Constant):
            return self.const(e.value)
        if isinstance(e, ast.UnaryOp) and isinstance(e.op, ast.USub):
            v = self.ev(e.operand)
            return F({NAN if c == NAN else _mk(c not in NEG, MAG[c]) for c in v})
        if isinstance(e, ast.UnaryOp) and isinstance(e.op, ast.Not):
            return B({not b for b in self.truth(e.operand)})
        if isinstance(e, ast.BinOp) and isinstance(e.op, ast.Mult):
            return _lift2(self.ev(e.left), self.ev(e.right), _mul)
        if isinstance(e, ast.BoolOp):
            vals = [self.truth(v) for v in e.values]
            out = set()
            for combo in itertools.product(*vals):
                out.add(all(combo) if isinstance(e.op, ast.And) else any(combo))
            return B(out)
        if isinstance(e, ast.Compare) and len(e.ops) == 1:
            l, r = self.ev(e.left), self.ev(e.comparators[0])
            op = e.ops[0]
            if isinstance(l, F) and ast.unparse(e.left) == ast.unparse(e.comparators[0]) and isinstance(op, (ast.Eq, ast.NotEq)):
                # x == x / x != x: the NaN test
                return B({(c != NAN) == isinstance(op, ast.Eq) for c in l})
            if isinstance(l, Ch) and isinstance(r, str) and isinstance(op, (ast.Eq, ast.NotEq)):
                res = set()
                for c in l.f:
                    first = "n" if c == NAN else ("-" if c in NEG else ("i" if MAG[c] == "inf" else "d"))
                    hit = (first == r) if r in ("-", "n", "i") else None
                    if hit is None:
                        raise AnalysisError(f"C02.divzero: comparison of str(x)[0] with {r!r}")
                    res.add(hit if isinstance(op, ast.Eq) else not hit)
                return B(res)
            if isinstance(l, B) and isinstance(r, B) and isinstance(op, (ast.Eq, ast.NotEq, ast.Is, ast.IsNot)):
                eq = isinstance(op, (ast.Eq, ast.Is))
                return B({(a == b) == eq for a in l for b in r})
            if isinstance(l, F) and isinstance(r, F):
                out = set()
                for a in l:
                    for b in r:
                        out |= _cmp(op, a, b)
                return B(out)
        if isinstance(e, ast.Subscript) and isinstance(e.slice, ast.Constant) and e.slice.value == 0:
            v = self.ev(e.value)
            if isinstance(v, S):
                return Ch(v.f)
        if isinstance(e, ast.IfExp):
            t = self.truth(e.test)
            out = set()
            if True in t:
                out |= set(self.ev(e.body))
            if False in t:
                out |= set(self.ev(e.orelse))
            return F(out)
        if isinstance(e, ast.Call):
            d = dotted(e.func) or ""
            args = e.args
            if d == "float" and len(args) == 1:
                a = args[0]
                if isinstance(a, ast.Constant) and isinstance(a.value, str):
                    return self.const(float(a.value))
                return self.ev(a)
            if d == "str" and len(args) == 1:
                return S(self.ev(args[0]))
            if d == "math.isnan":
                return B({c == NAN for c in self.ev(args[0])})
            if d == "math.isinf":
                return B({c in (PINF, NINF) for c in self.ev(args[0])})
            if d == "math.isfinite":
                return B({c not in (PINF, NINF, NAN) for c in self.ev(args[0])})
            if d == "math.copysign" and len(args) == 2:
                return _lift2(self.ev(args[0]), self.ev(args[1]), _copysign)
            if d == "abs":
                return F({NAN if c == NAN else _mk(False, MAG[c]) for c in self.ev(args[0])})
            fn = self.mod.functions.get(d)
            if fn is not None and self.depth < 3:
                params = [a.arg for a in fn.args.args]
                if len(params) != len(args) or e.keywords:
                    raise AnalysisError(f"C02.divzero: call `{txt}` does not match {d}'s parameters")
                sub = Interp(self.mod, {p: self.ev(a) for p, a in zip(params, args)})
                sub.depth = self.depth + 1
                return sub.run(fn.body)
        raise AnalysisError(f"C02.divzero: expression outside the interpreted fragment: `{txt}`")

    def truth(self, e):
        v = self.ev(e)
        if isinstance(v, B):
            return v
        if isinstance(v, F):
            return B({c not in (NZERO, PZERO) for c in v})
        raise AnalysisError(f"C02.divzero: truth value of `{ast.unparse(e)}`")

    def run(self, stmts):
        """abstract result (set of classes) of a statement list that returns on every path"""
        out = set()
        live = True
        for st in stmts:
            if isinstance(st, ast.Expr) and isinstance(st.value, ast.Constant):
                continue
            if isinstance(st, ast.Return):
                out |= set(self.ret(st.value))
                live = False
                break
            if isinstance(st, ast.If):
                t = self.truth(st.test)
                if True in t:
                    r = self.run_maybe(st.body)
                    out |= r[0]
                    body_falls = r[1]
                else:
                    body_falls = False
                if False in t:
                    r = self.run_maybe(st.orelse)
                    out |= r[0]
                    else_falls = r[1]
                else:
                    else_falls = False
                if not (body_falls or else_falls):
                    live = False
                    break
                if t == {True} and not body_falls or t == {False} and not else_falls:
                    live = False
                    break
                continue
            if isinstance(st, ast.Assign) and len(st.targets) == 1 and isinstance(st.targets[0], ast.Name):
                self.env[st.targets[0].id] = self.ev(st.value)
                continue
            raise AnalysisError(f"C02.divzero: statement outside the interpreted fragment: `{norm(st)}`")
        if live:
            raise AnalysisError("C02.divzero: a path falls off the end without a value")
        return F(out)

    def run_maybe(self, stmts):
        """(classes returned, may fall through)"""
        try:
            saved = dict(self.env)
            r = self.run(stmts) if stmts else None
            if r is None:
                return set(), True
            return set(r), False
        except AnalysisError as ex:
            if "falls off the end" in str(ex):
                # evaluate what it returns on the returning sub-paths is not needed for this fragment
                self.env = saved
                return set(), True
            raise

    def ret(self, v):
        # `return FPV(E, sort)` or `return E`
        if isinstance(v, ast.Call) and (dotted(v.func) or "").split(".")[-1] == "FPV" and v.args:
            return self.ev(v.args[0])
        return self.ev(v)


def _expected(num, den):
    if num in (NAN, NZERO, PZERO):
        return {NAN}
    neg = (num in NEG) != (den in NEG)
    return {_mk(neg, "inf")}


@rule(
    "C02.divzero",
    props=("C02",),
    floor=2,
    family="FIN",
    desc="the ZeroDivisionError arm of concrete float division, interpreted over the IEEE classes of numerator "
    "(NaN, +-inf, +-finite, +-0) and divisor (+-0): NaN for NaN/0 and 0/0, otherwise the infinity whose sign is the "
    "product of both signs - decided for all 14 class pairs",
)
def c02_divzero(R):
    tree = R.tree
    m = tree.mod(CFP)
    n = 0
    for q, fn in m.functions.items():
        for t in (x for x in walk_no_nested(fn) if isinstance(x, ast.Try)):
            hs = [h for h in t.handlers if h.type is not None and "ZeroDivisionError" in ast.unparse(h.type)]
            if not hs:
                continue
            divs = [b for st in t.body for b in ast.walk(st) if isinstance(b, ast.BinOp) and isinstance(b.op, ast.Div)]
            R.need(len(divs) == 1, f"{q}: expected exactly one division in the try block")
            num_e, den_e = ast.unparse(divs[0].left), ast.unparse(divs[0].right)
            n += 1
            wrong = []
            for num in CLASSES:
                for den in (PZERO, NZERO):
                    got = set(Interp(m, {num_e: F({num}), den_e: F({den})}).run(hs[0].body))
                    if got != _expected(num, den):
                        wrong.append((num, den, sorted(got), sorted(_expected(num, den))))
            R.check(
                not wrong,
                m,
                hs[0],
                f"{q}: division by zero yields the IEEE result for all 14 class pairs",
                f"{q}: folding `{num_e} / {den_e}` with a zero divisor gives the wrong IEEE class for "
                + "; ".join(f"{a}/{b}: {g} (IEEE: {e})" for a, b, g, e in wrong[:6])
                + (f" ... {len(wrong)} of 14 cases" if len(wrong) > 6 else ""),
                construct=f"{q}: ZeroDivisionError arm",
            )
    R.need(n >= 2, "ZeroDivisionError arms of the concrete float division not found")


def _handler_names(h):
    if h.type is None:
        return {"BaseException"}
    ts = h.type.elts if isinstance(h.type, ast.Tuple) else [h.type]
    return {(dotted(t) or "").split(".")[-1] for t in ts}


def _answers(h):
    """a handler that ends in a bare re-raise propagates the error; one that returns gives an answer"""
    last = h.body[-1] if h.body else None
    return not (isinstance(last, ast.Raise) and last.exc is None)


_COVERS_VALUE = {"ValueError", "Exception", "BaseException"}
_COVERS_OVERFLOW = {"OverflowError", "ArithmeticError", "Exception", "BaseException"}


@rule(
    "C04.fpint",
    props=("C04", "C02"),
    floor=1,
    family="GRD",
    desc="every conversion of a concrete float to an integer (int(..) of a value derived from the operand's .value) "
    "is protected for both non-finite cases: inside a try whose answering handlers cover ValueError (NaN) and "
    "OverflowError (infinity), or dominated by guards that exclude NaN and infinity",
)
def c04_fpint(R):
    from .. import guards

    tree = R.tree
    m = tree.mod(CFP)
    n = 0
    for q, fn in m.functions.items():
        params = {a.arg for a in fn.args.args}
        for c in (x for x in walk_no_nested(fn) if isinstance(x, ast.Call) and dotted(x.func) == "int" and x.args):
            uses_value = any(
                isinstance(a, ast.Attribute) and a.attr == "value" and isinstance(a.value, ast.Name) and a.value.id in params
                for a in ast.walk(c.args[0])
            )
            if not uses_value:
                continue
            n += 1
            value_ok = overflow_ok = False
            p = c
            while p is not None and p is not fn:
                par = getattr(p, "_parent", None)
                if isinstance(par, ast.Try) and any(p is st for st in par.body):
                    for h in par.handlers:
                        if not _answers(h):
                            continue
                        names = _handler_names(h)
                        value_ok |= bool(names & _COVERS_VALUE)
                        overflow_ok |= bool(names & _COVERS_OVERFLOW)
                p = par
            facts = [(ast.unparse(t), pol) for t, pol in guards.guards_of(c)]
            for t, pol in facts:
                if "isfinite(" in t and pol:
                    value_ok = overflow_ok = True
                if "isnan(" in t and not pol:
                    value_ok = True
                if "isinf(" in t and not pol:
                    overflow_ok = True
            missing = [w for w, ok in (("NaN (ValueError)", value_ok), ("infinity (OverflowError)", overflow_ok)) if not ok]
            R.check(
                not missing,
                m,
                c,
                f"{q}: float-to-integer conversion handles NaN and infinity",
                f"{q} converts the operand with `{norm(c)}` and nothing handles {' and '.join(missing)}: folding the "
                f"conversion of that value raises a Python exception out of the AST constructor instead of yielding a value",
            )
    R.need(n >= 1, "float-to-integer conversions of the concrete FP backend not found")
