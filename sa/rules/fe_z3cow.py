"""Ownership of the native Z3 solver held by a FullFrontend (C14.z3cow / C11.z3state).

After branch(), parent and child hold the *same* native solver object and both are
finalized; with reuse_z3_solver on, one native solver per thread is handed to every
frontend.  In both configurations the rule is the same: on no path through
_get_solver may constraints be asserted into a solver that may be shared unless the
solver was (re)acquired on that path in this call.  Decided on the CFG of _get_solver
with three-valued branch evaluation, once per configuration of the state the property
quantifies over.
"""

from __future__ import annotations

import ast
import itertools

from .. import util
from ..cfg import CFG, describe_path
from ..core import dotted, norm, walk_no_nested
from ..report import rule

FF = "claripy/frontend/full_frontend.py"
CF = "claripy/frontend/constrained_frontend.py"


def _is_acquire(node):
    """self._tls.solver = <backend>.solver(...) | <backend>.clone_solver(...)"""
    a = node.ast
    if not isinstance(a, ast.Assign):
        return False
    if ast.unparse(a.targets[0]) != "self._tls.solver":
        return False
    v = a.value
    return (
        isinstance(v, ast.Call)
        and isinstance(v.func, ast.Attribute)
        and v.func.attr in ("solver", "clone_solver")
        and dotted(v.func.value) == "self._solver_backend"
    )


def _is_clone(node):
    a = node.ast
    return _is_acquire(node) and a.value.func.attr == "clone_solver"


def _asserts(node):
    a = node.ast
    if a is None:
        return False
    for c in ast.walk(a):
        if isinstance(c, ast.Call) and isinstance(c.func, ast.Attribute):
            if c.func.attr == "_add_constraints" and dotted(c.func.value) == "self":
                return True
            if c.func.attr in ("add", "_add") and dotted(c.func.value) == "self._solver_backend":
                return True
    return False


NONE_TEST = "getattr(self._tls, 'solver', None) is None"
REUSE = "self._solver_backend.reuse_z3_solver"
PENDING = "len(self._to_add) > 0"
FINAL = "self._finalized"


def _effects(st):
    out = {}
    for c in ast.walk(st):
        if isinstance(c, ast.Call) and isinstance(c.func, ast.Attribute) and c.func.attr == "_add_constraints":
            out[PENDING] = False
    if isinstance(st, ast.Assign) and ast.unparse(st.targets[0]) == "self._tls.solver":
        out[NONE_TEST] = False
    return out


@rule(
    "FE.z3cow",
    props=("C14", "C11"),
    floor=6,
    family="TS",
    desc="FullFrontend._get_solver, interpreted over (solver absent/present, finalized, pending adds, "
    "reuse_z3_solver on/off): constraints are never asserted into a native solver that may be shared "
    "(branch sibling, or the per-thread solver in reuse mode) unless it was (re)acquired in this call",
)
def fe_z3cow(R):
    tree = R.tree
    m = tree.mod(FF)
    fn = util.inline_trivial_helpers(tree.func(FF, "FullFrontend._get_solver"), util.methods_of(tree.cls(FF, "FullFrontend")))
    src = ast.unparse(fn)
    for atom in (REUSE, PENDING, FINAL):
        R.need(atom in src, f"_get_solver no longer tests `{atom}` (anchor moved)")
    R.need("getattr(self._tls, 'solver', None)" in src, "_get_solver no longer tests the cached solver for None")

    def no_raise(call):
        return True  # exceptional paths are irrelevant to this ownership rule

    g = CFG(fn, no_raise=no_raise)
    n_cfg = 0
    for absent, finalized, pending, reuse in itertools.product((True, False), repeat=4):
        assume = {NONE_TEST: absent, FINAL: finalized, PENDING: pending, REUSE: reuse}
        # has `hasattr(self._solver_backend, 'clone_solver')` -> unknown (both explored)
        shared = (not absent) and (finalized or reuse)
        cfgname = (
            f"solver {'absent' if absent else 'cached'}, {'finalized' if finalized else 'not finalized'}, "
            f"{'pending adds' if pending else 'nothing pending'}, reuse_z3_solver={'on' if reuse else 'off'}"
        )
        n_cfg += 1
        # 1. every normal path returns a solver that holds all constraints: if anything is pending or the
        #    solver is absent, some assertion happens before the return.
        # 2. ownership: if the cached solver may be shared, no assertion happens before a (re)acquisition.
        #    Walk all paths from entry; track whether an acquisition happened.
        bad_share = []
        bad_flush = []
        stack = [(g.entry, dict(assume), False, False, [g.entry])]
        seen = set()
        from ..cfg import _eval3
        from .. import guards

        while stack:
            node, facts, acquired, asserted, path = stack.pop()
            for nxt, label in node.succ:
                if label == "exc":
                    continue
                nf = dict(facts)
                if node.kind == "test" and label in ("T", "F"):
                    want = label == "T"
                    v = _eval3(node.ast, facts)
                    if v is not None and v != want:
                        continue
                    for t, pol in guards._split_bool(node.ast, want):
                        nf[ast.unparse(t)] = pol
                acq, ass = acquired, asserted
                if nxt.ast is not None and nxt.kind == "stmt":
                    for k, v in _effects(nxt.ast).items():
                        nf[k] = v
                    if _is_acquire(nxt):
                        acq = True
                        # a freshly created (reuse off) or cloned solver is private; in reuse mode solver()
                        # resets the shared per-thread solver, which makes it ours for the rest of this call
                    if _asserts(nxt):
                        ass = True
                        if shared and not acq:
                            bad_share.append(path + [nxt])
                            continue
                if nxt is g.exit:
                    if (absent or pending or reuse) and not ass:
                        bad_flush.append(path + [nxt])
                    continue
                if nxt is g.raise_exit:
                    continue
                key = (id(nxt), tuple(sorted(nf.items())), acq, ass)
                if key in seen:
                    continue
                seen.add(key)
                stack.append((nxt, nf, acq, ass, path + [nxt]))
        if bad_share:
            p = bad_share[0]
            why = (
                "the per-thread solver handed out in reuse mode holds whatever the last frontend asserted"
                if reuse
                else "the solver is still shared with the other side of a branch()"
            )
            R.bad(
                m,
                p[-1].ast,
                f"[{cfgname}] constraints are asserted into the cached native solver without re-acquiring it "
                f"in this call ({why}); path: {describe_path(p[-5:])}",
                construct=f"_get_solver asserts into a possibly shared solver [{cfgname}]",
            )
        elif bad_flush:
            p = bad_flush[0]
            R.bad(
                m,
                fn,
                f"[{cfgname}] _get_solver returns without asserting the pending constraints; path: "
                f"{describe_path(p[-5:])}",
                construct=f"_get_solver returns an incomplete solver ({cfgname})",
            )
        else:
            R.ok(m, fn, f"[{cfgname}] no assertion into a possibly shared solver; pending constraints flushed")
    R.extra["configurations"] = n_cfg

    # the protocol around it: _copy finalizes both sides, nobody un-finalizes, the branch gets the same solver
    cm = tree.mod(CF)
    cp = tree.func(CF, "ConstrainedFrontend._copy")
    recv = util.func_param(cp, 1)
    fins = {
        dotted(c.func.value)
        for c in ast.walk(cp)
        if isinstance(c, ast.Call) and isinstance(c.func, ast.Attribute) and c.func.attr == "finalize"
    }
    R.check(
        {"self", recv} <= fins,
        cm,
        cp,
        "ConstrainedFrontend._copy finalizes both sides of a branch",
        f"ConstrainedFrontend._copy finalizes only {sorted(fins)}: the un-finalized side keeps asserting into the "
        f"native solver it shares with the other",
        construct="ConstrainedFrontend._copy finalizes both",
    )
    fz = tree.func(CF, "ConstrainedFrontend.finalize")
    R.check(
        any(a == "_finalized" and isinstance(v, ast.Constant) and v.value is True for a, k, n, v in util.attr_writes(fz, "self")),
        cm,
        fz,
        "finalize() sets _finalized",
        "finalize() no longer sets _finalized = True",
        construct="ConstrainedFrontend.finalize",
    )
    for mm, q, f in tree.all_functions():
        if not mm.path.startswith("claripy/frontend/"):
            continue
        if q.split(".")[-1] in ("__init__", "_blank_copy"):
            continue
        for recv_ in ("self", "c"):
            for a, kind, node, val in util.attr_writes(f, recv_):
                if a == "_finalized" and isinstance(val, ast.Constant) and val.value is False:
                    R.bad(mm, node, f"{q} un-finalizes a frontend: it would assert into a solver shared with its branch")
    # _add_constraints asserts into the thread's cached solver and empties the queue
    ac = tree.func(FF, "FullFrontend._add_constraints")
    R.check(
        any(a == "_to_add" and kind == "assign" and isinstance(v, (ast.List, ast.Call)) for a, kind, n, v in util.attr_writes(ac, "self")),
        m,
        ac,
        "_add_constraints empties the pending queue",
        "_add_constraints no longer empties _to_add",
        construct="FullFrontend._add_constraints clears _to_add",
    )
