"""Construction-time rules on ast/base.py, operations.py, simplifications.py and friends:
C04 (no crash), C05 (metadata), C06 (hash-consing), C07 (annotations), C08 (utilities)."""

from __future__ import annotations

import ast
import re

from .. import guards, opfacts, refs, util
from ..core import FuncTypes, dotted, enclosing_function, norm, positional_params, walk_no_nested
from ..report import rule
from .ast_tables import dispatch
from .z3solver import error_ancestors

BASE = "claripy/ast/base.py"
BVAST = "claripy/ast/bv.py"
BOOLAST = "claripy/ast/bool.py"
OPS = "claripy/operations.py"
SIMP = "claripy/simplifications.py"
BAL = "claripy/backends/backend_vsa/balancer.py"
CBV = "claripy/backends/backend_concrete/bv.py"
CFP = "claripy/backends/backend_concrete/fp.py"
CSTR = "claripy/backends/backend_concrete/strings.py"
ANN = "claripy/annotation.py"
ITE = "claripy/algorithm/ite_relocation.py"
REPL = "claripy/algorithm/replace.py"


def _calls(fn):
    return [n for n in ast.walk(fn) if isinstance(n, ast.Call)]


# ----------------------------------------------------------------------------- C04.opguard


def _in_bool_context(node):
    """Is the value of `node` consumed as a Python truth value?"""
    child = node
    p = getattr(node, "_parent", None)
    while p is not None:
        if isinstance(p, ast.BoolOp):
            child, p = p, getattr(p, "_parent", None)
            continue
        if isinstance(p, ast.UnaryOp) and isinstance(p.op, ast.Not):
            child, p = p, getattr(p, "_parent", None)
            continue
        if isinstance(p, (ast.If, ast.While, ast.IfExp, ast.Assert)) and p.test is child:
            return True
        if isinstance(p, ast.comprehension) and any(i is child for i in p.ifs):
            return True
        if isinstance(p, (ast.GeneratorExp, ast.ListComp)) and p.elt is child:
            gp = getattr(p, "_parent", None)
            if isinstance(gp, ast.Call) and dotted(gp.func) in ("all", "any"):
                return True
            return False
        return False
    return False


def _risky_leaves(expr):
    """Subscripts `X.args[i]` (constant i) whose *value* takes part in a comparison / arithmetic."""
    out = []

    def rec(n, valued):
        if isinstance(n, ast.Subscript) and isinstance(n.value, ast.Attribute) and n.value.attr == "args":
            if isinstance(n.slice, ast.Constant) and isinstance(n.slice.value, int) and valued:
                out.append(n)
            rec(n.value.value, False)
            return
        if isinstance(n, ast.Attribute):
            rec(n.value, False)
            return
        if isinstance(n, ast.Call):
            for a in n.args:
                rec(a, False)
            if isinstance(n.func, ast.Attribute):
                rec(n.func.value, False)
            return
        if isinstance(n, ast.BinOp):
            rec(n.left, valued)
            rec(n.right, valued)
            return
        if isinstance(n, ast.UnaryOp):
            rec(n.operand, valued)
            return
        if isinstance(n, ast.Subscript):
            rec(n.value, False)
            return

    rec(expr, True)
    return out


@rule(
    "C04.opguard",
    props=("C04", "C01"),
    floor=40,
    family="GRD",
    desc="a comparison in Boolean context on `P.args[i]` is dominated by a fact `P.op in S` such that slot i is "
    "a Python value for every op in S (otherwise the operand may be an AST and its truth test raises)",
)
def c04_opguard(R):
    tree = R.tree
    n = 0
    for path in (SIMP, BOOLAST, BAL, ITE):
        m = tree.mod(path)
        for q, fn in m.functions.items():
            seeds = opfacts.entry_seeds(tree, m, fn) if path == BAL else {}
            env = opfacts.FactEnv(fn, seeds)
            # a handler that is only reached through a table of callables (never called by name) has entry facts this
            # rule cannot see: what its operand may be is decided where the table is indexed
            name_ = fn.name
            called = any(isinstance(c_, ast.Call) and (dotted(c_.func) or "").split(".")[-1] == name_ for c_ in ast.walk(m.tree))
            referenced = any(isinstance(x_, (ast.Attribute, ast.Name)) and (dotted(x_) or "").split(".")[-1] == name_ and not (isinstance(getattr(x_, "_parent", None), ast.Call) and x_._parent.func is x_) for x_ in ast.walk(m.tree))
            via_table = path == BAL and not called and referenced
            for cmp_ in (x for x in walk_no_nested(fn) if isinstance(x, ast.Compare)):
                if any(isinstance(o, (ast.Is, ast.IsNot, ast.In, ast.NotIn)) for o in cmp_.ops):
                    continue
                if not _in_bool_context(cmp_):
                    continue
                leaves = []
                for operand in [cmp_.left, *cmp_.comparators]:
                    leaves += _risky_leaves(operand)
                # also aliases of such leaves:  hi, lo = body.args[0:2] ; if hi < ...
                for operand in [cmp_.left, *cmp_.comparators]:
                    for nm in (x for x in ast.walk(operand) if isinstance(x, ast.Name)):
                        d = env.al.defs.get(nm.id)
                        if (
                            d is not None
                            and isinstance(d, ast.Subscript)
                            and isinstance(d.value, ast.Attribute)
                            and d.value.attr == "args"
                            and isinstance(d.slice, ast.Constant)
                            and isinstance(getattr(nm, "_parent", None), (ast.Compare, ast.BinOp, ast.UnaryOp))
                        ):
                            leaves.append(d)
                for leaf in leaves:
                    n += 1
                    base = leaf.value.value
                    idx = leaf.slice.value
                    ops = env.ops_at(cmp_, base)
                    btxt = env.al.text(base)
                    if ops is None and via_table:
                        R.ok(m, cmp_, f"{q}: reached only through a dispatch table; entry facts not visible here", nontrivial=False)
                        continue
                    if ops is None:
                        R.bad(
                            m,
                            cmp_,
                            f"{q}: `{norm(cmp_)}` tests `{btxt}.args[{idx}]` in Boolean context but nothing on this "
                            f"path establishes `{btxt}.op`: when that argument is an expression (not a Python "
                            f"value) the comparison builds an AST and its truth test raises ClaripyOperationError",
                        )
                        continue
                    unsafe = sorted(o for o in ops if idx not in refs.PRIMITIVE_SLOTS.get(o, set()) and idx >= 0)
                    R.check(
                        not unsafe,
                        m,
                        cmp_,
                        f"{q}: `{btxt}.args[{idx}]` is a Python value because {btxt}.op in {sorted(ops)}",
                        f"{q}: `{norm(cmp_)}` tests `{btxt}.args[{idx}]` while {btxt}.op may be {unsafe}, whose "
                        f"argument {idx} is an expression: the truth test raises",
                    )
    R.extra["guarded_uses"] = n


# ----------------------------------------------------------------------------- C04.raise


def _concrete_handler_functions(tree):
    """All functions of the concrete value modules (handlers, value-class methods, decorators' inner functions)."""
    out = []
    for path in (CBV, CFP, CSTR):
        m = tree.mod(path)
        for q, fn in m.functions.items():
            out.append((m, q, fn))
    return out


ILL_TYPED_GUARDS = {
    # raises that only ill-typed / ill-sized input can reach, with the reason
    (CFP, "compare_sorts.compare_guard"): "differently-sorted floats are ill-typed input",
    (CFP, "normalize_types.normalize_helper"): "non-float operands are ill-typed input",
    (CBV, "normalize_types.normalize_helper"): "debug-mode refusal of foreign (z3) objects, ill-typed input",
}


@rule(
    "C04.raise",
    props=("C04",),
    floor=15,
    family="EXC",
    desc="in the concrete folding code every explicit raise names a claripy error class, and no assert depends on "
    "an operand's value (an AssertionError is not a claripy error)",
)
def c04_raise(R):
    tree = R.tree
    anc, parents = error_ancestors(tree)
    for m, q, fn in _concrete_handler_functions(tree):
        params = set(positional_params(fn))
        if fn.args.vararg:
            params.add(fn.args.vararg.arg)
        for n in walk_no_nested(fn):
            if isinstance(n, ast.Raise):
                if n.exc is None:
                    R.ok(m, n, f"{q}: re-raise", nontrivial=False)
                    continue
                e = n.exc.func if isinstance(n.exc, ast.Call) else n.exc
                name = (dotted(e) or ast.unparse(e)).split(".")[-1]
                if (m.path, q) in ILL_TYPED_GUARDS:
                    R.ok(m, n, f"{q}: {ILL_TYPED_GUARDS[(m.path, q)]}", nontrivial=False)
                    continue
                R.check(
                    "ClaripyError" in anc.get(name, set()),
                    m,
                    n,
                    f"{q}: raises the claripy error {name}",
                    f"{q} raises {name}, which is not a claripy error class: building an expression can fail "
                    f"with an unrelated Python exception",
                )
            elif isinstance(n, ast.Assert):
                dep = util.depends_on(n.test, params, fn)
                R.check(
                    not dep,
                    m,
                    n,
                    f"{q}: assertion does not depend on operand values",
                    f"{q} asserts `{norm(n.test)}` on a value derived from its operands: inputs that fail it "
                    f"raise AssertionError out of the public constructor",
                )
            elif isinstance(n, ast.ExceptHandler) and n.type is not None and ast.unparse(n.type) == "Exception":
                rer = n.body and isinstance(n.body[-1], ast.Raise)
                R.check(bool(rer), m, n, f"{q}: broad handler re-raises", f"{q}: `except Exception` swallows errors")


# ----------------------------------------------------------------------------- C04.shift


@rule(
    "C04.shift",
    props=("C04",),
    floor=2,
    family="GRD",
    desc="a Python `<<` in the concrete bit-vector code whose shift amount comes from an operand's value is "
    "dominated by a comparison of that amount with the width (2**62 as a shift amount exhausts memory)",
)
def c04_shift(R):
    tree = R.tree
    m = tree.mod(CBV)
    d = dispatch(tree, "concrete")
    reachable = set()
    # forward handlers reachable from ASTs: BVV forward dunders + module-level handlers
    bvv = tree.cls(CBV, "BVV")
    for name, fn in util.methods_of(bvv).items():
        if name.startswith("__r") and name not in ("__rshift__", "__repr__"):
            continue  # reflected dunders of the concrete class are unreachable from ASTs
        reachable.add(fn)
    for op, h in d.raw.items():
        if h.fn is not None and h.path == CBV:
            reachable.add(h.fn)
    n = 0
    for fn in reachable:
        params = positional_params(fn)
        for b in (x for x in walk_no_nested(fn) if isinstance(x, ast.BinOp) and isinstance(x.op, ast.LShift)):
            amt = b.right
            # amounts derived from an operand's .value / .signed
            operand_derived = any(
                isinstance(x, ast.Attribute) and x.attr in ("value", "signed") and isinstance(x.value, ast.Name) and x.value.id in params
                for x in ast.walk(amt)
            )
            if not operand_derived:
                continue
            n += 1
            q = getattr(fn, "_qualname", fn.name)
            amt_names = {ast.unparse(x) for x in ast.walk(amt) if isinstance(x, ast.Attribute)}
            bounded = False
            for t, pol in guards.guards_of(b):
                if isinstance(t, ast.Compare):
                    txt = ast.unparse(t)
                    if any(a in txt for a in amt_names) and any(k in txt for k in ("bits", "size()", "mod")):
                        bounded = True
            # masking the amount (x % bits) also bounds it
            if isinstance(amt, ast.BinOp) and isinstance(amt.op, ast.Mod):
                bounded = True
            R.check(
                bounded,
                m,
                b,
                f"{q}: shift amount is compared with the width first",
                f"{q} evaluates `{norm(b)}` with an amount taken from the operand and no bound: "
                f"BVV(1, 64) << BVV(2**62, 64) tries to build a 2**62-bit integer (MemoryError / hang)",
            )
    R.need(n >= 1, "no operand-derived left shift found in the concrete bit-vector code (anchor vanished)")
    # the same amounts are bounded where rotates use them
    for op in ("RotateLeft", "RotateRight"):
        fn = d.raw[op].fn
        mods = [x for x in ast.walk(fn) if isinstance(x, ast.BinOp) and isinstance(x.op, ast.Mod)]
        R.check(bool(mods), m, fn, f"{op} reduces its amount modulo the width", f"{op} no longer reduces its amount modulo the width")


# ----------------------------------------------------------------------------- C05 / C06 / C07 on Base.__new__


_NEW_ROLES = (
    "a_args = args if type(args) is tuple else tuple(args)",
    "b_args = tuple(a for a in a_args if isinstance(a, Base))",
    "arg_max_depth = max((a.depth for a in b_args), default=0)",
    "r = operations._handle_annotations(claripy.backends.concrete._abstract(claripy.backends.concrete.call(op, args)), args)",
    "uneliminatable_annotations = frozenset(a for a in annotations if not (a.eliminatable or a.relocatable))",
    "relocatable_annotations = frozenset(a for a in annotations if not a.eliminatable and a.relocatable)",
    "for a in b_args: ...",
    "hash_ = Base._calc_hash(op, a_args, annotations, length)",
    "depth = arg_max_depth + 1",
)


_MAKE_LIKE_ROLES = (
    "simplified, annotated = claripy.simplifications.simplify(op, args) if simplify else (None, False)",
    "cache = type(self)._hash_cache",
    "h = Base._calc_hash(op, args, annotations, length)",
    "cached_ast = cast('T | None', cache.get(h, None))",
    "result: T = super().__new__(type(self))",
    "all_operations = operations.leaf_operations_symbolic",
)


def _make_like(tree):
    if not hasattr(tree, "_canon_make_like"):
        tree._canon_make_like = util.canonicalise(tree.func_inlined(BASE, "Base.make_like", exclude=("_calc_hash", "_ast_serialize", "_arg_serialize")), _MAKE_LIKE_ROLES)[0]
    return tree._canon_make_like


def _new(tree):
    """Base.__new__ with its locals named by role (the reference statements above identify them), so that the checks
    below do not depend on what the locals happen to be called"""
    if not hasattr(tree, "_canon_new"):
        tree._canon_new = util.canonicalise(tree.func(BASE, "Base.__new__"), _NEW_ROLES)[0]
    return tree._canon_new


@rule(
    "C05.stored",
    props=("C05", "C06"),
    floor=8,
    family="DEP",
    desc="in Base.__new__ the op/args/annotations/length that are hashed are the ones stored in the node, and "
    "symbolic / variables / depth are derived from the children of exactly those args",
)
def c05_stored(R):
    tree = R.tree
    m = tree.mod(BASE)
    fn = _new(tree)
    # names are found structurally: A = what is stored as the node's args, B = the AST children among A
    inits0 = [c for c in _calls(fn) if (dotted(c.func) or "").endswith("__a_init__")]
    R.need(len(inits0) == 1 and len(inits0[0].args) >= 2 and isinstance(inits0[0].args[1], ast.Name), "Base.__new__: __a_init__(op, <args name>, ...) not found")
    A = inits0[0].args[1].id
    defs = {}
    for st in walk_no_nested(fn):
        if isinstance(st, ast.Assign) and isinstance(st.targets[0], ast.Name):
            defs.setdefault(st.targets[0].id, []).append(st)
    B = None
    for nm, ds in defs.items():
        for d in ds:
            for g in ast.walk(d.value):
                if isinstance(g, (ast.GeneratorExp, ast.ListComp)) and len(g.generators) == 1 and ast.unparse(g.generators[0].iter) == A:
                    tests = " ".join(ast.unparse(t) for t in g.generators[0].ifs)
                    if "isinstance" in tests and "Base" in tests and ast.unparse(g.elt) == ast.unparse(g.generators[0].target):
                        B = nm
    R.need(B is not None, f"Base.__new__: the tuple of AST children of `{A}` not found")
    # ... and they are *all* the AST children, on every path: the definition is the filter itself, not one arm of a choice
    for d in defs.get(B, []):
        v = d.value
        whole = isinstance(v, (ast.GeneratorExp, ast.ListComp)) or (
            isinstance(v, ast.Call) and dotted(v.func) in ("tuple", "list", "frozenset") and len(v.args) == 1 and isinstance(v.args[0], (ast.GeneratorExp, ast.ListComp))
        )
        R.check(
            whole and not guards.holds(d, stop=fn),
            m,
            d,
            "the AST children are all AST arguments, unconditionally",
            f"Base.__new__ computes the AST children as `{norm(v)[:100]}`" + (f" under {guards.holds(d, stop=fn)}" if guards.holds(d, stop=fn) else "")
            + ": on some path children are left out, and depth / errored / the annotation summaries are derived from them - the "
            "unpickler passes symbolic and variables for every node, an inner node rebuilt from a pickle then reported depth 1 and "
            "leaf_asts() / replace() stopped at it",
            construct="Base.__new__: AST children computed conditionally",
        )
    for nm, role in ((A, "stored args"), (B, "AST children")):
        R.check(len(defs.get(nm, [])) == 1, m, fn, f"{role} have a single definition", f"the {role} (`{nm}`) are assigned {len(defs.get(nm, []))} times",
                construct=f"Base.__new__: {role} single definition")
    if A in defs:
        R.check(
            util.depends_on(defs[A][0].value, {"args"}, None),
            m,
            defs[A][0],
            "stored args are the caller's args as a tuple",
            f"the stored args are `{norm(defs[A][0].value)}`",
            construct="Base.__new__: stored args from the caller's args",
        )
    # derived metadata
    want = {"symbolic": "symbolic", "variables": "variables", "arg_max_depth": "depth"}

    def _derives(d, nm, attr):
        """The derivation ranges over *all* AST children with the aggregator the field needs."""
        gens = [g for g in ast.walk(d.value) if isinstance(g, (ast.GeneratorExp, ast.ListComp))]
        if not any(
            len(g.generators) == 1
            and ast.unparse(g.generators[0].iter) == B
            and not g.generators[0].ifs
            and isinstance(g.elt, ast.Attribute)
            and g.elt.attr == attr
            and ast.unparse(g.elt.value) == ast.unparse(g.generators[0].target)
            for g in gens
        ):
            return False
        agg = {"symbolic": "any", "arg_max_depth": "max"}.get(nm)
        if agg is not None:
            return isinstance(d.value, ast.Call) and dotted(d.value.func) == agg
        return True

    for nm, attr in want.items():
        ds = [d for d in defs.get(nm, []) if _derives(d, nm, attr)]
        R.check(
            len(ds) == 1,
            m,
            fn,
            f"{nm} derived from the children",
            f"{nm} is no longer derived as `<child>.{attr}` over all AST children: the node's {nm} can disagree with its children",
            construct=f"Base.__new__: {nm} from the AST children",
        )
    # the defaulted derivations only apply when the caller passed None
    for nm in ("symbolic", "variables"):
        for d in defs.get(nm, []):
            if B in {x.id for x in ast.walk(d.value) if isinstance(x, ast.Name)}:
                facts = [(ast.unparse(t), pol) for t, pol in guards.guards_of(d)]
                R.check(
                    (f"{nm} is None", True) in facts,
                    m,
                    d,
                    f"{nm} derived exactly when not supplied",
                    f"derivation of {nm} is guarded by {facts}",
                )
    # hashed == stored
    hashes = [c for c in _calls(fn) if (dotted(c.func) or "").endswith("_calc_hash")]
    inits = [c for c in _calls(fn) if (dotted(c.func) or "").endswith("__a_init__")]
    R.need(len(hashes) == 1 and len(inits) == 1, "Base.__new__: expected one _calc_hash and one __a_init__ call")
    h, i = hashes[0], inits[0]
    hashed = [ast.unparse(a) for a in h.args]
    stored = {
        "op": ast.unparse(i.args[0]),
        "args": ast.unparse(i.args[1]),
        "annotations": ast.unparse(util.kw(i, "annotations")) if util.kw(i, "annotations") is not None else None,
        "length": ast.unparse(util.kw(i, "length")) if util.kw(i, "length") is not None else None,
    }
    R.check(
        hashed == [stored["op"], stored["args"], stored["annotations"], stored["length"]],
        m,
        h,
        "the hash covers exactly (op, args, annotations, length) as stored",
        f"_calc_hash is given {hashed} but the node stores {stored}: two different nodes can share a key or one "
        f"node can be filed under the key of another",
    )
    # between hashing and storing, none of them is reassigned
    hstmt = h
    while not isinstance(hstmt, ast.stmt):
        hstmt = hstmt._parent
    after = False
    for st in walk_no_nested(fn):
        if st is hstmt:
            after = True
            continue
        if after and isinstance(st, ast.Assign):
            for t in st.targets:
                if isinstance(t, ast.Name) and t.id in ("op", A, "annotations", "length"):
                    R.bad(m, st, f"`{t.id}` is reassigned after it was hashed and before it is stored")
    # depth = deepest child + 1
    dk = util.kw(i, "depth")
    ddef = [d for d in defs.get("depth", [])]
    R.check(
        dk is not None
        and (
            ast.unparse(dk) in ("arg_max_depth + 1", "1 + arg_max_depth")  # written in place (or a temporary read in place)
            or (isinstance(dk, ast.Name) and len(defs.get(dk.id, [])) == 1 and ast.unparse(defs[dk.id][0].value) in ("arg_max_depth + 1", "1 + arg_max_depth"))
        ),
        m,
        i,
        "depth = deepest child + 1",
        "the stored depth is not `arg_max_depth + 1`",
        construct="Base.__new__: depth",
    )
    for kwn, src in (("symbolic", "symbolic"), ("errored", "errored")):
        k = util.kw(i, kwn)
        R.check(k is not None and ast.unparse(k) == src, m, i, f"{kwn} stored as computed", f"{kwn} stored as `{norm(k) if k is not None else None}`")
    R.check(ast.unparse(i.args[2]) == "variables", m, i, "variables stored as computed", f"variables stored as `{norm(i.args[2])}`")
    # the store key is the hash just computed
    stores = [st for st in walk_no_nested(fn) if isinstance(st, ast.Assign) and isinstance(st.targets[0], ast.Subscript) and "_hash_cache" in ast.unparse(st.targets[0])]
    # the freshly allocated object: whatever local receives super().__new__(cls)
    fresh = [
        st.targets[0].id
        for st in walk_no_nested(fn)
        if isinstance(st, ast.Assign) and isinstance(st.targets[0], ast.Name) and isinstance(st.value, ast.Call) and isinstance(st.value.func, ast.Attribute)
        and st.value.func.attr == "__new__" and isinstance(st.value.func.value, ast.Call) and dotted(st.value.func.value.func) == "super"
    ]
    obj = fresh[0] if len(fresh) == 1 else "self"
    R.check(
        len(stores) == 1 and ast.unparse(stores[0].targets[0].slice) == "hash_" and ast.unparse(stores[0].value) == obj,
        m,
        fn,
        "the new node is filed under the hash just computed",
        "the new node is not stored as _hash_cache[hash_] = self",
        construct="Base.__new__: cache store",
    )
    sets = [st for st in walk_no_nested(fn) if isinstance(st, ast.Assign) and ast.unparse(st.targets[0]) == f"{obj}._hash"]
    R.check(len(sets) == 1 and ast.unparse(sets[0].value) == "hash_", m, fn, "self._hash is that hash", "self._hash is not set to hash_",
            construct="Base.__new__: self._hash")


@rule(
    "C05.fast",
    props=("C05", "C06"),
    floor=4,
    family="WHO",
    desc="make_like's metadata-reusing fast path (copies the receiver's variables/depth/symbolic) is taken only by "
    "callers that pass the receiver's own op and args; every other construction derives metadata from the children",
)
def c05_fast(R):
    tree = R.tree
    m = tree.mod(BASE)
    ml = _make_like(tree)
    # the fast-path condition
    fast = None
    for st in ml.body:
        if isinstance(st, ast.If) and any("__a_init__" in ast.unparse(x) for x in st.body):
            fast = st
    R.need(fast is not None, "make_like fast path not found")
    cond = {ast.unparse(t) for t, pol in guards._split_bool(fast.test, True) if pol}
    need = {"simplified is None", "annotations", "variables is None", "symbolic is None", "skip_child_annotations", "length is not None"}
    R.check(
        need <= cond,
        m,
        fast,
        "fast path requires: no simplification, annotations given, no metadata overrides, skip_child_annotations, length",
        f"fast-path condition lost {sorted(need - cond)}",
    )
    init = [c for c in _calls(fast) if (dotted(c.func) or "").endswith("__a_init__")][0]
    R.check(
        ast.unparse(init.args[2]) == "self.variables"
        and ast.unparse(util.kw(init, "depth")) == "self.depth"
        and ast.unparse(util.kw(init, "symbolic")) == "self.symbolic",
        m,
        init,
        "fast path copies the receiver's own metadata",
        "fast path no longer copies self.variables / self.depth / self.symbolic",
    )
    # every caller that can reach the fast path passes (self.op, self.args)
    n = 0
    for mm, q, fn in tree.all_functions():
        for c in (x for x in walk_no_nested(fn) if isinstance(x, ast.Call)):
            if not (isinstance(c.func, ast.Attribute) and c.func.attr == "make_like"):
                continue
            n += 1
            sk = util.kw(c, "skip_child_annotations")
            reach = sk is not None and not (isinstance(sk, ast.Constant) and sk.value is False)
            if not reach:
                R.ok(mm, c, f"{q}: cannot take the fast path (skip_child_annotations not set)", nontrivial=False)
                continue
            recv = ast.unparse(c.func.value)
            ok = len(c.args) >= 2 and ast.unparse(c.args[0]) == f"{recv}.op" and ast.unparse(c.args[1]) == f"{recv}.args"
            R.check(
                ok or util.kw(c, "variables") is not None,
                mm,
                c,
                f"{q}: fast-path caller passes the receiver's own op and args",
                f"{q} calls make_like({', '.join(ast.unparse(a) for a in c.args[:2])}, skip_child_annotations=...) on "
                f"`{recv}`: the new node would inherit {recv}'s variables/depth/symbolic although its op/args differ",
            )
    R.need(n >= 8, f"only {n} make_like call sites found")
    # the fast path looks the node up before creating it and files it under the same hash
    txt = ast.unparse(fast)
    R.check(
        "h = Base._calc_hash(op, args, annotations, length)" in txt and "cache.get(h, None)" in txt and "cache[h] = result" in txt
        and "result._hash = h" in txt,
        m,
        fast,
        "fast path: lookup, create, store under one hash of (op, args, annotations, length)",
        "fast path no longer hashes (op, args, annotations, length), looks it up and stores under the same key",
        construct="make_like fast path hash-cons protocol",
    )
    hargs = [c for c in _calls(fast) if (dotted(c.func) or "").endswith("_calc_hash")][0]
    R.check(
        [ast.unparse(a) for a in hargs.args] == [ast.unparse(init.args[0]), ast.unparse(init.args[1]), ast.unparse(util.kw(init, "annotations")), ast.unparse(util.kw(init, "length"))],
        m,
        hargs,
        "fast path hashes what it stores",
        "fast path hashes different values than it stores in the node",
    )


CTOR_OVERRIDE_OK = {
    # sites that may pass variables= / symbolic= explicitly to an AST constructor
    (BVAST, "BVS"), (BOOLAST, "BoolS"), ("claripy/ast/fp.py", "FPS"), ("claripy/ast/strings.py", "StringS"),
    (BASE, "_d"), (BASE, "Base.make_like"), (SIMP, "_flatten_simplifier"),
}


@rule(
    "C05.override",
    props=("C05",),
    floor=6,
    family="WHO",
    desc="variables= / symbolic= are passed explicitly to an AST constructor only at the sanctioned sites; leaf "
    "constructors name exactly their own symbol; flattening passes the union over all original arguments",
)
def c05_override(R):
    tree = R.tree
    ast_classes = {"BV", "Bool", "FP", "String", "Base", "Bits", "cls", "ty", "result_ty"}
    n = 0
    for mm, q, fn in tree.all_functions():
        if mm.path.startswith("claripy/backends/backend_vsa/") and not mm.path.endswith("balancer.py"):
            continue
        for c in (x for x in walk_no_nested(fn) if isinstance(x, ast.Call)):
            v = util.kw(c, "variables")
            s = util.kw(c, "symbolic")
            if v is None and s is None:
                continue
            d = dotted(c.func) or ast.unparse(c.func)
            last = d.split(".")[-1]
            is_ctor = last in ast_classes or last in ("make_like", "__new__") or d in ("type(self)",) or ast.unparse(c.func).startswith("type(self)")
            if not is_ctor:
                continue
            n += 1
            R.check(
                (mm.path, q) in CTOR_OVERRIDE_OK,
                mm,
                c,
                f"{q} is a sanctioned site for explicit metadata",
                f"{q} passes {'variables' if v is not None else 'symbolic'}= explicitly to {d}: node metadata is "
                f"asserted instead of derived from the children",
            )
            if (mm.path, q) in CTOR_OVERRIDE_OK and q in ("BVS", "BoolS", "FPS", "StringS"):
                name_arg = c.args[1].elts[0] if len(c.args) >= 2 and isinstance(c.args[1], ast.Tuple) and c.args[1].elts else None
                ok = (
                    v is not None
                    and name_arg is not None
                    and ast.unparse(v) == f"frozenset(({ast.unparse(name_arg)},))"
                    and s is not None
                    and isinstance(s, ast.Constant)
                    and s.value is True
                )
                R.check(
                    ok,
                    mm,
                    c,
                    f"{q}: variables = {{own name}}, symbolic = True",
                    f"{q} builds a symbol whose variables are `{norm(v) if v is not None else None}` and symbolic "
                    f"`{norm(s) if s is not None else None}`; they must be frozenset((name,)) with the name in args[0], and True",
                )
    R.need(n >= 6, f"only {n} explicit-metadata constructor calls found")
    fl = tree.func(SIMP, "_flatten_simplifier")
    # the value passed as variables= to the final make_like, whatever the local is called
    vkw = [util.kw(c, "variables") for c in ast.walk(fl) if isinstance(c, ast.Call) and isinstance(c.func, ast.Attribute) and c.func.attr == "make_like" and util.kw(c, "variables") is not None]
    vname = vkw[0].id if len(vkw) == 1 and isinstance(vkw[0], ast.Name) else None
    vdef = [st for st in walk_no_nested(fl) if isinstance(st, ast.Assign) and ast.unparse(st.targets[0]) == vname]
    R.check(
        len(vdef) == 1
        and (
            util.alpha_eq(vdef[0].value, "frozenset(itertools.chain.from_iterable((a.variables for a in args if isinstance(a, claripy.ast.Base))))", fl)
            or util.alpha_eq(vdef[0].value, "frozenset(itertools.chain.from_iterable((a.variables for a in args)))", fl)
        ),
        tree.mod(SIMP),
        fl,
        "_flatten_simplifier: variables = union over all original arguments",
        "_flatten_simplifier no longer passes the union of the variables of all its arguments",
        construct="_flatten_simplifier variables",
    )
    # make_like forwards overrides only for leaf-like ops
    ml = _make_like(tree)
    # the op set for which the receiver's metadata is reused contains leaf ops only (ops without AST arguments)
    ao = [st for st in walk_no_nested(ml) if isinstance(st, ast.Assign) and ast.unparse(st.targets[0]) == "all_operations"]
    R.need(len(ao) == 1, "make_like: `all_operations` not found")
    ops_mod = tree.mod(OPS)
    try:
        opset = tree.eval_const(tree.mod(BASE), ao[0].value)
    except Exception:  # noqa: BLE001
        opset = None
    leafs = tree.const(ops_mod, "leaf_operations")
    R.check(
        isinstance(opset, (set, frozenset)) and opset <= leafs,
        tree.mod(BASE),
        ao[0],
        "make_like reuses the receiver's variables/symbolic for leaf ops only",
        f"make_like reuses self.variables / self.symbolic for ops {sorted(set(opset or []) - set(leafs))} that have AST "
        f"arguments: a node rebuilt with different arguments (replace, excavate_ite) keeps the old node's variables",
    )
    for nm in ("variables", "symbolic"):
        sts = [st for st in walk_no_nested(ml) if isinstance(st, ast.Assign) and ast.unparse(st.targets[0]) == nm and ast.unparse(st.value) == f"self.{nm}"]
        for st in sts:
            facts = [ast.unparse(t) for t, pol in guards.guards_of(st) if pol]
            R.check(
                f"{nm} is None" in facts and "op in all_operations" in facts,
                tree.mod(BASE),
                st,
                f"make_like reuses self.{nm} only for symbol-like ops",
                f"make_like reuses self.{nm} under {facts}",
            )


RAW_FILES_OK = {
    BOOLAST, BVAST, "claripy/ast/fp.py", "claripy/ast/strings.py", BASE, OPS, BAL, ITE, "claripy/backends/backend_z3.py",
}


@rule(
    "C05.raw",
    props=("C05",),
    floor=25,
    family="WHO",
    desc="raw node constructions outside operations.op: every bit-vector-typed one passes length=, Bool-typed ones "
    "pass none, and the set of files that construct nodes directly is the known one",
)
def c05_raw(R):
    tree = R.tree
    n = 0
    for mm, q, fn in tree.all_functions():
        for c in (x for x in walk_no_nested(fn) if isinstance(x, ast.Call)):
            d = dotted(c.func) or ""
            if d not in ("BV", "Bool", "FP", "String") or len(c.args) < 2:
                continue
            if not (isinstance(c.args[0], ast.Constant) and isinstance(c.args[0].value, str)) and not (
                isinstance(c.args[0], ast.Attribute) and c.args[0].attr == "op"
            ):
                continue
            n += 1
            R.check(
                mm.path in RAW_FILES_OK,
                mm,
                c,
                f"{q}: raw construction in a known file",
                f"{q} constructs a {d} node directly (bypassing operations.op) in a file that did not before",
            )
            ln = util.kw(c, "length")
            if d in ("BV", "FP"):
                R.check(
                    ln is not None or any(k.arg is None for k in c.keywords),
                    mm,
                    c,
                    f"{q}: {d} node gets an explicit length",
                    f"{q} builds `{norm(c)}` without length=: the node reports length None",
                )
            elif d == "Bool":
                R.check(ln is None, mm, c, f"{q}: Bool node has no length", f"{q} gives a Bool node a length")
    R.extra["raw_constructions"] = n
    # a node rebuilt with the op of an existing node Y keeps Y's width:  Y.__class__(Y.op, args, length=<width of Y>)
    k = 0
    for mm, q, fn in tree.all_functions():
        if mm.path not in RAW_FILES_OK:
            continue
        al = None
        for c in (x for x in walk_no_nested(fn) if isinstance(x, ast.Call)):
            if not (c.args and isinstance(c.args[0], ast.Attribute) and c.args[0].attr == "op" and isinstance(c.args[0].value, ast.Name)):
                continue
            y = c.args[0].value.id
            ftxt = ast.unparse(c.func)
            if ftxt not in (f"{y}.__class__", f"type({y})", "BV"):
                continue
            ln = util.kw(c, "length")
            if ln is None:
                continue
            k += 1
            lt = ast.unparse(ln)
            ok = lt in (f"{y}.length", f"len({y})", f"{y}.size()")
            if not ok:
                # Y is a branch of an If node E and the length is E's (an If has the width of its branches)
                if al is None:
                    al = opfacts.Aliases(fn)
                ytxt = al.text(c.args[0].value)
                for e in (x for x in ast.walk(ln) if isinstance(x, ast.Attribute) and x.attr == "length" and isinstance(x.value, ast.Name)):
                    etxt = al.text(e.value)
                    if ytxt in (f"{etxt}.args[1]", f"{etxt}.args[2]") and lt == f"{e.value.id}.length":
                        env = opfacts.FactEnv(fn)
                        ops = env.ops_at(c, e.value)
                        ok = ops == frozenset({"If"})
            R.check(
                ok,
                mm,
                c,
                f"{q}: node rebuilt with {y}'s op keeps {y}'s width",
                f"{q} rebuilds a node with `{y}.op` but length=`{lt}`, which is not the width of `{y}`: for width-changing "
                f"ops (extensions, Concat, comparisons) the new node reports the wrong width",
            )
    R.extra["op_copying_constructions"] = k


# ----------------------------------------------------------------------------- C06


@rule(
    "C06.key",
    props=("C06", "C18", "C05"),
    floor=8,
    family="SIB",
    desc="the identity fields agree wherever the HASHCONS comments demand it: _calc_hash/_ast_serialize consume "
    "(op, args, annotations, length); __reduce__ and _d carry the same six fields in the same order, each passed "
    "by its own keyword together with the hash",
)
def c06_key(R):
    tree = R.tree
    m = tree.mod(BASE)
    ch = tree.func(BASE, "Base._calc_hash")
    ser = tree.func(BASE, "Base._ast_serialize")
    R.check(positional_params(ch) == ["op", "args", "annotations", "length"], m, ch, "_calc_hash(op, args, annotations, length)",
            f"_calc_hash takes {positional_params(ch)}")
    R.check(positional_params(ser) == ["op", "args", "annotations", "length"], m, ser, "_ast_serialize(op, args, annotations, length)",
            f"_ast_serialize takes {positional_params(ser)}")
    call = [c for c in _calls(ch) if (dotted(c.func) or "").endswith("_ast_serialize")]
    R.check(
        len(call) == 1 and [ast.unparse(a) for a in call[0].args] == ["op", "args", "annotations", "length"],
        m,
        ch,
        "_calc_hash serializes all four identity fields",
        "_calc_hash does not pass (op, args, annotations, length) to _ast_serialize",
        construct="_calc_hash -> _ast_serialize",
    )
    ret = [r for r in walk_no_nested(ser) if isinstance(r, ast.Return)][0]
    used = {n.id for n in ast.walk(ret.value) if isinstance(n, ast.Name)}
    locs = {}
    for st in ser.body:
        if isinstance(st, ast.Assign) and isinstance(st.targets[0], ast.Name):
            locs[st.targets[0].id] = {n.id for n in ast.walk(st.value) if isinstance(n, ast.Name)}
    reach = set(used)
    for u in list(used):
        reach |= locs.get(u, set())
    for f in ("op", "args", "annotations", "length"):
        R.check(
            f in reach,
            m,
            ret,
            f"the serialization depends on {f}",
            f"_ast_serialize's result does not depend on `{f}`: nodes differing only in {f} share a hash and are "
            f"returned for one another",
            construct=f"_ast_serialize uses {f}",
        )
    # each argument / annotation is delimited (no concatenation ambiguity)
    R.check(util.has_frag(ser, "(b'<' + Base._arg_serialize(a) + b'>' for a in args)", ser) and util.has_frag(ser, "(b'(' + Base._arg_serialize(a) + b')' for a in annotations)", ser), m, ser,
            "arguments and annotations are individually delimited", "arguments/annotations are no longer delimited in the serialization",
            construct="_ast_serialize delimiters")
    red = util.inline_aliases(tree.func(BASE, "Base.__reduce__"), lambda v: True)  # named intermediates are fine
    dd = tree.func(BASE, "_d")
    rret = [r for r in walk_no_nested(red) if isinstance(r, ast.Return)][0].value
    R.need(isinstance(rret, ast.Tuple) and len(rret.elts) == 2 and isinstance(rret.elts[1], ast.Tuple), "__reduce__ shape changed")
    inner = rret.elts[1].elts
    fields = [ast.unparse(e).replace("self.", "") for e in inner[2].elts] if isinstance(inner[2], ast.Tuple) else []
    R.check(ast.unparse(rret.elts[0]) == "_d", m, red, "__reduce__ rebuilds through _d", "__reduce__ no longer uses _d")
    R.check(ast.unparse(inner[0]) == "self._hash", m, red, "__reduce__ pickles the hash", "__reduce__ no longer pickles self._hash")
    unpack = [st for st in dd.body if isinstance(st, ast.Assign) and isinstance(st.targets[0], ast.Tuple)]
    R.need(len(unpack) == 1, "_d no longer unpacks the state tuple")
    locals_ = [ast.unparse(e) for e in unpack[0].targets[0].elts]
    R.check(
        len(locals_) == len(fields) and set(fields) >= {"op", "args", "length", "annotations"} and fields[:2] == ["op", "args"],
        m,
        unpack[0],
        f"_d unpacks as many values as __reduce__ stores ({fields})",
        f"__reduce__ stores {fields} but _d unpacks {len(locals_)} values ({locals_})",
        construct="_d unpack arity",
    )
    # the i-th unpacked local holds the i-th pickled field, whatever it is called
    held = dict(zip(locals_, fields))
    names = fields
    newc = [c for c in _calls(dd) if (dotted(c.func) or "").endswith("__new__")]
    R.need(len(newc) == 1, "_d no longer calls cls.__new__")
    c = newc[0]
    pos = [held.get(ast.unparse(a), ast.unparse(a)) for a in c.args[1:3]]
    R.check(pos == ["op", "args"], m, c, "_d passes op, args positionally", f"_d passes the pickled {pos} as op, args", construct="_d positional op, args")
    for f in names[2:]:
        k = util.kw(c, f)
        R.check(
            k is not None and held.get(ast.unparse(k)) == f,
            m,
            c,
            f"_d passes {f}=<the pickled {f}>",
            f"_d passes {f}=`{held.get(ast.unparse(k), ast.unparse(k)) if k is not None else None}`: an unpickled node gets another node's {f}",
            construct=f"_d keyword {f}",
        )
    hk = util.kw(c, "hash")
    hparam = positional_params(dd)[0] if positional_params(dd) else None
    R.check(hk is not None and ast.unparse(hk) == hparam, m, c, "_d passes the pickled hash", "_d does not pass the pickled hash as hash=", construct="_d hash")
    # skip_child_annotations says "the annotations given are the node's own, do not add the children's relocatable ones
    # again" - exactly what a pickled annotation tuple is.  It is harmless only because the non-eliminatable summary is
    # inherited from the children whatever the switch says (C07.new decides that)
    newfn = _new(tree)
    unconditional = any(
        isinstance(st, ast.AugAssign) and "_uneliminatable_annotations" in ast.unparse(st.value) and not guards.holds(st, stop=newfn)
        for st in walk_no_nested(newfn)
    )
    allowed_switches = {"skip_child_annotations"} if unconditional else set()
    sk = util.kw(c, "skip_child_annotations")
    R.check(
        isinstance(sk, ast.Constant) and sk.value is True,
        m,
        c,
        "_d takes the pickled annotations as the node's own",
        "_d rebuilds a node without skip_child_annotations: __new__ then adds the children's relocatable annotations to the pickled "
        "tuple again, so annotations that were removed from the node on purpose come back - "
        "(x.annotate(Taint(1)) + y).clear_annotations() unpickled with Taint(1) on the sum, and as another object than the "
        "expression builds",
        construct="_d: pickled annotations re-completed from the children",
    )
    extra_kw = sorted(k.arg or "**" for k in c.keywords if k.arg not in set(names) | {"hash"} | allowed_switches)
    R.check(
        not extra_kw,
        m,
        c,
        "_d rebuilds through the ordinary constructor path (no construction switches)",
        f"_d passes {extra_kw} to the constructor: an unpickled node is built differently from the original "
        f"(e.g. without inheriting its children's annotation sets), so it behaves differently under later rewriting",
    )
    # every field of the pickled state is forwarded (none is dropped on the floor)
    for loc, f in held.items():
        used = any(isinstance(x, ast.Name) and x.id == loc for a in list(c.args) + [k.value for k in c.keywords] for x in ast.walk(a))
        R.check(used, m, c, f"_d forwards the pickled {f}", f"_d unpacks `{f}` from the pickled state but never passes it on: the "
                f"rebuilt node recomputes or loses it", construct=f"_d forwards {f}")


@rule(
    "C06.bypass",
    props=("C06",),
    floor=3,
    family="WHO",
    desc="AST objects are allocated only in Base.__new__ and the make_like fast path, each after a lookup of the "
    "hash-cons table under the same hash; the cached-hash shortcut of __new__ returns only the table's entry",
)
def c06_bypass(R):
    tree = R.tree
    n = 0
    for mm, q, fn in tree.all_functions():
        if not mm.path.startswith("claripy/ast/") and mm.path not in (SIMP, OPS, ITE, REPL):
            continue
        if mm.path == BASE and q == "Base.__new__":
            fn = _new(tree)  # locals named by role
        elif mm.path == BASE and q == "Base.make_like":
            fn = _make_like(tree)
        elif mm.path == BASE and q.startswith("Base.") and q.split(".", 1)[1] in (frozenset(getattr(_make_like(tree), "_inlined", ())) | frozenset(getattr(_new(tree), "_inlined", ()))):
            continue  # a private helper of the two sanctioned sites: judged as part of them
        for c in (x for x in walk_no_nested(fn) if isinstance(x, ast.Call)):
            f = c.func
            if isinstance(f, ast.Attribute) and f.attr == "__new__" and isinstance(f.value, ast.Call) and dotted(f.value.func) == "super":
                n += 1
                R.check(
                    mm.path == BASE and q in ("Base.__new__", "Base.make_like"),
                    mm,
                    c,
                    f"{q} is a sanctioned allocation site",
                    f"{q} allocates an AST object directly: it bypasses the hash-cons table",
                )
                # dominated by a failed lookup
                facts = [(ast.unparse(t), pol) for t, pol in guards.guards_of(c)]
                # the result of the table lookup: whatever local is assigned from <table>.get(<hash>, None)
                looked = {
                    tg.id
                    for st in walk_no_nested(fn)
                    if isinstance(st, ast.Assign)
                    for tg in st.targets
                    if isinstance(tg, ast.Name)
                    and any(isinstance(x, ast.Call) and isinstance(x.func, ast.Attribute) and x.func.attr == "get" for x in ast.walk(st.value))
                }
                ok = any((t == f"{nm} is None" and pol) or (t == f"{nm} is not None" and not pol) for t, pol in facts for nm in looked)
                R.check(
                    ok,
                    mm,
                    c,
                    f"{q}: allocation only after the table lookup missed",
                    f"{q} allocates under {facts}: a node with this hash may already exist",
                )
            if isinstance(f, ast.Attribute) and f.attr == "__new__" and dotted(f.value) == "object":
                R.bad(mm, c, f"{q} allocates through object.__new__, bypassing hash-consing")
    R.need(n == 2, f"expected 2 allocation sites, found {n}")
    fn = _new(tree)
    m = tree.mod(BASE)
    first = [st for st in fn.body if isinstance(st, ast.If)][0]
    t = ast.unparse(first.test)
    walrus = [x for x in ast.walk(first.test) if isinstance(x, ast.NamedExpr) and ast.unparse(x.value) == "cls._hash_cache.get(hash, None)"]
    R.check(
        "hash is not None" in t and len(walrus) == 1 and isinstance(first.body[0], ast.Return) and ast.unparse(first.body[0].value) == walrus[0].target.id,
        m,
        first,
        "a supplied hash short-cuts only to the table's own entry",
        "the supplied-hash shortcut of Base.__new__ changed shape",
    )
    look = [st for st in walk_no_nested(fn) if isinstance(st, ast.Assign) and ast.unparse(st.value) == "cls._hash_cache.get(hash_, None)"]
    R.check(len(look) >= 1, m, fn, "lookup under the computed hash", "Base.__new__ no longer looks the computed hash up in _hash_cache",
            construct="Base.__new__: lookup")
    # the object is filed under a second look at the table, taken under a lock: two threads that both missed must end
    # up with one object (every store into the table is inside a `with <lock>` block and dominated by a miss of a
    # lookup made inside that block)
    for q_ in ("Base.__new__", "Base.make_like"):
        f_ = tree.func(BASE, q_)
        for st in ast.walk(f_):
            if not (isinstance(st, ast.Assign) and isinstance(st.targets[0], ast.Subscript) and ("_hash_cache" in ast.unparse(st.targets[0].value) or ast.unparse(st.targets[0].value) == "cache")):
                continue
            par = getattr(st, "_parent", None)
            locked = None
            while par is not None and par is not f_:
                if isinstance(par, ast.With) and any("lock" in ast.unparse(it.context_expr).lower() for it in par.items):
                    locked = par
                par = getattr(par, "_parent", None)
            relook = locked is not None and any(isinstance(x, ast.Call) and isinstance(x.func, ast.Attribute) and x.func.attr == "get" for b_ in locked.body for x in ast.walk(b_))
            R.check(
                locked is not None and relook,
                m,
                st,
                f"{q_}: filed under a lock after a second look at the table",
                f"{q_} files the new object with `{ast.unparse(st)[:50]}` without re-checking the table under a lock: two threads that "
                f"missed the table for the same expression each file their own object, and the program holds two live ASTs for one "
                f"expression",
                construct=f"{q_}: filing not atomic with the lookup",
            )


@rule(
    "C06.guardsym",
    props=("C06",),
    floor=1,
    family="SIB",
    desc="a secondary cache that is looked up under a guard is stored under the same guard (a value built with "
    "extra keyword arguments must not be filed where the plain lookup finds it)",
)
def c06_guardsym(R):
    tree = R.tree
    n = 0
    for path in (BVAST, BOOLAST, "claripy/ast/fp.py", "claripy/ast/strings.py"):
        m = tree.mod(path)
        caches = set()
        for st in m.tree.body:
            if isinstance(st, ast.Assign) and isinstance(st.targets[0], ast.Name) and isinstance(st.value, ast.Call):
                if (dotted(st.value.func) or "").split(".")[-1] in ("WeakValueDictionary", "dict", "LRUCache"):
                    caches.add(st.targets[0].id)
        for q, fn in m.functions.items():
            for cname in caches:
                reads = [x for x in walk_no_nested(fn) if isinstance(x, ast.Subscript) and isinstance(x.ctx, ast.Load) and dotted(x.value) == cname]
                reads += [
                    x
                    for x in walk_no_nested(fn)
                    if isinstance(x, ast.Call) and isinstance(x.func, ast.Attribute) and x.func.attr == "get" and dotted(x.func.value) == cname
                ]
                writes = [
                    st
                    for st in walk_no_nested(fn)
                    if isinstance(st, ast.Assign) and any(isinstance(t, ast.Subscript) and dotted(t.value) == cname for t in st.targets)
                ]
                writes += [
                    x
                    for x in walk_no_nested(fn)
                    if isinstance(x, ast.Call) and isinstance(x.func, ast.Attribute) and x.func.attr == "setdefault" and dotted(x.func.value) == cname
                ]
                if not reads or not writes:
                    continue
                for w in writes:
                    n += 1
                    rg = {(ast.unparse(t), pol) for rd in reads for t, pol in guards.guards_of(rd)}
                    wg = {(ast.unparse(t), pol) for t, pol in guards.guards_of(w)}
                    missing = sorted(g for g in rg if g not in wg)
                    R.check(
                        not missing,
                        m,
                        w,
                        f"{q}: {cname} is written under the guard it is read under",
                        f"{q} looks {cname} up only when {[('' if p else 'not ') + t for t, p in missing]} but stores into "
                        f"it unconditionally: an object built with extra keyword arguments (e.g. annotations) is "
                        f"later returned for the plain request",
                    )
    R.need(n >= 1, "no guarded secondary cache found (anchor vanished)")


@rule(
    "C06.pyhash",
    props=("C06",),
    floor=3,
    family="DEP",
    desc="nothing that feeds the structural hash passes through Python's builtin hash() (not collision "
    "resistant: hash(-1) == hash(-2)), including the __hash__ of the annotation classes the package ships",
)
def c06_pyhash(R):
    tree = R.tree
    m = tree.mod(BASE)
    fn = tree.func(BASE, "Base._arg_serialize")
    for c in _calls(fn):
        if dotted(c.func) == "hash":
            held = [ast.unparse(t) for t, pol in guards.guards_of(c) if pol]
            R.bad(
                m,
                c,
                f"Base._arg_serialize serializes an argument through Python's hash() when {held}: two values whose "
                "hashes collide (hash(-1) == hash(-2); integers modulo 2**61-1; annotation bounds -1 and -2) "
                "serialize identically, so the two ASTs get one structural hash and the second request returns "
                "the first object",
                construct=f"{norm(c)} under {' and '.join(held)}",
            )
    if not any(dotted(c.func) == "hash" for c in _calls(fn)):
        R.ok(m, fn, "_arg_serialize does not use builtin hash()")
    # the argument classes of the op registry that are neither ASTs nor Python primitives (floating-point sorts,
    # rounding modes) are serialised by a branch of their own: the fallback hashes a str for them, which differs from
    # process to process, and the frontends pickle AST hashes
    from ..optable import Registry

    reg = Registry(tree)
    prim = {"int", "str", "float", "bool", "bytes", "object", "None", "type(None)"}
    ast_classes = {q for mm in tree.modules.values() if mm.path.startswith("claripy/ast/") for q in mm.classes}
    internal = set()
    for d in reg.ops_by_name().values():
        for dd in d if isinstance(d, list) else [d]:
            ts = dd.arg_types if isinstance(dd.arg_types, tuple) else (dd.arg_types,)
            for t in ts:
                for part in re.split(r"[|,\s()\[\]]+", t if isinstance(t, str) else ""):
                    name = part.split(".")[-1]
                    if name and name[0].isupper() and name not in ast_classes and name not in prim and name not in ("Base", "Bits", "ArgType", "Union", "Optional"):
                        internal.add(name)
    tested = set()
    for c in _calls(fn):
        if dotted(c.func) == "isinstance" and len(c.args) == 2:
            for x in ast.walk(c.args[1]):
                if isinstance(x, (ast.Name, ast.Attribute)):
                    tested.add((dotted(x) or "").split(".")[-1])
    R.need(internal, "no non-AST argument classes found in the op registry (FSort, RM expected)")
    for name in sorted(internal):
        R.check(
            name in tested,
            m,
            fn,
            f"{name} arguments are serialised by their fields",
            f"Base._arg_serialize has no branch for {name}, an argument class of the op registry: it falls through to hash(), i.e. "
            f"to the hash of a str, which depends on PYTHONHASHSEED - the frontends pickle AST hashes, and a SolverReplacement with "
            f"f -> 2.5 unpickled in a fresh process had lost the replacement",
            construct=f"_arg_serialize: no branch for {name}",
        )
    ma = tree.mod(ANN)
    for q, c in ma.classes.items():
        h = util.methods_of(c).get("__hash__")
        if h is None:
            continue
        uses = [x for x in _calls(h) if dotted(x.func) == "hash"]
        fields = [a for a, _ in util.attr_reads(h, "self")]
        R.check(
            not (uses and fields),
            ma,
            h,
            f"{q}.__hash__ does not fold its fields through builtin hash()",
            f"{q}.__hash__ is hash(...) over {fields}: distinct field values can collide (hash(-1) == hash(-2), "
            f"integers modulo 2**61-1), and this value is what keys the annotation in the AST's structural hash",
            construct=f"{q}.__hash__ uses builtin hash over {fields}",
        )


# ----------------------------------------------------------------------------- C07


@rule(
    "C07.route",
    props=("C07",),
    floor=1,
    family="PAIR",
    desc="every result of simplifications.simplify flows through operations._handle_annotations (or carries the "
    "simplifier's own `annotated` flag) before it is returned or used to build a node",
)
def c07_route(R):
    tree = R.tree
    n = 0
    for mm, q, fn in tree.all_functions():
        for st in walk_no_nested(fn):
            if not (isinstance(st, ast.Assign) and isinstance(st.value, (ast.Call, ast.IfExp))):
                continue
            calls = [c for c in ast.walk(st.value) if isinstance(c, ast.Call) and (dotted(c.func) or "").endswith("simplifications.simplify")]
            if not calls:
                continue
            n += 1
            tg = st.targets[0]
            names = [e.id for e in tg.elts if isinstance(e, ast.Name)] if isinstance(tg, ast.Tuple) else []
            if len(names) != 2:
                R.bad(mm, st, f"{q}: result of simplifications.simplify is not unpacked into (result, annotated)")
                continue
            simp, flag = names
            handled = [
                c
                for c in _calls(fn)
                if (dotted(c.func) or "").endswith("_handle_annotations") and c.args and ast.unparse(c.args[0]) == simp
            ]
            ok = False
            for h in handled:
                facts = [(ast.unparse(t), pol) for t, pol in guards.guards_of(h)]
                if (flag, False) in facts or (f"not {flag}", True) in facts:
                    ok = True
            R.check(
                ok,
                mm,
                st,
                f"{q}: simplified result goes through _handle_annotations unless the simplifier handled annotations",
                f"{q} uses the result of simplifications.simplify without _handle_annotations: a rewrite that drops "
                f"an argument also drops that argument's non-eliminatable and relocatable annotations",
                construct=util.anon(st, fn),
            )
    R.need(n >= 1, f"only {n} call sites of simplifications.simplify found")


@rule(
    "C07.fold",
    props=("C07", "C01"),
    floor=3,
    family="PAIR",
    desc="the eager concrete fold in Base.__new__ returns the folded value only via _handle_annotations(folded, "
    "args), falls through when that yields None, is skipped for leaf ops, and swallows only BackendError",
)
def c07_fold(R):
    tree = R.tree
    m = tree.mod(BASE)
    fn = _new(tree)
    fold = None
    for st in fn.body:
        if isinstance(st, ast.If) and "backends.concrete" in ast.unparse(st):
            fold = st
    R.need(fold is not None, "eager fold not found in Base.__new__")
    t = ast.unparse(fold.test)
    R.check(
        "not symbolic" in t and "op not in operations.leaf_operations" in t,
        m,
        fold,
        "folding only for non-symbolic, non-leaf nodes",
        f"eager fold is guarded by `{t}`",
    )
    w = [x for x in fold.body if isinstance(x, ast.With)]
    R.check(
        len(w) == 1 and ast.unparse(w[0].items[0].context_expr) == "suppress(BackendError)",
        m,
        fold,
        "only BackendError is swallowed around the fold",
        "the fold no longer runs under suppress(BackendError) exactly",
        construct="fold: suppress(BackendError)",
    )
    calls = [c for c in _calls(fold) if (dotted(c.func) or "").endswith("_handle_annotations")]
    R.check(
        len(calls) == 1 and "backends.concrete" in ast.unparse(calls[0].args[0]) and ast.unparse(calls[0].args[1]) == "args",
        m,
        fold,
        "folded value passes through _handle_annotations(folded, args)",
        "the folded value is returned without _handle_annotations(folded, args)",
        construct="fold: _handle_annotations",
    )
    rets = [r for r in ast.walk(fold) if isinstance(r, ast.Return)]
    for r in rets:
        facts = [(ast.unparse(t_), pol) for t_, pol in guards.guards_of(r)]
        R.check(
            ("r is not None", True) in facts and ast.unparse(r.value) == "r",
            m,
            r,
            "the fold returns only a non-None handled result",
            f"the fold returns `{norm(r.value)}` under {facts}",
        )
    cc = [c for c in _calls(fold) if (dotted(c.func) or "").endswith("concrete.call")]
    R.check(
        len(cc) == 1 and [ast.unparse(a) for a in cc[0].args] == ["op", "args"],
        m,
        fold,
        "the fold evaluates exactly (op, args)",
        "the fold does not evaluate concrete.call(op, args)",
        construct="fold: concrete.call(op, args)",
    )


@rule(
    "C07.if",
    props=("C07",),
    floor=8,
    family="PAIR",
    desc="every early return of If() that yields something other than a node built from all three arguments "
    "passes through _handle_annotations(result, args), so annotations of the discarded arguments are relocated "
    "or the shortcut is refused",
)
def c07_if(R):
    from .ast_tables import _canonical_if

    tree = R.tree
    m = tree.mod(BOOLAST)
    fn = _canonical_if(tree)  # locals named by role: args = [cond, then, else], ty = the node class
    n = 0
    for ret in (x for x in walk_no_nested(fn) if isinstance(x, ast.Return)):
        if ret.value is None:
            continue
        v = ret.value
        if isinstance(v, ast.Call) and dotted(v.func) == "ty":
            continue  # the node itself, built from all three arguments
        n += 1
        routed = isinstance(v, ast.Call) and (dotted(v.func) or "").endswith("_handle_annotations")
        if routed:
            R.ok(m, ret, "shortcut result passes through _handle_annotations")
            continue
        # which of the three arguments survive *whole* in the result (args[i] not narrowed to args[i].args[j])?
        whole = set()
        for x in ast.walk(v):
            if (
                isinstance(x, ast.Subscript)
                and isinstance(x.value, ast.Name)
                and x.value.id == "args"
                and isinstance(x.slice, ast.Constant)
                and not (isinstance(getattr(x, "_parent", None), ast.Attribute) and x._parent.attr == "args")
            ):
                whole.add(x.slice.value)
        # arguments known to be the bare literals true()/false() carry no annotations
        literal = set()
        held = [t for t, pol in guards.guards_of(ret) if pol]
        for t in held:
            if isinstance(t, ast.Compare) and isinstance(t.ops[0], ast.Is) and ast.unparse(t.comparators[0]) in ("true()", "false()"):
                lt = t.left
                if isinstance(lt, ast.Subscript) and isinstance(lt.value, ast.Name) and lt.value.id == "args" and isinstance(lt.slice, ast.Constant):
                    literal.add(lt.slice.value)
        dropped = sorted({0, 1, 2} - whole - literal)
        R.check(
            not dropped,
            m,
            ret,
            "shortcut keeps every argument whole (or drops only bare literals)",
            f"If() returns `{norm(v)}` under `{' and '.join(ast.unparse(t) for t in held)}` without _handle_annotations although argument(s) "
            f"{dropped} (or parts of them) do not survive in the result: their non-eliminatable annotations must "
            f"veto the rewrite and their relocatable ones must move to the result, but are silently lost",
        )
    R.need(n >= 8, f"only {n} early returns found in If()")


@rule(
    "C07.handle",
    props=("C07",),
    floor=4,
    family="DEP",
    desc="_handle_annotations returns the rewrite only when no argument's non-eliminatable annotation is missing "
    "from the result, and relocates every argument's relocatable annotation onto it",
)
def c07_handle(R):
    tree = R.tree
    m = tree.mod(OPS)
    fn, _ = util.canonicalise(
        tree.func(OPS, "_handle_annotations"),
        (
            "ast_args = tuple(a for a in args if isinstance(a, claripy.ast.Base))",
            "bad_eliminated = 0",
            "for aa in ast_args: ...",
            "for oa in aa._relocatable_annotations: ...",
            "na = oa.relocate(aa, simp)",
        ),
    )  # locals named by role
    txt = ast.unparse(fn)
    loop = [st for st in fn.body if isinstance(st, ast.For)]
    R.need(len(loop) == 1 and ast.unparse(loop[0].iter) == "ast_args", "_handle_annotations: loop over AST arguments not found")
    R.check(
        util.has_frag(fn, "(a for a in args if isinstance(a, claripy.ast.Base))", fn),
        m,
        fn,
        "every AST argument is considered",
        "_handle_annotations no longer iterates over every AST argument",
        construct="_handle_annotations ast_args",
    )
    aug = [st for st in ast.walk(loop[0]) if isinstance(st, ast.AugAssign) and ast.unparse(st.target) == "bad_eliminated"]
    R.check(
        len(aug) == 1 and ast.unparse(aug[0].value) == "len(aa._uneliminatable_annotations - simp._uneliminatable_annotations)"
        and aug[0]._parent is loop[0],
        m,
        loop[0],
        "for each argument: count its non-eliminatable annotations missing from the result",
        "the count of eliminated non-eliminatable annotations changed (or became conditional)",
    )
    rets = [r for r in walk_no_nested(fn) if isinstance(r, ast.Return)]
    ok = False
    for r in rets:
        if r.value is not None and ast.unparse(r.value) == "simp":
            facts = [(ast.unparse(t), pol) for t, pol in guards.guards_of(r)]
            ok = ("bad_eliminated == 0", True) in facts
    R.check(ok, m, fn, "the rewrite is returned only when nothing non-eliminatable was lost",
            "_handle_annotations returns the rewrite without `bad_eliminated == 0`", construct="_handle_annotations verdict")
    last = fn.body[-1]
    R.check(isinstance(last, ast.Return) and isinstance(last.value, ast.Constant) and last.value.value is None, m, fn,
            "otherwise the rewrite is refused (None)", "_handle_annotations no longer refuses with None",
            construct="_handle_annotations refusal")
    inner = [st for st in ast.walk(loop[0]) if isinstance(st, ast.For)]
    inner = [st for st in inner if st is not loop[0]]
    R.check(
        len(inner) == 1 and ast.unparse(inner[0].iter) == "aa._relocatable_annotations",
        m,
        loop[0],
        "every relocatable annotation of every argument is visited",
        "relocatable annotations of the arguments are no longer all visited",
    )
    app = [c for c in _calls(loop[0]) if isinstance(c.func, ast.Attribute) and c.func.attr == "append_annotation"]
    rel = [c for c in _calls(loop[0]) if isinstance(c.func, ast.Attribute) and c.func.attr == "relocate"]
    R.check(
        len(app) == 1 and len(rel) == 1 and [ast.unparse(a) for a in rel[0].args] == ["aa", "simp"],
        m,
        loop[0],
        "relocation: oa.relocate(arg, result) appended to the result",
        "relocatable annotations are no longer relocated onto the result",
    )


@rule(
    "C07.new",
    props=("C07",),
    floor=4,
    family="DEP",
    desc="unless skip_child_annotations, the annotations Base.__new__ hashes and stores include every child's "
    "relocatable annotations and its non-eliminatable set includes the children's; flattening is refused when a "
    "top-level argument carries a non-relocatable annotation",
)
def c07_new(R):
    tree = R.tree
    m = tree.mod(BASE)
    fn = _new(tree)
    # Dataflow, not text: which statements feed the children's summaries into the node's, over which collection, and
    # under which conditions.
    #  - the non-eliminatable summary says what must not be rewritten away *below* the node: it is inherited from every
    #    child unconditionally (also when the node is rebuilt by annotate() with skip_child_annotations, also when it is
    #    rebuilt by the unpickler);
    #  - the children's relocatable annotations become annotations of the node (and part of its hash) unless the caller
    #    says skip_child_annotations - under no other condition.
    def conds(st):
        """conditions of the compound statements around `st` inside the function (early returns further up do not
        count: they end the construction)"""
        return [re.sub(r"^not \((\w+)\)$", r"not \1", re.sub(r"\s+", " ", f)) for f in guards.holds(st, stop=fn)]

    def feeders(summary):
        out = []
        for st in walk_no_nested(fn):
            tgt = None
            if isinstance(st, ast.AugAssign) and isinstance(st.op, ast.BitOr) and isinstance(st.target, ast.Name):
                tgt, val = st.target.id, st.value
            elif isinstance(st, ast.Assign) and len(st.targets) == 1 and isinstance(st.targets[0], ast.Name):
                tgt, val = st.targets[0].id, st.value
            if tgt is None:
                continue
            srcs = [x for x in ast.walk(val) if isinstance(x, ast.Attribute) and x.attr == summary and isinstance(x.value, ast.Name)]
            if not srcs:
                continue
            # the variable ranges over b_args: an enclosing for, or a comprehension inside the value
            ranged = False
            for x in srcs:
                v = x.value.id
                par = getattr(st, "_parent", None)
                while par is not None and par is not fn:
                    if isinstance(par, ast.For) and any(isinstance(t, ast.Name) and t.id == v for t in ast.walk(par.target)) and ast.unparse(par.iter) == "b_args":
                        ranged = True
                    par = getattr(par, "_parent", None)
                for c in ast.walk(val):
                    if isinstance(c, ast.comprehension) and any(isinstance(t, ast.Name) and t.id == v for t in ast.walk(c.target)) and ast.unparse(c.iter) == "b_args" and not c.ifs:
                        ranged = True
            out.append((st, tgt, ranged, conds(st)))
        return out

    une = [f for f in feeders("_uneliminatable_annotations") if f[1] == "uneliminatable_annotations"]
    R.need(len(une) >= 1, "Base.__new__: no statement feeds the children's _uneliminatable_annotations into the node's")
    for st, tgt, ranged, facts in une:
        R.check(
            ranged and not facts,
            m,
            st,
            "children's non-eliminatable sets are inherited from every child, unconditionally",
            f"Base.__new__ inherits the children's non-eliminatable annotations "
            + ("not over b_args" if not ranged else f"only under {facts}")
            + ": the summary says what no rewrite may remove below this node, whichever way the node was built - after "
            "ya = (x<NonElim> + 1).annotate(Plain()) (rebuilt with skip_child_annotations) ya ^ ya folded to 0, and a node "
            "rebuilt by the unpickler must not lose it either",
            construct="Base.__new__: inheritance of _uneliminatable_annotations" + (f" under [{'; '.join(facts)}]" if facts else ""),
        )
    rel = [f for f in feeders("_relocatable_annotations") if f[1] == "relocatable_annotations"]
    R.need(len(rel) >= 1, "Base.__new__: no statement feeds the children's _relocatable_annotations into the node's")
    for st, tgt, ranged, facts in rel:
        R.check(
            ranged and facts in ([], ["not skip_child_annotations"]),
            m,
            st,
            "children's relocatable sets are inherited unless skip_child_annotations",
            f"Base.__new__ inherits the children's relocatable annotations "
            + ("not over b_args" if not ranged else f"only under {facts}")
            + " - the only sanctioned exception is skip_child_annotations",
            construct="Base.__new__: inheritance of _relocatable_annotations" + (f" under [{'; '.join(facts)}]" if facts else ""),
        )
    merged = [
        st
        for st in walk_no_nested(fn)
        if isinstance(st, ast.Assign)
        and len(st.targets) == 1
        and ast.unparse(st.targets[0]) == "annotations"
        and any(isinstance(x, ast.Name) and x.id == "relocatable_annotations" for x in ast.walk(st.value))
        and any(isinstance(x, ast.Name) and x.id == "annotations" for x in ast.walk(st.value))
    ]
    R.check(
        len(merged) == 1 and conds(merged[0]) in ([], ["not skip_child_annotations"]),
        m,
        merged[0] if merged else fn,
        "relocatable annotations of children become annotations of the node (and so part of its hash)",
        "the node's annotations no longer include its children's relocatable annotations (or only under a further condition)",
        construct="Base.__new__: annotations completed with the children's relocatable ones",
    )
    # this happens before hashing
    hashes = [st for st in walk_no_nested(fn) if isinstance(st, ast.Assign) and "_calc_hash" in ast.unparse(st.value)]
    R.need(len(hashes) >= 1 and merged, "Base.__new__: hash computation not found")
    R.check(
        all(getattr(merged[0], "lineno", 0) < getattr(h, "lineno", 0) for h in hashes),
        m,
        merged[0],
        "annotations are completed before the hash is computed",
        "the hash is computed before child annotations are merged",
    )
    # the fast path of make_like builds a node without going through __new__: same obligation
    ml = util.resolve_locals(tree.func(BASE, "Base.make_like"))
    for c in walk_no_nested(ml):
        if isinstance(c, ast.Call) and isinstance(c.func, ast.Attribute) and c.func.attr == "__a_init__":
            v = next((k.value for k in c.keywords if k.arg == "uneliminatable_annotations"), None)
            R.check(
                v is not None and any(isinstance(x, ast.Attribute) and x.attr == "_uneliminatable_annotations" for x in ast.walk(v)),
                m,
                c,
                "make_like's fast path inherits the arguments' non-eliminatable sets",
                f"Base.make_like initialises a node directly with uneliminatable_annotations=`{norm(v)[:80] if v is not None else None}`, which "
                f"does not include the arguments' _uneliminatable_annotations: annotate() on an inner node goes through this path and "
                f"the protection of everything below the node is lost",
                construct="Base.make_like fast path: uneliminatable_annotations",
            )
    # classification of own annotations
    for nm, frag in (("uneliminatable_annotations", "not (a.eliminatable or a.relocatable)"), ("relocatable_annotations", "not a.eliminatable and a.relocatable")):
        ds = [st for st in fn.body if isinstance(st, ast.Assign) and ast.unparse(st.targets[0]) == nm]
        # the first assignment classifies the node's own annotations; later ones may only add to the set
        R.check(
            len(ds) >= 1 and frag in ast.unparse(ds[0].value) and all(any(isinstance(x, ast.Name) and x.id == nm for x in ast.walk(d.value)) for d in ds[1:]),
            m,
            fn,
            f"{nm} = annotations that are {frag}",
            f"classification of {nm} changed",
            construct=f"Base.__new__: {nm}",
        )
    fl = tree.func(SIMP, "_flatten_simplifier")
    first = fl.body[0]
    R.check(
        isinstance(first, ast.If) and util.alpha_eq(first.test, "any((not anno.relocatable for anno in itertools.chain.from_iterable((arg.annotations for arg in args))))", fl)
        and isinstance(first.body[0], ast.Return) and isinstance(first.body[0].value, ast.Constant) and first.body[0].value.value is None,
        tree.mod(SIMP),
        fl,
        "_flatten_simplifier refuses when a top-level argument has a non-relocatable annotation",
        "_flatten_simplifier no longer starts by refusing arguments with non-relocatable annotations",
        construct="_flatten_simplifier refusal",
    )


@rule(
    "C07.resimp",
    props=("C07",),
    floor=2,
    family="DEP",
    desc="explicit simplification re-attaches the annotations of the top node and the relocatable annotations of "
    "its direct arguments when the simplified expression carries different ones",
)
def c07_resimp(R):
    tree = R.tree
    path = "claripy/algorithm/simplify.py"
    m = tree.mod(path)
    fn = tree.func_inlined(path, "simplify")
    blk = [st for st in fn.body if isinstance(st, ast.If) and ast.unparse(st.test) == "expr.annotations"]
    R.need(len(blk) == 1, "simplify: annotation re-attachment block not found")
    Fr = util.Frags(fn)
    # the block itself, or the private helper it hands the work to
    scope = util.reach(blk[0], util.helper_resolver(tree, m))
    R.check(
        any(
            Fr.has(
                "ast_args = tuple(a for a in expr.args if isinstance(a, Base))\n"
                "annotations = tuple(set(chain(chain.from_iterable(a._relocatable_annotations for a in ast_args), tuple(a for a in expr.annotations))))",
                sc,
            )
            for sc in scope
        ),
        m,
        blk[0],
        "annotations to keep = the node's own + direct arguments' relocatable ones",
        "the set of annotations re-attached after simplification changed",
    )
    keep = Fr.code("annotations")
    reattached = any(
        isinstance(c, ast.Call) and isinstance(c.func, ast.Attribute) and c.func.attr == "annotate" and len(c.args) == 1 and isinstance(c.args[0], ast.Starred) and ast.unparse(c.args[0].value) == keep
        for sc in scope
        for c in ast.walk(sc)
    )
    compared = any(
        isinstance(c, ast.Compare) and len(c.ops) == 1 and isinstance(c.ops[0], (ast.Eq, ast.NotEq)) and ast.unparse(c.left) == keep and ast.unparse(c.comparators[0]).endswith(".annotations")
        for sc in scope
        for c in ast.walk(sc)
    )
    R.check(
        reattached and compared,
        m,
        blk[0],
        "they are re-attached when the simplified expression differs",
        "annotations are no longer re-attached to the simplified expression",
    )


# ----------------------------------------------------------------------------- C08


@rule(
    "C08.exact",
    props=("C08",),
    floor=2,
    family="WHO",
    desc="exact predicates are not decided by an over-approximating domain: identical() of the AST classes does "
    "not consult the VSA backend (two different expressions that both abstract to TOP are not identical)",
)
def c08_exact(R):
    tree = R.tree
    n = 0
    for mm, q, fn in tree.all_functions():
        if not mm.path.startswith("claripy/ast/") or not q.endswith(".identical"):
            continue
        n += 1
        bad = [
            c
            for c in _calls(fn)
            if any(k in (dotted(c.func) or "") for k in ("backends.vsa", "any_backend"))
        ]
        R.check(
            not bad,
            mm,
            fn,
            f"{q} decides identity structurally",
            f"{q} answers through `{norm(bad[0]) if bad else ''}`: the VSA domain over-approximates, so x+1 and x+2 "
            f"(both TOP) are reported identical",
            construct=f"{q} consults an approximating backend",
        )
    R.need(n >= 2, "identical() implementations not found")


@rule(
    "C08.ite",
    props=("C08", "C24"),
    floor=7,
    family="TAB",
    desc="switch encodings: ite_cases folds right-to-left with the accumulator in the else slot; ite_dict "
    "partitions with the same comparison it puts in the If (low keys -> then); reverse_ite_cases pairs cond->then, "
    "Not(cond)->else; _excavate_ite pairs `is cond`->(then, else) and `is ~cond`->(else, then)",
)
def c08_ite(R):
    tree = R.tree
    m = tree.mod(BOOLAST)
    ic = tree.func(BOOLAST, "ite_cases")
    loops = [st for st in ic.body if isinstance(st, ast.For)]
    R.need(len(loops) == 1 and isinstance(loops[0].target, ast.Tuple) and len(loops[0].target.elts) == 2, "ite_cases: loop over (condition, value) pairs not found")
    loop = loops[0]
    b = {}  # local-name bindings shared by the fragments below (code name -> reference name)
    R.need(util.alpha_eq(loop.target, "(c, v)", ic, b), "ite_cases: loop target is not a (condition, value) pair")
    R.check(
        util.has_frag(loop.iter, "reversed(list(cases))", ic) or util.has_frag(loop.iter, "reversed(cases)", ic),
        m,
        loop,
        "ite_cases walks the cases from last to first",
        "ite_cases no longer walks the cases in reverse (the first matching case must win)",
        construct="ite_cases iteration order",
    )
    built = [st for st in ast.walk(loop) if isinstance(st, ast.Assign) and isinstance(st.value, ast.Call) and (dotted(st.value.func) or "").split(".")[-1] == "If"]
    R.check(
        len(built) == 1 and util.alpha_eq(built[0], "sofar = If(c, v, sofar)", ic, b),
        m,
        loop,
        "ite_cases: acc = If(cond, value, acc)",
        f"ite_cases builds `{norm(built[0]) if built else None}`; it has to put the case's value in the then-branch and everything accumulated so far in the else-branch",
        construct="ite_cases fold step",
    )
    inv = {v: k for k, v in b.items()}
    acc, cnd, val = inv.get("sofar"), inv.get("c"), inv.get("v")
    # a case may be dropped only when its value equals what the expression would yield without it, i.e. the
    # accumulated else-branch (not the default: an earlier case with the default's value still shadows later ones)
    def equality_helper(call):
        """a module-level helper f(a, b) whose every answer is an equality / identity of the same function of a and of b
        (a == b under is_true, a is b, repr(a) == repr(b)): it says 'the same value' at least as strictly as == does"""
        if not (isinstance(call, ast.Call) and isinstance(call.func, ast.Name) and call.func.id in m.functions and len(call.args) == 2):
            return False
        h = m.functions[call.func.id]
        hp = [a.arg for a in h.args.args]
        if len(hp) != 2:
            return False
        rets = [r.value for r in walk_no_nested(h) if isinstance(r, ast.Return) and r.value is not None]
        for rv_ in rets:
            inner_ = rv_.args[0] if isinstance(rv_, ast.Call) and (dotted(rv_.func) or "").split(".")[-1] == "is_true" and rv_.args else rv_
            if not (isinstance(inner_, ast.Compare) and len(inner_.ops) == 1 and isinstance(inner_.ops[0], (ast.Eq, ast.Is))):
                return False
            l_, r_ = ast.unparse(inner_.left), ast.unparse(inner_.comparators[0])
            if re.sub(rf"\b{hp[0]}\b", "_", l_) != re.sub(rf"\b{hp[1]}\b", "_", r_):
                return False
        # ... and it does not leave floating-point values to ==, under which -0.0 and +0.0 are one value
        strict = [rv_ for rv_ in rets if isinstance(rv_, ast.Compare) and (isinstance(rv_.ops[0], ast.Is) or "repr(" in ast.unparse(rv_))]
        return bool(rets) and bool(strict)

    for st in (x for x in ast.walk(loop) if isinstance(x, (ast.Continue, ast.Break))):
        facts = [(t, pol) for t, pol in guards.guards_of(st, stop=loop)]
        ok = False
        eq_only = False
        for t, pol in facts:
            if pol and equality_helper(t) and acc is not None and {ast.unparse(a_) for a_ in t.args} == {val, acc}:
                ok = True
            inner = t.args[0] if isinstance(t, ast.Call) and (dotted(t.func) or "").split(".")[-1] == "is_true" and t.args else t
            if pol and isinstance(inner, ast.Compare) and len(inner.ops) == 1 and isinstance(inner.ops[0], ast.Is):
                sides = {ast.unparse(inner.left), ast.unparse(inner.comparators[0])}
                if acc is not None and sides == {val, acc}:
                    ok = True
            if pol and isinstance(inner, ast.Compare) and len(inner.ops) == 1 and isinstance(inner.ops[0], ast.Eq) and acc is not None and {ast.unparse(inner.left), ast.unparse(inner.comparators[0])} == {val, acc}:
                eq_only = True
            # the other sound idiom: the case can never apply
            if pol and isinstance(t, ast.Call) and (dotted(t.func) or "").split(".")[-1] == "is_false" and t.args and ast.unparse(t.args[0]) == cnd:
                ok = True
        R.check(
            ok and isinstance(st, ast.Continue),
            m,
            st,
            "ite_cases skips a case only when its value equals the accumulated else-branch",
            f"ite_cases drops a case under {[('' if p else 'not ') + ast.unparse(t) for t, p in facts]}: "
            + (
                "the values are compared with ==, which is IEEE equality for floating-point values - -0.0 == +0.0, and "
                "ite_cases([(c, -0.0)], +0.0) returned the constant +0.0"
                if eq_only
                else "only a value equal to the accumulated else-branch can be skipped; skipping on any other test lets a later "
                "overlapping case answer where an earlier one should"
            ),
            construct="ite_cases skip condition",
        )
    # the same shape with the skip folded into the condition: `if not is_true(v == acc): acc = If(...)`
    if built and not any(isinstance(x, (ast.Continue, ast.Break)) for x in ast.walk(loop)):
        for t, pol in guards.guards_of(built[0], stop=loop):
            inner = t.args[0] if isinstance(t, ast.Call) and (dotted(t.func) or "").split(".")[-1] == "is_true" and t.args else t
            good = not pol and isinstance(inner, ast.Compare) and len(inner.ops) == 1 and isinstance(inner.ops[0], ast.Is) and {ast.unparse(inner.left), ast.unparse(inner.comparators[0])} == {val, acc}
            good = good or (not pol and isinstance(t, ast.Call) and (dotted(t.func) or "").split(".")[-1] == "is_false" and t.args and ast.unparse(t.args[0]) == cnd)
            good = good or (not pol and equality_helper(t) and acc is not None and {ast.unparse(a_) for a_ in t.args} == {val, acc})
            R.check(
                bool(good),
                m,
                built[0],
                "ite_cases keeps every case except those equal to the accumulated else-branch",
                f"ite_cases adds a case only under `{('' if pol else 'not ') + ast.unparse(t)}`: only a value equal to the accumulated else-branch can be skipped",
                construct="ite_cases skip condition",
            )
    init = [st for st in ic.body if isinstance(st, ast.Assign) and isinstance(st.targets[0], ast.Name) and st.targets[0].id == acc]
    R.check(bool(init) and ast.unparse(init[0].value) == "default", m, ic, "ite_cases starts from the default", "ite_cases no longer starts from `default`",
            construct="ite_cases default")
    rets = [r for r in walk_no_nested(ic) if isinstance(r, ast.Return)]
    R.check(len(rets) == 1 and ast.unparse(rets[0].value) == acc, m, ic, "ite_cases returns the accumulated expression", "ite_cases no longer returns the accumulated expression", construct="ite_cases result")
    idf = tree.func(BOOLAST, "ite_dict")
    bd = {}
    # the keys may be compared through a local ordering function (the value a key stands for at the width of `i`): then
    # on both sides of both partition tests, and as the sort key
    order_fns = [n.name for n in idf.body if isinstance(n, ast.FunctionDef)]
    frags = [
        "dictLow = {c: v for c, v in d.items() if c <= split_val}\n"
        "dictHigh = {c: v for c, v in d.items() if c > split_val}\n"
        "valLow = ite_dict(i, dictLow, default)\n"
        "valHigh = ite_dict(i, dictHigh, default)\n"
        "return If(i <= split_val, valLow, valHigh)"
    ] + [
        f"dictLow = {{c: v for c, v in d.items() if {f}(c) <= {f}(split_val)}}\n"
        f"dictHigh = {{c: v for c, v in d.items() if {f}(c) > {f}(split_val)}}\n"
        "valLow = ite_dict(i, dictLow, default)\n"
        "valHigh = ite_dict(i, dictHigh, default)\n"
        "return If(i <= split_val, valLow, valHigh)"
        for f in order_fns
    ]
    R.check(
        # one fragment: it is normalised like the code (temporaries that are used once, right away, are read in place)
        any(util.has_frag(idf, fr, idf, bd) for fr in frags),
        m,
        idf,
        "ite_dict: keys <= pivot go to the then-branch of `i <= pivot`",
        "ite_dict partitions the keys with a different comparison than the If it builds",
        construct="ite_dict partition",
    )
    # (by use, not by the names of locals: the function called in the partition tests of the two dictionary comprehensions)
    used = [
        f
        for f in order_fns
        if any(isinstance(c_, ast.comprehension) and any(isinstance(k_, ast.Call) and isinstance(k_.func, ast.Name) and k_.func.id == f for i_ in c_.ifs for k_ in ast.walk(i_)) for c_ in ast.walk(idf))
    ]
    if used:
        f = used[0]
        sorts = [c for c in _calls(idf) if (dotted(c.func) or "") in ("sorted",) or (isinstance(c.func, ast.Attribute) and c.func.attr == "sort")]
        keyed = [c for c in sorts if any(k.arg == "key" and ast.unparse(k.value) == f for k in c.keywords)]
        fdef = next(n for n in idf.body if isinstance(n, ast.FunctionDef) and n.name == f)
        # the ordering function reduces an integer key modulo 2**width of the selector - the order `i <= key` compares in
        reduces = any(isinstance(x, ast.BinOp) and isinstance(x.op, (ast.Mod, ast.BitAnd)) and ("length" in ast.unparse(x.right) or "size" in ast.unparse(x.right) or "len(" in ast.unparse(x.right)) for x in ast.walk(fdef))
        R.check(
            bool(keyed) and reduces,
            m,
            idf,
            "ite_dict takes the median in the order the emitted comparison uses (keys modulo 2**width)",
            "ite_dict orders its keys with a function that is not the sort key of the median, or that does not reduce a key modulo "
            "the selector's width: `i <= key` compares unsigned modulo 2**n, and ite_dict(i4, {-2: 1, -1: 2, 0: 3, 1: 4}, 9) gave 9 at i = 0",
            construct="ite_dict key order",
        )
    else:
        R.bad(
            m,
            idf,
            "ite_dict partitions integer keys in Python's order while `i <= key` compares unsigned modulo 2**n: a key written as a "
            "negative number (or as 2**n and beyond) lands on the wrong side - ite_dict(i4, {-2: 1, -1: 2, 0: 3, 1: 4}, 9) gave 9 at i = 0",
            construct="ite_dict key order",
        )
    R.check(util.has_frag(idf, "ite_cases([(i == c, v) for c, v in d.items()], default)", idf), m, idf, "ite_dict small case: equality per key",
            "ite_dict small-table fallback changed", construct="ite_dict linear fallback")
    rv = tree.func(BOOLAST, "reverse_ite_cases")
    apps = [c for c in _calls(rv) if isinstance(c.func, ast.Attribute) and c.func.attr == "append" and c.args and "And(" in ast.unparse(c)]
    br = {}
    ok_then = any(util.alpha_eq(c.args[0], "(And(condition, ast.args[0]), ast.args[1])", rv, br) for c in apps)
    ok_else = any(util.alpha_eq(c.args[0], "(And(condition, Not(ast.args[0])), ast.args[2])", rv, br) for c in apps)
    R.check(
        len(apps) == 2 and ok_then and ok_else,
        m,
        rv,
        "reverse_ite_cases: cond -> then branch, Not(cond) -> else branch",
        f"reverse_ite_cases pairs {sorted(ast.unparse(c.args[0]) for c in apps)}",
        construct="reverse_ite_cases pairing",
    )
    mi = tree.mod(ITE)
    ex = tree.func(ITE, "_excavate_ite")
    be = {}
    arms = {}
    for st in ast.walk(ex):
        if isinstance(st, ast.If) and isinstance(st.test, ast.Compare) and len(st.test.ops) == 1 and isinstance(st.test.ops[0], ast.Is):
            for rel, pat in (("cond", "a.args[0] is cond"), ("~cond", "a.args[0] is ~cond")):
                if util.alpha_eq(st.test, pat, ex, be):
                    arms[rel] = st
    R.need(set(arms) >= {"cond", "~cond"}, "_excavate_ite: condition-matching arms not found")
    want = {
        "cond": ("new_true_args.append(a.args[1])", "new_false_args.append(a.args[2])"),
        "~cond": ("new_true_args.append(a.args[2])", "new_false_args.append(a.args[1])"),
    }
    for rel, st in arms.items():
        body = ast.Module(body=st.body, type_ignores=[])
        R.check(
            all(util.has_frag(body, frag, ex, be) for frag in want[rel]),
            mi,
            st,
            f"_excavate_ite: inner condition `is {rel}` -> {want[rel]}",
            f"_excavate_ite: for an inner If whose condition is {rel} the branches are distributed as `{norm(st)[:160]}`",
            construct=f"_excavate_ite arm {rel}",
        )
    inv_e = {v: k for k, v in be.items()}
    built = [c for c in _calls(ex) if dotted(c.func) == "claripy.If" and len(c.args) == 3 and ast.unparse(c.args[0]) == inv_e.get("cond")]
    R.check(
        len(built) == 1
        and inv_e.get("new_true_args") in {x.id for x in ast.walk(built[0].args[1]) if isinstance(x, ast.Name)}
        and inv_e.get("new_false_args") in {x.id for x in ast.walk(built[0].args[2]) if isinstance(x, ast.Name)},
        mi,
        ex,
        "_excavate_ite: If(cond, op(true args), op(false args))",
        "_excavate_ite no longer builds If(cond, <true variant>, <false variant>)",
        construct="_excavate_ite result",
    )


@rule(
    "C08.unique",
    props=("C08",),
    floor=1,
    family="GRD",
    desc="a `.index(v)` used to pick 'the' element with property v is dominated by a guard establishing that "
    "exactly one element has it (count(v) == 1)",
)
def c08_unique(R):
    tree = R.tree
    n = 0
    for path in (ITE, "claripy/backends/backend_vsa/balancer.py"):
        m = tree.mod(path)
        for q, fn in m.functions.items():
            for c in (x for x in walk_no_nested(fn) if isinstance(x, ast.Call)):
                if not (isinstance(c.func, ast.Attribute) and c.func.attr == "index" and len(c.args) == 1 and isinstance(c.args[0], ast.Constant)):
                    continue
                lst = ast.unparse(c.func.value)
                v = c.args[0].value
                n += 1
                facts = []
                for t, pol in guards.guards_of(c):
                    facts.append((ast.unparse(t), pol))
                uniq = any(
                    (t == f"{lst}.count({v!r}) == 1" and pol) or (t == f"{lst}.count({v!r}) != 1" and not pol) for t, pol in facts
                )
                exists_only = any(f"{lst}.count({v!r})" in t or f"{v!r} in {lst}" in t for t, pol in facts)
                picks_one_of_many = q.endswith("_excavate_ite")  # `args[ite_args.index(True)]`: any element with the property serves
                if picks_one_of_many:
                    R.ok(m, c, f"{q}: first element with the property is as good as any", nontrivial=False)
                    continue
                R.check(
                    uniq,
                    m,
                    c,
                    f"{q}: `{lst}.index({v!r})` after establishing a single such element",
                    f"{q} picks `{lst}.index({v!r})` as *the* differing element, but the dominating guards "
                    f"({[('' if p else 'not ') + t for t, p in facts if lst in t]}) establish uniqueness of "
                    f"{'the other value' if exists_only or True else 'nothing'}, not of {v!r}: with more than one "
                    f"such element the others are silently dropped",
                )
    R.need(n >= 1, "no `.index(<constant>)` selection found (anchor vanished)")


@rule(
    "C08.repl",
    props=("C08", "C05"),
    floor=4,
    family="GRD",
    desc="replace() type-checks the pair before substituting; replace_dict rebuilds a parent exactly when a child "
    "changed, through make_like on the parent's own op, and memoises it under the parent's hash",
)
def c08_repl(R):
    tree = R.tree
    m = tree.mod(REPL)
    rp = tree.func(REPL, "replace")
    first = [st for st in rp.body if not (isinstance(st, ast.Expr) and isinstance(st.value, ast.Constant))][0]
    R.check(
        isinstance(first, ast.Expr) and ast.unparse(first.value) == "_check_replaceability(old, new)",
        m,
        rp,
        "replace() checks replaceability first",
        "replace() no longer starts with _check_replaceability(old, new)",
        construct="replace: _check_replaceability",
    )
    txt = ast.unparse(rp)
    R.check("{old.hash(): new}" in txt and "variable_set=old.variables" in txt, m, rp, "replace(): {old -> new}, pruned by old's variables",
            "replace() no longer substitutes exactly {old.hash(): new}", construct="replace mapping")
    rd = tree.func(REPL, "replace_dict")
    Fd = util.Frags(rd)
    # the locals are fixed by their roles: the node being rebuilt, its new arguments, the result
    Fd.has("ast = ast_queue.pop()")
    Fd.has("args = rep_queue[-len(ast.args):]")
    rebuild = [
        st
        for st in ast.walk(rd)
        if isinstance(st, ast.If) and util.alpha_eq(st.test, "any((a is not b for a, b in zip(ast.args, args, strict=False)))", rd, dict(Fd.b))
    ]
    R.need(len(rebuild) == 1, "replace_dict: rebuild condition (some new argument is not the old one) not found")
    R.check(
        Fd.has("repl = ast.make_like(ast.op, tuple(args))", rebuild[0]) and Fd.has("replacements[ast.hash()] = repl", rebuild[0]),
        m,
        rebuild[0],
        "a parent whose child changed is rebuilt with its own op and memoised under its own hash",
        "replace_dict no longer rebuilds with <node>.make_like(<node>.op, tuple(<new args>)) / memoises under <node>.hash()",
        construct="replace_dict rebuild",
    )
    Fl = util.Frags(rd)
    Fl.has("ast = next(arg_queue[-1])")
    R.check(
        any(
            isinstance(st, ast.If)
            and util.alpha_eq(st.test, "ast.hash() in replacements", rd, dict(Fl.b))
            and util.alpha_eq(st.body[0], "repl = replacements[ast.hash()]", rd, dict(Fl.b))
            for st in ast.walk(rd)
        ),
        m,
        rd,
        "a node is replaced by the entry under its own hash",
        "replace_dict's lookup changed",
        construct="replace_dict lookup",
    )
    cr = tree.func(REPL, "_check_replaceability")
    R.check("type(old) is not type(new)" in ast.unparse(cr), m, cr, "replacements must have the replaced node's type",
            "_check_replaceability no longer compares the two types")


@rule(
    "C05.leafmeta",
    props=("C05",),
    floor=2,
    family="GRD",
    desc="outside its fast path, make_like hands a node's variables / symbolic flag over from another node X only under "
    "the fact that the op the node is rebuilt as is X's own op: the metadata of a leaf symbol belongs to that leaf, not "
    "to whatever receiver the rebuild started from",
)
def c05_leafmeta(R):
    tree = R.tree
    m = tree.mod(BASE)
    ml = util.resolve_locals(_make_like(tree))
    ps = positional_params(ml)
    op = ps[1] if len(ps) > 1 else "op"
    n = 0
    for st in walk_no_nested(ml):
        if not (isinstance(st, ast.Assign) and len(st.targets) == 1 and isinstance(st.targets[0], ast.Name) and st.targets[0].id in ("variables", "symbolic")):
            continue
        v = st.value
        if not (isinstance(v, ast.Attribute) and v.attr == st.targets[0].id):
            continue
        n += 1
        src = ast.unparse(v.value)
        facts = [re.sub(r"\s+", " ", f) for f in guards.holds(st, stop=ml)]
        ok = any(f in (f"{src}.op == {op}", f"{op} == {src}.op", f"({src}).op == {op}", f"{op} == ({src}).op") for f in facts)
        R.check(
            ok,
            m,
            st,
            f"{st.targets[0].id} taken from a node only when the rebuilt op is that node's own",
            f"Base.make_like sets {st.targets[0].id} = `{norm(v)[:70]}` under {facts[-2:]} with no fact that `{op}` is the op of that "
            f"node: (Concat(z, 0) | Concat(w, y))[7:0] rebuilds 0 | y from the receiver 0, the simplifier turns it into the symbol "
            f"y, and the node got the receiver's empty variable set - a BVS reported concrete",
            construct=f"make_like: {st.targets[0].id} handed over from {norm(v.value)[:40]}",
        )
    R.need(n >= 2, f"make_like: only {n} metadata hand-overs found")


@rule(
    "C05.replwidth",
    props=("C05", "C08"),
    floor=1,
    family="GRD",
    desc="replace_dict substitutes a node from the replacement table only after comparing the two widths (and raising on "
    "a mismatch): the nodes above are rebuilt with the width they had",
)
def c05_replwidth(R):
    tree = R.tree
    path = "claripy/algorithm/replace.py"
    m = tree.mod(path)
    fn = tree.func_inlined(path, "replace_dict")
    ps = positional_params(fn)
    table = ps[1] if len(ps) > 1 else "replacements"
    n = 0
    for st in walk_no_nested(fn):
        if not (isinstance(st, ast.Assign) and len(st.targets) == 1 and isinstance(st.targets[0], ast.Name) and isinstance(st.value, ast.Subscript) and ast.unparse(st.value.value) == table):
            continue
        n += 1
        new = st.targets[0].id
        key = st.value.slice
        olds = {x.id for x in ast.walk(key) if isinstance(x, ast.Name)}
        checked = False
        for c in walk_no_nested(fn):
            if isinstance(c, ast.Compare) and len(c.ops) == 1 and isinstance(c.ops[0], (ast.NotEq, ast.Eq)):
                a, b = c.left, c.comparators[0]
                widths = [x for x in (a, b) if (isinstance(x, ast.Attribute) and x.attr == "length") or (isinstance(x, ast.Call) and ast.unparse(x.func).split(".")[-1] in ("size", "len"))]
                names = {y.id for x in widths for y in ast.walk(x) if isinstance(y, ast.Name)}
                if len(widths) == 2 and new in names and names & olds:
                    # ... and the mismatch raises
                    par = getattr(c, "_parent", None)
                    while par is not None and not isinstance(par, ast.If):
                        par = getattr(par, "_parent", None)
                    if par is not None and any(isinstance(x, ast.Raise) for x in ast.walk(par)):
                        checked = True
        R.check(
            checked,
            m,
            st,
            "a substituted node has the width of the node it replaces",
            f"replace_dict substitutes `{new} = {ast.unparse(st.value)}` without comparing its width with the replaced node's: the "
            f"parents are rebuilt with their old width, claripy.replace(Concat(x8, y8), x8, z16) reported 16 bits for a value of 24",
            construct="replace_dict: width of a substituted node",
        )
    R.need(n >= 1, "replace_dict no longer reads the replacement table")
