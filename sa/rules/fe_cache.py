"""Cache discipline of the solver frontends (C11, shared with C12/C13/C16/C17)."""

from __future__ import annotations

import ast
import copy

from .. import guards, util
from ..core import FuncTypes, always_leaves, dotted, norm, walk_no_nested
from ..report import rule
from .fe_state import frontend_classes

QUERY = {
    "satisfiable",
    "check_satisfiability",
    "eval",
    "batch_eval",
    "min",
    "max",
    "solution",
    "is_true",
    "is_false",
    "unsat_core",
    "eval_to_ast",
}
PLUMBING = {"__init__", "_blank_copy", "_copy", "__getstate__", "__setstate__"}


def has_param(fn, name):
    a = fn.args
    return any(x.arg == name for x in a.posonlyargs + a.args + a.kwonlyargs)


def _mentions_cache_field(expr):
    return any(
        isinstance(x, ast.Attribute) and isinstance(x.value, ast.Name) and x.value.id == "self" and _is_cache_field(x.attr)
        for x in ast.walk(expr)
    )


def fe_methods(tree):
    """Methods of the frontend classes; locals that merely name a cache field (or a selection between cache
    fields) are inlined so that the cache rules see through `exhausted = self._a if signed else self._b`."""
    for m, c in frontend_classes(tree):
        for name, fn in util.methods_of(c).items():
            yield m, c, name, util.inline_aliases(fn, _mentions_cache_field)


def _no_extra(node):
    return guards.dominated_by_empty(node, {"extra_constraints"})


def _is_cache_field(name):
    return name.endswith("_exhausted") or name.startswith("_cached_")


def _const_val(node):
    if isinstance(node, ast.Constant):
        return node.value
    return Ellipsis


# ----------------------------------------------------------------------------- C11.extra


@rule(
    "C11.extra",
    props=("C11", "C12"),
    floor=12,
    family="GRD",
    desc="facts about the base constraint set (negative sat cache, exhausted marks, constraint expansion) are "
    "recorded, and min/max-exhausted marks consulted, only when there are no extra constraints; "
    "exhaustion uses the strict test len(results) < n",
)
def c11_extra(R):
    tree = R.tree
    for m, c, name, fn in fe_methods(tree):
        if not has_param(fn, "extra_constraints"):
            continue
        # writes to cache fields
        for a, kind, node, val in util.attr_writes(fn, "self"):
            if not _is_cache_field(a):
                continue
            if a == "_cached_satness" and kind == "assign" and _const_val(val) is True:
                continue  # positive cache: satisfiable with extras implies satisfiable without (C11.satevidence)
            R.check(
                _no_extra(node),
                m,
                node,
                f"{c.name}.{name}: write to {a} only without extra constraints",
                f"{c.name}.{name} records a fact about the base constraints in {a} although extra constraints "
                f"may be present (guards: {guards.facts_text(node) or 'none'})",
            )
        # subscript writes through a conditional selection  (X if signed else Y)[k] = v
        for n in walk_no_nested(fn):
            if isinstance(n, ast.Assign) and isinstance(n.targets[0], ast.Subscript):
                base = n.targets[0].value
                if isinstance(base, ast.IfExp):
                    names = {util.recv_attr(x, "self") for x in (base.body, base.orelse)}
                    if any(x and _is_cache_field(x) for x in names):
                        R.check(
                            _no_extra(n),
                            m,
                            n,
                            f"{c.name}.{name}: exhausted-mark only without extra constraints",
                            f"{c.name}.{name} marks an expression exhausted although extra constraints may be present",
                        )
        # constraint expansion
        for call in util_calls(fn):
            if isinstance(call.func, ast.Attribute) and call.func.attr == "add" and dotted(call.func.value) == "self":
                R.check(
                    _no_extra(call),
                    m,
                    call,
                    f"{c.name}.{name}: self.add(...) of a derived constraint only without extra constraints",
                    f"{c.name}.{name} adds a constraint derived from a query answered under extra constraints",
                )
        # reads of min/max exhausted marks used to answer from the model cache
        for n in walk_no_nested(fn):
            if isinstance(n, ast.Compare) and len(n.ops) == 1 and isinstance(n.ops[0], (ast.In, ast.NotIn)):
                fields = set()
                for x in ast.walk(n.comparators[0]):
                    a = util.recv_attr(x, "self")
                    # (an exhaustive enumeration is no better: the cached models that satisfy the extra
                    # constraints are a subset of the feasible ones when the extras mention other variables)
                    if a and a.endswith("_exhausted"):
                        fields.add(a)
                for a in sorted(fields):
                    R.check(
                        _no_extra(n),
                        m,
                        n,
                        f"{c.name}.{name}: {a} consulted only without extra constraints",
                        f"{c.name}.{name} answers from cached models because {a} says the base optimum is cached, "
                        f"but with extra constraints the optimum may not be among the cached models",
                    )
        # strictness of exhaustion
        for n in walk_no_nested(fn):
            target = None
            if isinstance(n, ast.Assign) and isinstance(n.targets[0], ast.Subscript):
                if util.attr_root(n.targets[0], "self") == "_eval_exhausted":
                    target = n
            if (
                isinstance(n, ast.Call)
                and isinstance(n.func, ast.Attribute)
                and n.func.attr == "add"
                and dotted(n.func.value) == "self"
                and name in ("eval", "batch_eval")
            ):
                target = n
            if target is None:
                continue
            strict = False
            for t, pol in guards.guards_of(target):
                if isinstance(t, ast.Compare) and len(t.ops) == 1:
                    l, o, r = t.left, t.ops[0], t.comparators[0]
                    txt_l, txt_r = ast.unparse(l), ast.unparse(r)
                    if pol and isinstance(o, ast.Lt) and txt_l.startswith("len(") and txt_r == "n":
                        strict = True
                    if pol and isinstance(o, ast.Gt) and txt_r.startswith("len(") and txt_l == "n":
                        strict = True
                    if (not pol) and isinstance(o, ast.GtE) and txt_l.startswith("len(") and txt_r == "n":
                        strict = True
            R.check(
                strict,
                m,
                target,
                f"{c.name}.{name}: exhaustion decided by the strict test len(results) < n",
                f"{c.name}.{name} treats the result list as complete without the strict test len(results) < n "
                f"(n results do not prove there is no (n+1)-th)",
            )


def util_calls(fn):
    for n in walk_no_nested(fn):
        if isinstance(n, ast.Call):
            yield n


# ----------------------------------------------------------------------------- C11.satevidence

MODEL_IMPLYING = {"eval", "batch_eval", "min", "max"}


@rule(
    "C11.satevidence",
    props=("C11", "C12"),
    floor=3,
    family="GRD",
    desc="_cached_satness = True is written only after a call whose normal return implies a model "
    "(eval/batch_eval/min/max) or under a truthy satisfiable/solution result",
)
def c11_satevidence(R):
    tree = R.tree
    for m, c, name, fn in fe_methods(tree):
        if name in PLUMBING:
            continue
        for a, kind, node, val in util.attr_writes(fn, "self"):
            if a != "_cached_satness" or kind != "assign":
                continue
            if _const_val(val) is not True:
                continue
            # find the evidence: the preceding statement in the same block assigns r = super().M(...)
            blk = _block_of(node)
            idx = next(i for i, s in enumerate(blk) if s is node)
            ev = None
            before = list(blk[:idx])
            par = node._parent
            if isinstance(par, ast.Try) and blk is par.orelse:
                before = list(par.body) + before  # `else:` of a try runs after the body completed normally
            # a preceding `try` whose handlers all leave: falling out of it means its body completed normally
            flat = []
            for prev in before:
                if isinstance(prev, ast.Try) and not prev.finalbody and all(always_leaves(h.body) for h in prev.handlers):
                    flat += list(prev.body) + list(prev.orelse)
                else:
                    flat.append(prev)
            for prev in reversed(flat):
                if isinstance(prev, ast.Assign) and isinstance(prev.value, ast.Call):
                    mname = util.is_super_call(prev.value) or (
                        prev.value.func.attr if isinstance(prev.value.func, ast.Attribute) else None
                    )
                    ev = (mname, prev)
                    break
            if ev and ev[0] in MODEL_IMPLYING:
                R.ok(m, node, f"{c.name}.{name}: True cached after {ev[0]}() returned (a model exists)")
                continue
            # otherwise need a truthy guard on the result
            ok = False
            for t, pol in guards.guards_of(node):
                if pol and isinstance(t, ast.Name):
                    ok = True
                if pol and isinstance(t, ast.Compare) and isinstance(t.ops[0], ast.Is) and _const_val(t.comparators[0]) is True:
                    ok = True
            R.check(
                ok,
                m,
                node,
                f"{c.name}.{name}: True cached under a truthy result",
                f"{c.name}.{name} caches 'satisfiable' after "
                f"{(ev[0] + '()') if ev else 'no evidence'} without checking the result: a False/unsat answer "
                f"makes the solver claim satisfiability",
            )


def _block_of(stmt):
    p = stmt._parent
    for fld in ("body", "orelse", "finalbody"):
        lst = getattr(p, fld, None)
        if isinstance(lst, list) and any(x is stmt for x in lst):
            return lst
    if isinstance(p, ast.ExceptHandler):
        return p.body
    return [stmt]


# ----------------------------------------------------------------------------- C11.rwkey / deadcache


@rule(
    "C11.rwkey",
    props=("C11",),
    floor=2,
    family="SIB",
    desc="a cache selected by a flag when written is selected by the same flag when consulted",
)
def c11_rwkey(R):
    tree = R.tree
    for m, c, name, fn in fe_methods(tree):
        sel = {}  # field -> (flagtext, node)
        for n in walk_no_nested(fn):
            if isinstance(n, ast.Assign) and isinstance(n.targets[0], ast.Subscript):
                base = n.targets[0].value
                if isinstance(base, ast.IfExp):
                    for x in (base.body, base.orelse):
                        a = util.recv_attr(x, "self")
                        if a:
                            sel[a] = (ast.unparse(base.test), n)
        if not sel:
            continue
        flags = {f for f, _ in sel.values()}
        for n in walk_no_nested(fn):
            if isinstance(n, ast.Compare) and isinstance(n.ops[0], (ast.In, ast.NotIn)):
                rhs = n.comparators[0]
                a = util.recv_attr(rhs, "self")
                if a in sel:
                    flag = sel[a][0]
                    guarded = any(ast.unparse(t) == flag for t, _ in guards.guards_of(n))
                    R.check(
                        guarded,
                        m,
                        n,
                        f"{c.name}.{name}: read of {a} selected by `{flag}`",
                        f"{c.name}.{name} writes {a} or its sibling depending on `{flag}` but consults {a} "
                        f"regardless of `{flag}`: a mark recorded for one signedness answers the other",
                    )
                elif isinstance(rhs, ast.IfExp):
                    names = {util.recv_attr(x, "self") for x in (rhs.body, rhs.orelse)}
                    if names & set(sel):
                        R.check(
                            ast.unparse(rhs.test) in flags,
                            m,
                            n,
                            f"{c.name}.{name}: read selects cache by the same flag as the write",
                            f"{c.name}.{name} selects the cache to consult by `{ast.unparse(rhs.test)}` but the "
                            f"write selects by {sorted(flags)}",
                        )
                        # polarity: same field in the same arm
                        for wnode in {id(v[1]): v[1] for v in sel.values()}.values():
                            wb = wnode.targets[0].value
                            same = ast.unparse(wb.body) == ast.unparse(rhs.body) and ast.unparse(wb.orelse) == ast.unparse(
                                rhs.orelse
                            )
                            R.check(
                                same,
                                m,
                                n,
                                f"{c.name}.{name}: read and write agree on which cache each flag value selects",
                                f"{c.name}.{name}: write uses `{norm(wb)}` but read uses `{norm(rhs)}`",
                            )


@rule(
    "C11.deadcache",
    props=("C11",),
    floor=3,
    family="DEP",
    desc="a cache field that receives an informative write is consulted by some decision outside the "
    "copy/pickle/merge plumbing",
)
def c11_deadcache(R):
    tree = R.tree
    plumbing = PLUMBING | {"update", "_trivial_model_optimization"}
    for m, c in frontend_classes(tree):
        ms = util.methods_of(c)
        written = {}
        read = set()
        for name, fn in ms.items():
            fn = util.inline_aliases(fn, _mentions_cache_field)
            for n in ast.walk(fn):
                # informative writes: subscript stores (also through a conditional selection)
                if isinstance(n, ast.Assign) and isinstance(n.targets[0], ast.Subscript) and name not in PLUMBING:
                    base = n.targets[0].value
                    cands = [base.body, base.orelse] if isinstance(base, ast.IfExp) else [base]
                    for x in cands:
                        a = util.recv_attr(x, "self")
                        if a and _is_cache_field(a):
                            written.setdefault(a, n)
            if name in plumbing or name == "_add":
                continue
            for n in ast.walk(fn):
                if isinstance(n, ast.Compare) and isinstance(n.ops[0], (ast.In, ast.NotIn)):
                    for x in ast.walk(n.comparators[0]):
                        a = util.recv_attr(x, "self")
                        if a:
                            read.add(a)
                if isinstance(n, ast.Subscript) and isinstance(n.ctx, ast.Load):
                    a = util.recv_attr(n.value, "self")
                    if a:
                        read.add(a)
                if isinstance(n, ast.Call) and isinstance(n.func, ast.Attribute) and n.func.attr == "get":
                    a = util.recv_attr(n.func.value, "self")
                    if a:
                        read.add(a)
        for a, node in sorted(written.items()):
            R.check(
                a in read,
                m,
                node,
                f"{c.name}: cache {a} is written and consulted",
                f"{c.name}: cache {a} is written but no query ever consults it (the information it records is "
                f"looked up in a different cache)",
                construct=f"{c.name}.{a} written, never consulted",
            )


# ----------------------------------------------------------------------------- C11.dual


class _Renamer(ast.NodeTransformer):
    def __init__(self, mapping):
        self.mapping = mapping

    def _m(self, s):
        return self.mapping.get(s, s)

    def visit_Name(self, n):
        return ast.copy_location(ast.Name(self._m(n.id), n.ctx), n)

    def visit_Attribute(self, n):
        self.generic_visit(n)
        n.attr = self._m(n.attr)
        return n

    def visit_FunctionDef(self, n):
        self.generic_visit(n)
        n.name = self._m(n.name)
        return n

    def visit_Constant(self, n):
        return n


def _alpha(fn):
    """Alpha-normalise local names (params kept) and drop docstrings / logging calls and string constants."""
    fn = util.positive_ifs(fn)  # `if not s: A else: B` reads `if s: B else: A`
    params = {a.arg for a in fn.args.posonlyargs + fn.args.args + fn.args.kwonlyargs}
    order = {}
    for n in ast.walk(fn):
        if isinstance(n, ast.Name) and isinstance(n.ctx, ast.Store) and n.id not in params:
            order.setdefault(n.id, f"_v{len(order)}")
        if isinstance(n, FuncTypes) and n is not fn:
            order.setdefault(n.name, f"_v{len(order)}")
            for a in n.args.args:
                order.setdefault(a.arg, f"_v{len(order)}")
        if isinstance(n, ast.Lambda):
            for a in n.args.args:
                order.setdefault(a.arg, f"_v{len(order)}")

    class A(ast.NodeTransformer):
        def visit_Name(self, n):
            return ast.copy_location(ast.Name(order.get(n.id, n.id), n.ctx), n)

        def visit_arg(self, n):
            n.arg = order.get(n.arg, n.arg)
            n.annotation = None
            return n

        def visit_FunctionDef(self, n):
            self.generic_visit(n)
            n.name = order.get(n.name, n.name)
            n.returns = None
            return n

        def visit_Expr(self, n):
            if isinstance(n.value, ast.Constant):
                return None
            if isinstance(n.value, ast.Call) and (dotted(n.value.func) or "").startswith(("log.", "l.")):
                return None
            return self.generic_visit(n)

        def visit_Constant(self, n):
            if isinstance(n.value, str):
                return ast.copy_location(ast.Constant("<s>"), n)
            return n

    fn = A().visit(fn)
    fn.decorator_list = []
    fn.returns = None
    return fn


def _skeleton(stmts):
    """statement structure without the expressions"""
    out = []
    for st in stmts:
        kids = []
        for fld in ("body", "orelse", "finalbody"):
            b = getattr(st, fld, None)
            if isinstance(b, list) and b and isinstance(b[0], ast.stmt):
                kids.append((fld, _skeleton(b)))
        for h in getattr(st, "handlers", []) or []:
            kids.append(("handler", _skeleton(h.body)))
        out.append((type(st).__name__, tuple(kids)))
    return tuple(out)


def _dump_body(fn):
    return [ast.dump(s) for s in fn.body], [ast.unparse(s) for s in fn.body]


DUALS = [
    (
        "claripy/frontend/mixin/model_cache_mixin.py",
        "ModelCacheMixin",
        {
            "min": "max",
            "_min_exhausted": "_max_exhausted",
            "_min_signed_exhausted": "_max_signed_exhausted",
        },
    ),
    (
        "claripy/frontend/mixin/constraint_expansion_mixin.py",
        "ConstraintExpansionMixin",
        {"min": "max", "SGE": "SLE", "UGE": "ULE"},
    ),
    ("claripy/frontend/full_frontend.py", "FullFrontend", {"min": "max", "SLE": "SGE", "ULE": "UGE"}),
    ("claripy/frontend/mixin/sat_cache_mixin.py", "SatCacheMixin", {"min": "max"}),
    ("claripy/frontend/mixin/constraint_filter_mixin.py", "ConstraintFilterMixin", {"min": "max"}),
    ("claripy/frontend/mixin/concrete_handler_mixin.py", "ConcreteHandlerMixin", {"min": "max"}),
    ("claripy/frontend/mixin/simplify_helper_mixin.py", "SimplifyHelperMixin", {"min": "max"}),
    ("claripy/frontend/composite_frontend.py", "CompositeFrontend", {"min": "max"}),
    ("claripy/frontend/replacement_frontend.py", "ReplacementFrontend", {"min": "max"}),
    ("claripy/frontend/hybrid_frontend.py", "HybridFrontend", {"min": "max"}),
    ("claripy/frontend/light_frontend.py", "LightFrontend", {"min": "max"}),
]


@rule(
    "C11.dual",
    props=("C11", "C12", "C13"),
    floor=11,
    family="SIB",
    desc="min and max of every frontend layer are duals: after alpha-renaming locals and swapping "
    "min<->max (fields, builtins, comparison constructors) the two bodies are the same program",
)
def c11_dual(R):
    tree = R.tree
    for path, cname, mp in DUALS:
        c = tree.cls(path, cname)
        m = tree.mod(path)
        ms = util.methods_of(c)
        R.need("min" in ms and "max" in ms, f"{cname} lacks min/max")
        full = dict(mp)
        full.update({v: k for k, v in mp.items()})
        res = util.helper_resolver(tree, m, c)
        fmin, fmax = util.inline_helpers(ms["min"], res), util.inline_helpers(ms["max"], res)  # private helpers are part of the body
        a = _alpha(_Renamer(full).visit(util.clone(fmin)))
        b = _alpha(fmax)
        da, ta = _dump_body(a)
        db, tb = _dump_body(b)
        if da == db:
            R.ok(m, ms["min"], f"{cname}.min is the dual of {cname}.max")
            continue
        if _skeleton(a.body) != _skeleton(b.body):
            # one of the two was restructured on its own: the bodies cannot be compared statement by statement.
            # That is not evidence of a defect; the polarity of both is still decided by C11.minmaxpol / C11.rwkey
            R.ok(m, ms["min"], f"{cname}.min / {cname}.max have different statement structure: not compared here", nontrivial=False)
            continue
        # report first differing statement
        diff = None
        for i, (x, y) in enumerate(zip(da, db)):
            if x != y:
                diff = (ta[i], tb[i])
                break
        if diff is None:
            diff = (f"{len(da)} statements", f"{len(db)} statements")
        R.bad(
            m,
            ms["min"],
            f"{cname}.min is not the dual of {cname}.max; first difference (min side, after min<->max renaming) "
            f"`{' '.join(diff[0].split())[:200]}` vs max side `{' '.join(diff[1].split())[:200]}`",
            construct=f"{cname}.min vs {cname}.max",
        )


@rule(
    "C11.minmaxpol",
    props=("C11", "C12"),
    floor=8,
    family="TAB",
    desc="polarity table of min/max helpers: min narrows with <= bounds and records >= the answer, max the "
    "reverse; signed variants use S*, unsigned U*; each asks the backend's operation of its own name",
)
def c11_minmaxpol(R):
    tree = R.tree
    # ConstraintExpansionMixin: after min m, add e >= m ; after max m, add e <= m
    m = tree.mod("claripy/frontend/mixin/constraint_expansion_mixin.py")
    c = tree.cls(m.path, "ConstraintExpansionMixin")
    ms = util.methods_of(c)
    want = {"min": ("SGE", "UGE"), "max": ("SLE", "ULE")}
    for name, (s, u) in want.items():
        fn = ms.get(name)
        R.need(fn is not None, f"ConstraintExpansionMixin.{name} missing")
        found = False
        answer = [
            st.targets[0].id
            for st in walk_no_nested(fn)
            if isinstance(st, ast.Assign) and isinstance(st.targets[0], ast.Name) and isinstance(st.value, ast.Call) and util.is_super_call(st.value, name)
        ]
        ans = answer[0] if len(answer) == 1 else "m"
        for n in ast.walk(fn):
            if isinstance(n, ast.IfExp) and ast.unparse(n.test) in ("signed", "not signed"):
                found = True
                sb, ub = (n.body, n.orelse) if ast.unparse(n.test) == "signed" else (n.orelse, n.body)
                bs = (dotted(sb.func) or "").split(".")[-1] if isinstance(sb, ast.Call) else None
                bu = (dotted(ub.func) or "").split(".")[-1] if isinstance(ub, ast.Call) else None
                R.check(
                    (bs, bu) == (s, u),
                    m,
                    n,
                    f"ConstraintExpansionMixin.{name} records {s}/{u}(e, m)",
                    f"ConstraintExpansionMixin.{name} must record {s} (signed) / {u} (unsigned) but records {bs}/{bu}",
                )
                for arm in (n.body, n.orelse):
                    if isinstance(arm, ast.Call) and len(arm.args) == 2:
                        R.check(
                            ast.unparse(arm.args[0]) == "e" and ast.unparse(arm.args[1]) == ans,
                            m,
                            arm,
                            "bound is (expression, answer) in that order",
                            f"bound arguments are ({ast.unparse(arm.args[0])}, {ast.unparse(arm.args[1])}), expected (the expression, the answer of the delegated query)",
                        )
        R.need(found, f"ConstraintExpansionMixin.{name}: signed/unsigned selection not found")
    # FullFrontend: min narrows with SLE/ULE and calls backend.min ; max SGE/UGE and backend.max
    m = tree.mod("claripy/frontend/full_frontend.py")
    c = tree.cls(m.path, "FullFrontend")
    ms = util.methods_of(c)
    want = {"min": ("SLE", "ULE"), "max": ("SGE", "UGE")}
    for name, (s, u) in want.items():
        fn = ms.get(name)
        R.need(fn is not None, f"FullFrontend.{name} missing")
        fn = util.positive_ifs(fn)
        n_if = 0
        CMPS = {"SLE", "ULE", "SGE", "UGE", "SLT", "ULT", "SGT", "UGT"}
        for n in walk_no_nested(fn):
            # `if signed: <build with S*> else: <build with U*>` or `cmp = S* if signed else U*`
            if isinstance(n, (ast.If, ast.IfExp)) and ast.unparse(n.test) == "signed":
                n_if += 1
                arms = ((n.body, s), (n.orelse, u)) if isinstance(n, ast.If) else (([n.body], s), ([n.orelse], u))
                for arm, exp in arms:
                    ops = {
                        (dotted(x) or "").split(".")[-1]
                        for st in arm
                        for x in ast.walk(st)
                        if isinstance(x, (ast.Attribute, ast.Name)) and (dotted(x) or "").split(".")[-1] in CMPS
                    }
                    R.check(
                        ops == {exp},
                        m,
                        n,
                        f"FullFrontend.{name}: {'signed' if exp == s else 'unsigned'} arm narrows with {exp}",
                        f"FullFrontend.{name}: {'signed' if exp == s else 'unsigned'} arm narrows with "
                        f"{sorted(ops)} instead of {exp}",
                        construct=f"FullFrontend.{name} {'signed' if exp == s else 'unsigned'} arm",
                    )
        R.need(n_if >= 1, f"FullFrontend.{name}: no `if signed` found")
        be = [
            x
            for x in ast.walk(fn)
            if isinstance(x, ast.Call)
            and isinstance(x.func, ast.Attribute)
            and dotted(x.func.value) == "self._solver_backend"
        ]
        R.check(
            len(be) == 1 and be[0].func.attr == name,
            m,
            fn,
            f"FullFrontend.{name} asks the backend for {name}",
            f"FullFrontend.{name} calls backend {[b.func.attr for b in be]}",
            construct=f"FullFrontend.{name} backend call",
        )
    # ModelCacheMixin: builtin min in min, max in max; signed key
    m = tree.mod("claripy/frontend/mixin/model_cache_mixin.py")
    c = tree.cls(m.path, "ModelCacheMixin")
    ms = util.methods_of(c)
    for name in ("min", "max"):
        fn = ms[name]
        hits = [
            x
            for x in ast.walk(fn)
            if isinstance(x, ast.Call) and isinstance(x.func, ast.Name) and x.func.id in ("min", "max")
        ]
        R.check(
            len(hits) == 1 and hits[0].func.id == name,
            m,
            fn,
            f"ModelCacheMixin.{name} picks the {name} of the cached values",
            f"ModelCacheMixin.{name} applies builtin {[h.func.id for h in hits]} to the cached values",
            construct=f"ModelCacheMixin.{name} builtin",
        )
        if hits:
            k = util.kw(hits[0], "key")
            # the key is chosen by the `signed` parameter: a conditional expression on it, or a key factory given it
            sp = "signed"
            ok = k is not None and ((isinstance(k, ast.IfExp) and ast.unparse(k.test) in (sp, f"not {sp}")) or util.depends_on(k, {sp}, fn))
            factory = None
            if isinstance(k, ast.Call) and isinstance(k.func, ast.Name) and k.func.id in m.functions:
                factory = tree.func(m.path, k.func.id)
                ok = ok and any(isinstance(t, (ast.If, ast.IfExp)) and sp_ in ast.unparse(t.test) for sp_ in [factory.args.args[[ast.unparse(a) for a in k.args].index(sp)].arg] if sp in [ast.unparse(a) for a in k.args] for t in ast.walk(factory))
                subs = [x for x in ast.walk(factory) if isinstance(x, ast.BinOp) and isinstance(x.op, ast.Sub) and ("2 **" in ast.unparse(x) or "1 <<" in ast.unparse(x))]
                R.check(
                    bool(subs),
                    m,
                    factory,
                    f"ModelCacheMixin.{name}: signed key maps the upper half to negative numbers (v - 2**n)",
                    f"ModelCacheMixin.{name}: the key factory {factory.name} never subtracts 2**n, so it orders values as unsigned",
                    construct=f"ModelCacheMixin.{name} signed key",
                )
            R.check(
                ok,
                m,
                hits[0],
                f"ModelCacheMixin.{name}: ordering key selected by `signed`",
                f"ModelCacheMixin.{name}: ordering key is not selected by `signed`",
            )
            # the signed key must map values with the top bit set to negatives: it contains a subtraction
            for inner in ast.walk(fn):
                if isinstance(inner, FuncTypes) and inner is not fn:
                    has_sub = any(isinstance(x, ast.BinOp) and isinstance(x.op, ast.Sub) and "2 **" in ast.unparse(x) for x in ast.walk(inner))
                    R.check(
                        has_sub,
                        m,
                        inner,
                        f"ModelCacheMixin.{name}: signed key maps the upper half to negative numbers (v - 2**n)",
                        f"ModelCacheMixin.{name}: signed key `{norm(inner.body[-1])}` never subtracts 2**n, so it "
                        f"orders values as unsigned",
                    )


# ----------------------------------------------------------------------------- C11.addreset


@rule(
    "C11.addreset",
    props=("C11", "C12"),
    floor=3,
    family="GRD",
    desc="adding constraints downgrades positive caches: SatCacheMixin._add resets a cached True; "
    "ModelCacheMixin._add re-filters cached models against what was added; simplify() drops the native solver",
)
def c11_addreset(R):
    tree = R.tree
    m = tree.mod("claripy/frontend/mixin/sat_cache_mixin.py")
    fn = tree.func(m.path, "SatCacheMixin._add")
    ok = False
    for a, kind, node, val in util.attr_writes(fn, "self"):
        if a == "_cached_satness" and kind == "assign" and _const_val(val) is None:
            ok = True
            R.ok(m, node, "SatCacheMixin._add resets a cached True to unknown")
    if not ok:
        R.bad(m, fn, "SatCacheMixin._add never resets a cached 'satisfiable' after constraints were added",
              construct="SatCacheMixin._add: no reset of _cached_satness")
    # a cached True must never survive: the reset must not be guarded by anything but `is True`/`cached False`
    for a, kind, node, val in util.attr_writes(fn, "self"):
        if a == "_cached_satness" and kind == "assign" and _const_val(val) is True:
            R.bad(m, node, "SatCacheMixin._add caches 'satisfiable' while adding constraints")
    m = tree.mod("claripy/frontend/mixin/model_cache_mixin.py")
    fn = tree.func(m.path, "ModelCacheMixin._add")
    ok = False
    for a, kind, node, val in util.attr_writes(fn, "self"):
        if a == "_models" and kind == "assign":
            # value derived from _get_models(extra_constraints=added)
            dep = util.depends_on(val, set(), fn)
            src = None
            for n in ast.walk(fn):
                if isinstance(n, ast.Call) and isinstance(n.func, ast.Attribute) and n.func.attr == "_get_models":
                    src = n
            if src is not None and util.depends_on(val, {"__none__"}, fn) is False:
                arg = util.kw(src, "extra_constraints") or (src.args[0] if src.args else None)
                accepted = [
                    st.targets[0].id
                    for st in walk_no_nested(fn)
                    if isinstance(st, ast.Assign) and isinstance(st.targets[0], ast.Name) and isinstance(st.value, ast.Call) and util.is_super_call(st.value, "_add")
                ]
                if arg is not None and ast.unparse(arg) in accepted and _reaches(val, src, fn):
                    ok = True
                    R.ok(m, node, "ModelCacheMixin._add keeps only models that satisfy the added constraints")
    if not ok:
        R.bad(m, fn, "ModelCacheMixin._add does not re-filter cached models against the added constraints",
              construct="ModelCacheMixin._add: no model filtering")
    # guard of the filtering
    for n in walk_no_nested(fn):
        if isinstance(n, ast.If) and any(
            isinstance(x, ast.Call) and isinstance(x.func, ast.Attribute) and x.func.attr == "_get_models"
            for x in ast.walk(n)
        ):
            t = ast.unparse(n.test)
            R.check(
                "invalidate_cache" in t and isinstance(n.test, ast.BoolOp) and isinstance(n.test.op, ast.Or),
                m,
                n,
                "model filtering happens whenever invalidate_cache is set or new variables appear",
                f"model filtering is guarded by `{t}`; it must run whenever invalidate_cache is true",
                construct=f"if {t}: <filter models>",
            )
            break
    m = tree.mod("claripy/frontend/full_frontend.py")
    fn = tree.func(m.path, "FullFrontend.simplify")
    ok = any(
        a == "_tls" and kind == "subassign" and _const_val(val) is None for a, kind, node, val in util.attr_writes(fn, "self")
    )
    R.check(
        ok,
        m,
        fn,
        "FullFrontend.simplify drops the native solver built from the old constraints",
        "FullFrontend.simplify keeps the native solver although the constraint list was replaced",
        construct="FullFrontend.simplify: self._tls.solver = None",
    )


def _reaches(val, src, fn):
    """val mentions a local that was assigned from an expression containing src (one or two levels)."""
    assigns = util.local_assignments(fn)
    names = {n.id for n in ast.walk(val) if isinstance(n, ast.Name)}
    for nm in names:
        for st in assigns.get(nm, []):
            if any(x is src for x in ast.walk(st.value)):
                return True
    return any(x is src for x in ast.walk(val))


# ----------------------------------------------------------------------------- C11.forward

FORWARD_EXEMPT = {
    # (class, method, callee-text) -> reason
    ("LightFrontend", "*"): "documented: the light frontend ignores extra constraints (over-approximates)",
    ("CompositeFrontend", "check_satisfiability", "<each of self._unchecked_solvers>.check_satisfiability"): (
        "second loop checks children not touched by the extra constraints"
    ),
    ("FullFrontend", "unsat_core", "self._solver_backend.unsat_core"): "backend API takes the solver only",
    ("CompositeFrontend", "_ensure_sat", "self.satisfiable"): (
        "pre-check of the stored constraints of all groups; the query that follows carries the extra constraints "
        "(rule C12.ensure requires this call to be unconditional)"
    ),
}


def _receiver_kind(call):
    f = call.func
    if not isinstance(f, ast.Attribute):
        return "other"
    if isinstance(f.value, ast.Call) and isinstance(f.value.func, ast.Name) and f.value.func.id == "super":
        return "super"
    d = dotted(f.value)
    if d == "self":
        return "self"
    if d and d.endswith("_solver_backend"):
        return "backend"
    if d and d[0].isupper():
        return "explicit"
    return "inner"


@rule(
    "C11.forward",
    props=("C11", "C12", "C13"),
    floor=80,
    family="DEP",
    desc="every delegation of a query passes extra_constraints / signed / exact / n derived from the "
    "method's own parameter (or is dominated by 'no extra constraints')",
)
def c11_forward(R):
    tree = R.tree
    n_deleg = 0
    for m, c, name, fn in fe_methods(tree):
        if not has_param(fn, "extra_constraints"):
            continue
        if ("%s" % c.name, "*") in FORWARD_EXEMPT:
            R.ok(m, fn, f"{c.name}.{name}: {FORWARD_EXEMPT[(c.name, '*')]}", nontrivial=False)
            continue
        for call in util_calls(fn):
            f = call.func
            callee = None
            if isinstance(f, ast.Attribute) and f.attr in QUERY:
                callee = f.attr
                args = call.args
                kwargs = {k.arg: k.value for k in call.keywords if k.arg}
                rk = _receiver_kind(call)
                if rk == "explicit":
                    args = args[1:]
            elif (
                isinstance(f, ast.Attribute)
                and f.attr in ("_hybrid_call", "_approximate_first_call", "_do_call")
                and call.args
                and isinstance(call.args[0], ast.Constant)
            ):
                callee = call.args[0].value
                args = call.args[1:]
                kwargs = {k.arg: k.value for k in call.keywords if k.arg}
                rk = "inner" if f.attr != "_approximate_first_call" else "approx"
            if callee is None or callee not in QUERY:
                continue
            if rk == "other":
                continue
            n_deleg += 1
            ctext = ast.unparse(f)
            # a receiver that is the variable of a loop over one of self's tables is named after the table, not
            # after the local (`for s in self._unchecked_solvers: s.check_satisfiability(..)`)
            if isinstance(f, ast.Attribute) and isinstance(f.value, ast.Name):
                for lp in (x for x in walk_no_nested(fn) if isinstance(x, ast.For) and isinstance(x.target, ast.Name) and x.target.id == f.value.id):
                    if (dotted(lp.iter) or "").startswith("self."):
                        ctext = f"<each of {dotted(lp.iter)}>.{f.attr}"
            if (c.name, name, ctext) in FORWARD_EXEMPT:
                R.ok(m, call, f"{c.name}.{name} -> {ctext}: {FORWARD_EXEMPT[(c.name, name, ctext)]}", nontrivial=False)
                continue
            # extra_constraints
            ec = kwargs.get("extra_constraints")
            if ec is None:
                for a in args:
                    if isinstance(a, ast.Name) and a.id == "extra_constraints":
                        ec = a
            if ec is not None:
                # every definition of a local that carries them: a branch that rebuilds the tuple without the caller's
                # extras drops them on that path
                every_def = True
                if isinstance(ec, ast.Name) and ec.id != "extra_constraints":
                    defs_ = [st.value for st in walk_no_nested(fn) if isinstance(st, ast.Assign) and any(isinstance(x_, ast.Name) and x_.id == ec.id for t in st.targets for x_ in ast.walk(t))]

                    def arms_(e_):
                        return arms_(e_.body) + arms_(e_.orelse) if isinstance(e_, ast.IfExp) else [e_]

                    defs_ = [a_ for d_ in defs_ for a_ in arms_(d_)]
                    every_def = all(util.depends_on(d_, {"extra_constraints"}, None) or any(isinstance(x, ast.Name) and x.id == ec.id for x in ast.walk(d_)) for d_ in defs_)
                R.check(
                    util.depends_on(ec, {"extra_constraints"}, fn, depth=4) and every_def,
                    m,
                    call,
                    f"{c.name}.{name} -> {ctext}: extra_constraints derived from the caller's",
                    f"{c.name}.{name} passes extra_constraints=`{norm(ec)}` to {ctext}, which does not derive "
                    f"from its own extra_constraints parameter",
                )
            else:
                R.check(
                    _no_extra(call),
                    m,
                    call,
                    f"{c.name}.{name} -> {ctext}: call without extra constraints only when there are none",
                    f"{c.name}.{name} delegates to {ctext} without its extra_constraints: the answer ignores them",
                )
            # signed
            if has_param(fn, "signed") and callee in ("min", "max"):
                sg = kwargs.get("signed")
                R.check(
                    sg is not None and util.depends_on(sg, {"signed"}, fn),
                    m,
                    call,
                    f"{c.name}.{name} -> {ctext}: signed forwarded",
                    f"{c.name}.{name} does not forward `signed` to {ctext}: a signed query is answered unsigned",
                )
            # exact
            if has_param(fn, "exact") and rk in ("super", "inner", "explicit") and callee != "unsat_core":
                ex = kwargs.get("exact")
                R.check(
                    ex is not None and util.depends_on(ex, {"exact"}, fn),
                    m,
                    call,
                    f"{c.name}.{name} -> {ctext}: exact forwarded",
                    f"{c.name}.{name} does not forward `exact` to {ctext}",
                )
            # n for same-named enumeration
            if callee == name and name in ("eval", "batch_eval", "eval_to_ast") and has_param(fn, "n") and len(args) >= 2:
                R.check(
                    util.depends_on(args[1], {"n"}, fn),
                    m,
                    call,
                    f"{c.name}.{name} -> {ctext}: n derived from the caller's n",
                    f"{c.name}.{name} passes n=`{norm(args[1])}` to {ctext}, unrelated to its own n",
                )
            # the expression itself
            if callee == name and args and name not in ("satisfiable", "check_satisfiability", "unsat_core"):
                p0 = util.func_param(fn, 1)
                R.check(
                    util.depends_on(args[0], {p0}, fn),
                    m,
                    call,
                    f"{c.name}.{name} -> {ctext}: queried expression derived from the caller's `{p0}`",
                    f"{c.name}.{name} asks {ctext} about `{norm(args[0])}`, unrelated to its own `{p0}`",
                )
    R.extra["delegations"] = n_deleg


# ----------------------------------------------------------------------------- C11.flush


@rule(
    "C11.flush",
    props=("C11", "C14", "C17"),
    floor=7,
    family="DEP",
    desc="every native query in FullFrontend passes solver=self._get_solver() evaluated at the call, and _add "
    "queues exactly what ConstrainedFrontend._add accepted",
)
def c11_flush(R):
    tree = R.tree
    m = tree.mod("claripy/frontend/full_frontend.py")
    c = tree.cls(m.path, "FullFrontend")
    for name, fn in util.methods_of(c).items():
        for call in util_calls(fn):
            f = call.func
            if isinstance(f, ast.Attribute) and dotted(f.value) == "self._solver_backend" and f.attr in QUERY:
                s = util.kw(call, "solver")
                if s is None and f.attr == "unsat_core" and call.args:
                    s = call.args[0]
                ok = (
                    isinstance(s, ast.Call)
                    and isinstance(s.func, ast.Attribute)
                    and s.func.attr == "_get_solver"
                    and dotted(s.func.value) == "self"
                )
                R.check(
                    ok,
                    m,
                    call,
                    f"FullFrontend.{name}: backend.{f.attr} gets solver=self._get_solver()",
                    f"FullFrontend.{name}: backend.{f.attr} is not handed self._get_solver() "
                    f"(got `{norm(s) if s is not None else 'nothing'}`): pending constraints are not flushed",
                )
    add = tree.func(m.path, "FullFrontend._add")
    src = None
    for n in walk_no_nested(add):
        if isinstance(n, ast.Assign) and isinstance(n.value, ast.Call):
            e = util.explicit_base_call(n.value, "_add") or (util.is_super_call(n.value, "_add") and ("super", "_add"))
            if e and isinstance(n.targets[0], ast.Name):
                src = n.targets[0].id
    ok = False
    for a, kind, node, val in util.attr_writes(add, "self"):
        if a == "_to_add" and kind in ("aug", "mutate", "assign") and src and any(
            isinstance(x, ast.Name) and x.id == src for x in ast.walk(val)
        ):
            ok = True
    R.check(
        ok,
        m,
        add,
        "FullFrontend._add queues what the base _add accepted",
        "FullFrontend._add does not queue the constraints accepted by ConstrainedFrontend._add for the native solver",
        construct="FullFrontend._add: _to_add += <accepted>",
    )
    rets = [n for n in walk_no_nested(add) if isinstance(n, ast.Return)]
    R.check(
        all(r.value is not None and isinstance(r.value, ast.Name) and r.value.id == src for r in rets) and rets,
        m,
        add,
        "FullFrontend._add returns the accepted constraints",
        "FullFrontend._add does not return the accepted constraints (mixins above rely on the return value)",
        construct="FullFrontend._add: return <accepted>",
    )
    # _add_constraints hands the whole constraint list / pending list to the backend and clears the queue
    ac = tree.func(m.path, "FullFrontend._add_constraints")
    calls = [
        x
        for x in util_calls(ac)
        if isinstance(x.func, ast.Attribute) and x.func.attr == "add" and dotted(x.func.value) == "self._solver_backend"
    ]
    R.check(
        len(calls) == 1
        and len(calls[0].args) >= 2
        and ast.unparse(calls[0].args[0]) == "self._tls.solver"
        and ast.unparse(calls[0].args[1]) in ("self.constraints", "self._to_add"),
        m,
        ac,
        "FullFrontend._add_constraints asserts the constraint list into the thread's native solver",
        "FullFrontend._add_constraints does not assert self.constraints into self._tls.solver",
        construct="FullFrontend._add_constraints backend.add",
    )
    if calls:
        t = util.kw(calls[0], "track")
        R.check(
            t is not None and ast.unparse(t) == "self._track",
            m,
            calls[0],
            "tracking flag forwarded to the backend",
            "FullFrontend._add_constraints does not forward track=self._track (unsat cores lose their constraints)",
        )
