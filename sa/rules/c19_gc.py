"""C19 - the GC guard around Z3 calls, decided by extracting _enter_z3/_exit_z3 into a small
guarded-command program and exploring every interleaving (explicit-state model checking of the
extracted model; the repository's code is never run)."""

from __future__ import annotations

import ast

from ..cfg import CFG, describe_path
from ..core import AnalysisError, dotted, norm, walk_no_nested
from ..report import rule

Z3 = "claripy/backends/backend_z3.py"
ENTER, EXIT = "_enter_z3", "_exit_z3"


# ----------------------------------------------------------------------------- extraction


class Prog:
    def __init__(self, name):
        self.name = name
        self.ins = []  # tuples
        self.globals = set()
        self.lines = []


def _lock_names(tree):
    m = tree.mod(Z3)
    out = set()
    for st in m.tree.body:
        if isinstance(st, ast.Assign) and isinstance(st.value, ast.Call):
            d = dotted(st.value.func) or ""
            if d in ("threading.Lock", "threading.RLock", "Lock", "RLock"):
                for t in st.targets:
                    if isinstance(t, ast.Name):
                        out.add((t.id, "RLock" if d.endswith("RLock") else "Lock"))
    return dict(out)


def _cexpr(e):
    """Translate a condition / value expression into a small tuple language."""
    if isinstance(e, ast.Constant) and isinstance(e.value, (int, bool)) or (isinstance(e, ast.Constant) and e.value is None):
        return ("const", e.value)
    if isinstance(e, ast.Name):
        return ("var", e.id)
    if isinstance(e, ast.UnaryOp) and isinstance(e.op, ast.Not):
        return ("not", _cexpr(e.operand))
    if isinstance(e, ast.BoolOp):
        return ("and" if isinstance(e.op, ast.And) else "or", [_cexpr(v) for v in e.values])
    if isinstance(e, ast.Compare) and len(e.ops) == 1:
        ops = {ast.Eq: "==", ast.NotEq: "!=", ast.Lt: "<", ast.LtE: "<=", ast.Gt: ">", ast.GtE: ">=", ast.Is: "==", ast.IsNot: "!="}
        o = ops.get(type(e.ops[0]))
        if o:
            return ("cmp", o, _cexpr(e.left), _cexpr(e.comparators[0]))
    if isinstance(e, ast.Call) and dotted(e.func) == "gc.isenabled" and not e.args:
        return ("gcenabled",)
    if isinstance(e, ast.BinOp) and isinstance(e.op, (ast.Add, ast.Sub)):
        return ("arith", "+" if isinstance(e.op, ast.Add) else "-", _cexpr(e.left), _cexpr(e.right))
    raise AnalysisError(f"C19.model: expression outside the interpreted fragment: `{ast.unparse(e)}`")


def compile_fn(fn, locks):
    p = Prog(fn.name)

    def emit(*ins, node=None):
        p.ins.append(ins)
        p.lines.append(getattr(node, "lineno", 0))
        return len(p.ins) - 1

    def block(stmts, held):
        for st in stmts:
            if isinstance(st, ast.Global):
                p.globals.update(st.names)
            elif isinstance(st, ast.Expr) and isinstance(st.value, ast.Constant):
                continue
            elif isinstance(st, ast.Pass):
                continue
            elif isinstance(st, ast.With):
                names = []
                for it in st.items:
                    d = dotted(it.context_expr)
                    if d not in locks or it.optional_vars is not None:
                        raise AnalysisError(f"C19.model: `with {ast.unparse(it.context_expr)}` is not a known module lock")
                    names.append(d)
                for nm in names:
                    emit("acq", nm, node=st)
                block(st.body, held + names)
                for nm in reversed(names):
                    emit("rel", nm, node=st)
            elif isinstance(st, ast.If):
                j = emit("jf", _cexpr(st.test), None, node=st)
                block(st.body, held)
                if st.orelse:
                    k = emit("jmp", None, node=st)
                    p.ins[j] = ("jf", p.ins[j][1], len(p.ins))
                    block(st.orelse, held)
                    p.ins[k] = ("jmp", len(p.ins))
                else:
                    p.ins[j] = ("jf", p.ins[j][1], len(p.ins))
            elif isinstance(st, ast.Assign) and len(st.targets) == 1 and isinstance(st.targets[0], ast.Name):
                emit("set", st.targets[0].id, _cexpr(st.value), node=st)
            elif isinstance(st, ast.AugAssign) and isinstance(st.target, ast.Name) and isinstance(st.op, (ast.Add, ast.Sub)):
                emit(
                    "set",
                    st.target.id,
                    ("arith", "+" if isinstance(st.op, ast.Add) else "-", ("var", st.target.id), _cexpr(st.value)),
                    node=st,
                )
            elif isinstance(st, ast.Expr) and isinstance(st.value, ast.Call):
                d = dotted(st.value.func) or ""
                if d == "gc.enable":
                    emit("gc", True, node=st)
                elif d == "gc.disable":
                    emit("gc", False, node=st)
                elif d.startswith(("log.", "logging.", "l.")):
                    lvl = d.split(".")[-1]
                    emit("log", lvl, norm(st), node=st)
                else:
                    raise AnalysisError(f"C19.model: call outside the interpreted fragment: `{norm(st)}`")
            elif isinstance(st, ast.Return):
                if st.value is not None and not (isinstance(st.value, ast.Constant) and st.value.value is None):
                    raise AnalysisError("C19.model: return with a value")
                emit("ret", tuple(reversed(held)), node=st)
            else:
                raise AnalysisError(f"C19.model: statement outside the interpreted fragment: `{norm(st)}`")

    block(fn.body, [])
    emit("ret", (), node=fn)
    return p


# ----------------------------------------------------------------------------- explorer


def _eval(e, env, gcflag):
    k = e[0]
    if k == "const":
        return e[1]
    if k == "var":
        if e[1] not in env:
            raise AnalysisError(f"C19.model: read of unknown variable {e[1]}")
        return env[e[1]]
    if k == "not":
        return not _eval(e[1], env, gcflag)
    if k == "and":
        return all(_eval(x, env, gcflag) for x in e[1])
    if k == "or":
        return any(_eval(x, env, gcflag) for x in e[1])
    if k == "gcenabled":
        return gcflag
    if k == "arith":
        a, b = _eval(e[2], env, gcflag), _eval(e[3], env, gcflag)
        return a + b if e[1] == "+" else a - b
    if k == "cmp":
        a, b = _eval(e[2], env, gcflag), _eval(e[3], env, gcflag)
        return {"==": a == b, "!=": a != b, "<": a < b, "<=": a <= b, ">": a > b, ">=": a >= b}[e[1]]
    raise AnalysisError(f"C19.model: bad expression {e}")


def explore(progs, init_globals, nthreads, budget, gc_init, max_states=3_000_000):
    """Exhaustive exploration.  Thread state: (depth, budget_left, fn or None, pc, locals-tuple).
    Global state: (globals-tuple, gcflag, lock owners tuple).  Returns dict with counts and first violation."""
    gnames = sorted(init_globals)
    lock_names = sorted({i[1] for p in progs.values() for i in p.ins if i[0] in ("acq", "rel")})
    local_names = {
        name: sorted(
            {i[1] for i in p.ins if i[0] == "set" and i[1] not in p.globals}
        )
        for name, p in progs.items()
    }
    for name, p in progs.items():
        for i in p.ins:
            if i[0] == "set" and i[1] not in p.globals and i[1] in init_globals:
                raise AnalysisError(
                    f"C19.model: {name} assigns {i[1]} without declaring it global (it would be a local variable)"
                )

    init = (
        tuple(init_globals[g] for g in gnames),
        gc_init,
        tuple(-1 for _ in lock_names),
        tuple((0, budget, None, 0, ()) for _ in range(nthreads)),
        gc_init,  # the collector's state before the first call of the current busy period
    )
    seen = {init: None}
    frontier = [init]
    transitions = 0
    violation = None
    sample_trace = None

    def trace_of(s):
        out = []
        while s is not None and seen[s] is not None:
            prev, label = seen[s]
            out.append(label)
            s = prev
        return list(reversed(out))

    def check(state):
        gv, gcf, locks, threads, ref = state
        env = dict(zip(gnames, gv))
        inprog = sum(t[0] for t in threads if t[2] is None) + sum(
            (t[0] if t[2] == ENTER else t[0] - 1) for t in threads if t[2] is not None
        )
        # calls in progress = completed enters not yet followed by the start of their exit
        if inprog > 0 and gcf:
            return f"garbage collector enabled while {inprog} Z3 call(s) are in progress"
        cnt = env.get("_active_z3_calls")
        if cnt is not None and cnt < 0:
            return "in-progress counter is negative"
        if all(t[2] is None for t in threads):
            total = sum(t[0] for t in threads)
            if cnt is not None and cnt != total:
                return f"counter is {cnt} but {total} call(s) are in progress (all threads between calls)"
            if total == 0 and gcf != ref:
                return f"all calls returned but the collector is {'enabled' if gcf else 'disabled'}; it was {'enabled' if ref else 'disabled'} before the first of them started"
        return None

    while frontier:
        nxt = []
        for state in frontier:
            gv, gcf, locks, threads, ref = state
            if all(t[2] is None and t[0] == 0 for t in threads) and any(t[1] > 0 for t in threads):
                # quiescent: the application may switch the collector itself between solver calls; the state
                # to restore is then the one it chose
                ns = (gv, not gcf, locks, threads, not gcf)
                transitions += 1
                if ns not in seen:
                    seen[ns] = (state, f"application: gc.{'disable' if gcf else 'enable'}() while no call is in progress")
                    nxt.append(ns)
            for ti, (depth, bud, fn, pc, loc) in enumerate(threads):
                succs = []
                if fn is None:
                    if bud > 0:
                        succs.append(((depth, bud - 1, ENTER, 0, ()), gv, gcf, locks, f"T{ti}: call {ENTER}()"))
                    if depth > 0:
                        succs.append(((depth, bud, EXIT, 0, ()), gv, gcf, locks, f"T{ti}: call {EXIT}()"))
                else:
                    p = progs[fn]
                    ins = p.ins[pc]
                    env = dict(zip(gnames, gv))
                    lenv = dict(zip(local_names[fn], loc)) if loc else {}
                    full = {**env, **lenv}
                    lab = f"T{ti}: {fn} L{p.lines[pc]} {ins[0]}"
                    k = ins[0]
                    if k == "acq":
                        li = lock_names.index(ins[1])
                        if locks[li] == -1:
                            nl = list(locks)
                            nl[li] = ti
                            succs.append(((depth, bud, fn, pc + 1, loc), gv, gcf, tuple(nl), lab))
                        elif locks[li] == ti:
                            return {"violation": f"{fn} re-acquires non-reentrant lock {ins[1]} (deadlock)", "trace": trace_of(state), "states": len(seen), "transitions": transitions}
                        # else blocked
                    elif k == "rel":
                        li = lock_names.index(ins[1])
                        nl = list(locks)
                        nl[li] = -1
                        succs.append(((depth, bud, fn, pc + 1, loc), gv, gcf, tuple(nl), lab))
                    elif k == "jf":
                        c = _eval(ins[1], full, gcf)
                        succs.append(((depth, bud, fn, pc + 1 if c else ins[2], loc), gv, gcf, locks, lab + f" [{bool(c)}]"))
                    elif k == "jmp":
                        succs.append(((depth, bud, fn, ins[1], loc), gv, gcf, locks, lab))
                    elif k == "set":
                        val = _eval(ins[2], full, gcf)
                        if ins[1] in p.globals:
                            ne = dict(env)
                            ne[ins[1]] = val
                            succs.append(((depth, bud, fn, pc + 1, loc), tuple(ne[g] for g in gnames), gcf, locks, lab + f" {ins[1]}={val}"))
                        else:
                            nl_ = dict(lenv)
                            nl_[ins[1]] = val
                            succs.append(((depth, bud, fn, pc + 1, tuple(nl_.get(n) for n in local_names[fn])), gv, gcf, locks, lab))
                    elif k == "gc":
                        succs.append(((depth, bud, fn, pc + 1, loc), gv, ins[1], locks, lab + (" enable" if ins[1] else " disable")))
                    elif k == "log":
                        if ins[1] in ("error", "critical", "exception"):
                            return {
                                "violation": f"error branch reachable from well-nested use: {ins[2]}",
                                "trace": trace_of(state) + [lab],
                                "states": len(seen),
                                "transitions": transitions,
                            }
                        succs.append(((depth, bud, fn, pc + 1, loc), gv, gcf, locks, lab))
                    elif k == "ret":
                        nl = list(locks)
                        for nm in ins[1]:
                            nl[lock_names.index(nm)] = -1
                        nd = depth + 1 if fn == ENTER else depth - 1
                        succs.append(((nd, bud, None, 0, ()), gv, gcf, tuple(nl), lab))
                for nt, ngv, ngc, nlocks, label in succs:
                    transitions += 1
                    nthreads_ = list(threads)
                    nthreads_[ti] = nt
                    # symmetry reduction is not applied: thread ids appear in lock ownership
                    ns = (ngv, ngc, nlocks, tuple(nthreads_), ref)
                    if ns in seen:
                        continue
                    seen[ns] = (state, label)
                    v = check(ns)
                    if v:
                        return {"violation": v, "trace": trace_of(ns), "states": len(seen), "transitions": transitions}
                    if len(seen) > max_states:
                        raise AnalysisError("C19.model: state space exceeds the configured bound")
                    nxt.append(ns)
        frontier = nxt
    # deadlock check: a state where some thread is inside a function and nobody can move is impossible here
    # because every blocked acquire waits for an owner who can always proceed.
    some = next((s for s in seen if all(t[2] is None and t[0] == 0 and t[1] == 0 for t in s[3])), None)
    return {
        "violation": None,
        "states": len(seen),
        "transitions": transitions,
        "sample": trace_of(some)[:40] if some is not None else [],
    }


def _init_globals(tree):
    m = tree.mod(Z3)
    vals = {}
    for st in m.tree.body:
        if isinstance(st, ast.Assign) and len(st.targets) == 1 and isinstance(st.targets[0], ast.Name):
            if st.targets[0].id in ("_active_z3_calls", "_gc_was_enabled"):
                if not isinstance(st.value, ast.Constant):
                    raise AnalysisError("C19.model: initial value of a guard variable is not a literal")
                vals[st.targets[0].id] = st.value.value
    if set(vals) != {"_active_z3_calls", "_gc_was_enabled"}:
        raise AnalysisError("C19.model: guard variables _active_z3_calls/_gc_was_enabled not found at module level")
    return vals


@rule(
    "C19.model",
    props=("C19",),
    floor=2,
    family="FIN",
    desc="_enter_z3/_exit_z3 extracted into guarded commands; all interleavings (statement granularity, lock "
    "semantics) of threads doing well-nested enter/exit sequences explored: GC disabled while a call is in "
    "progress, counter consistent and never negative, GC state restored at the end of every busy period (the "
    "application may switch the collector between busy periods), underflow branch unreachable",
)
def c19_model(R):
    tree = R.tree
    m = tree.mod(Z3)
    locks = _lock_names(tree)
    progs = {name: compile_fn(tree.func(Z3, name), locks) for name in (ENTER, EXIT)}
    init = _init_globals(tree)
    configs = [(2, 2)] if R.tier == "quick" else [(2, 3), (3, 2), (3, 3)]
    states = transitions = 0
    samples = []
    for nthreads, budget in configs:
        for gc_init in (True, False):
            res = explore(progs, init, nthreads, budget, gc_init)
            states += res["states"]
            transitions += res["transitions"]
            what = f"{nthreads} threads x {budget} nested calls, GC initially {'on' if gc_init else 'off'}"
            if res["violation"]:
                tr = res["trace"]
                R.bad(
                    m,
                    tree.func(Z3, ENTER),
                    f"{what}: {res['violation']}; schedule ({len(tr)} steps): " + " | ".join(tr[-14:]),
                    construct=f"GC guard model: {res['violation'].split(';')[0][:80]}",
                )
                samples.append({"config": what, "violation": res["violation"], "trace": tr})
                break
            R.ok(m, tree.func(Z3, ENTER), f"{what}: {res['states']} states, {res['transitions']} transitions, no violation")
            if res.get("sample") and len(samples) < 2:
                samples.append({"config": what, "trace_to_quiescence": res["sample"]})
        else:
            continue
        break
    R.extra["states"] = states
    R.extra["transitions"] = transitions
    R.extra["traces_validated_against_impl"] = 0
    R.extra["model_samples"] = samples
    R.extra["lock_coverage"] = {
        name: {
            "instructions": len(p.ins),
            "under_lock": _under_lock(p),
        }
        for name, p in progs.items()
    }


def _under_lock(p):
    held = 0
    n = 0
    for i in p.ins:
        if i[0] == "acq":
            held += 1
        elif i[0] == "rel":
            held -= 1
        elif held > 0 and i[0] in ("set", "gc", "jf"):
            n += 1
    return n


@rule(
    "C19.writers",
    props=("C19",),
    floor=3,
    family="WHO",
    desc="the guard's counter and saved flag are assigned only in _enter_z3/_exit_z3, and gc.enable/gc.disable "
    "are called nowhere else in the package",
)
def c19_writers(R):
    tree = R.tree
    guard_vars = {"_active_z3_calls", "_gc_was_enabled"}
    seen = 0
    for m, q, fn in tree.all_functions():
        declared = set()
        for n in walk_no_nested(fn):
            if isinstance(n, ast.Global):
                declared |= set(n.names) & guard_vars
        if declared:
            seen += 1
            R.check(
                m.path == Z3 and q in (ENTER, EXIT),
                m,
                fn,
                f"{q} is one of the two sanctioned writers of the guard state",
                f"{q} declares {sorted(declared)} global: the GC guard state is written outside _enter_z3/_exit_z3",
                construct=f"{q}: global {', '.join(sorted(declared))}",
            )
        for c in (n for n in walk_no_nested(fn) if isinstance(n, ast.Call)):
            d = dotted(c.func) or ""
            if d in ("gc.enable", "gc.disable", "gc.set_threshold", "gc.freeze"):
                seen += 1
                R.check(
                    m.path == Z3 and q in (ENTER, EXIT),
                    m,
                    c,
                    f"{d}() inside the guard",
                    f"{q} calls {d}() outside the GC guard: the guard's saved state no longer describes the collector",
                )
    # module-level writes other than the initialisation
    for m in tree.modules.values():
        for st in m.tree.body:
            if isinstance(st, (ast.Assign, ast.AugAssign)):
                tg = st.targets if isinstance(st, ast.Assign) else [st.target]
                for t in tg:
                    if isinstance(t, ast.Name) and t.id in guard_vars and m.path != Z3:
                        R.bad(m, st, f"guard variable {t.id} assigned at module level outside backend_z3")
                    if isinstance(t, ast.Attribute) and t.attr in guard_vars:
                        R.bad(m, st, f"guard variable {t.attr} assigned through a module attribute")
    for m, q, fn in tree.all_functions():
        for n in walk_no_nested(fn):
            if isinstance(n, (ast.Assign, ast.AugAssign)):
                tg = n.targets if isinstance(n, ast.Assign) else [n.target]
                for t in tg:
                    if isinstance(t, ast.Attribute) and t.attr in guard_vars:
                        R.bad(m, n, f"{q} assigns guard variable {t.attr} through a module attribute")
    R.need(seen >= 3, "guard writers not found (anchor vanished)")


@rule(
    "C19.pair",
    props=("C19",),
    floor=2,
    family="PAIR",
    desc="in the condom wrapper every path from _enter_z3() to any exit passes _exit_z3(), _exit_z3() is never "
    "reached without a preceding _enter_z3(), and every Z3-touching backend entry point goes through the wrapper",
)
def c19_pair(R):
    tree = R.tree
    m = tree.mod(Z3)
    fn = tree.func(Z3, "condom.z3_condom")

    # a private module-level helper through which *every* path calls _enter_z3 / _exit_z3 counts as that call
    # (extracting the cleanup of the wrapper into a helper function changes nothing)
    wrappers = {ENTER: {ENTER}, EXIT: {EXIT}}
    for base in (ENTER, EXIT):
        for hname, hfn in m.functions.items():
            if "." in hname or hname in (ENTER, EXIT) or not any(isinstance(x, ast.Call) and dotted(x.func) == base for x in ast.walk(hfn)):
                continue
            hg = CFG(hfn, no_raise=lambda c: dotted(c.func) in (ENTER, EXIT))
            missed = hg.paths_avoiding(hg.entry, lambda n_, b=base: n_.ast is not None and any(isinstance(x, ast.Call) and dotted(x.func) == b for x in ast.walk(n_.ast)))
            if not missed:
                wrappers[base].add(hname)

    def has_call(node, name):
        return node is not None and any(isinstance(x, ast.Call) and dotted(x.func) in wrappers[name] for x in ast.walk(node))

    def no_raise(call):
        return dotted(call.func) in wrappers[ENTER] | wrappers[EXIT]

    g = CFG(fn, no_raise=no_raise)
    enters = g.find(lambda n: n.kind == "stmt" and has_call(n.ast, ENTER))
    exits = g.find(lambda n: n.kind == "stmt" and has_call(n.ast, EXIT))
    R.need(enters and exits, "z3_condom does not call _enter_z3/_exit_z3 (anchor vanished)")
    for e in enters:
        bad = g.paths_avoiding(e, lambda n: has_call(n.ast, EXIT))
        R.check(
            not bad,
            m,
            e.ast,
            "every path from _enter_z3() leaves through _exit_z3()",
            f"a path leaves the wrapper after _enter_z3() without _exit_z3(): "
            f"{describe_path(bad[0][-4:]) if bad else ''} (the counter never returns to 0 and GC stays off)",
        )
    # no exit without enter: paths from entry avoiding enter must not reach an exit call
    stack = [g.entry]
    seen = {id(g.entry)}
    reach_exit_without_enter = False
    while stack:
        n = stack.pop()
        for nx, _ in n.succ:
            if id(nx) in seen or has_call(nx.ast, ENTER):
                continue
            if has_call(nx.ast, EXIT):
                reach_exit_without_enter = True
            seen.add(id(nx))
            stack.append(nx)
    R.check(
        not reach_exit_without_enter,
        m,
        fn,
        "_exit_z3() is only reached after _enter_z3()",
        "_exit_z3() can run without a preceding _enter_z3(): the counter underflows",
        construct="z3_condom: exit without enter",
    )
    # exactly one enter / one exit call (no double counting)
    n_enter = sum(1 for x in ast.walk(fn) if isinstance(x, ast.Call) and dotted(x.func) in wrappers[ENTER])
    n_exit = sum(1 for x in ast.walk(fn) if isinstance(x, ast.Call) and dotted(x.func) in wrappers[EXIT])
    R.check(
        n_enter == 1 and n_exit == 1,
        m,
        fn,
        "one enter and one exit per wrapped call",
        f"{n_enter} _enter_z3() and {n_exit} _exit_z3() calls in the wrapper",
        construct="z3_condom: enter/exit multiplicity",
    )
    # nobody else calls enter/exit
    for mm, q, f in tree.all_functions():
        for c in (n for n in walk_no_nested(f) if isinstance(n, ast.Call)):
            d = (dotted(c.func) or "").split(".")[-1]
            if d in (ENTER, EXIT) and not (mm.path == Z3 and (q == "condom.z3_condom" or q in wrappers[ENTER] | wrappers[EXIT])):
                R.bad(mm, c, f"{q} calls {d}() directly; pairing is only guaranteed through the condom wrapper")
