"""C22.exactint - integer domains are computed in integers.

Bit-vector values and interval bounds are Python ints of up to 64 (and more) bits; a float keeps 53.  True division
`/`, `float(x)` of a value, `math.sqrt/log*/floor/ceil` over such a quotient silently round, and the result is wrong
only for wide values - exactly the ones no small test uses (`int(a / b)` is the textbook truncating division and fails
from 2**53 on; the Diophantine step of the interval meet bounded its parameter with float quotients of 128-bit products
and lost the common members of 64-bit intervals).  The modules that implement integer semantics - the concrete
bit-vector backend, the simplifier, the whole VSA domain - therefore contain no float arithmetic on values.  Sentinels
(`float('inf')`) are not arithmetic on values.
"""

from __future__ import annotations

import ast

from ..core import FuncTypes, dotted, norm
from ..report import rule

MODULES = (
    "claripy/backends/backend_concrete/bv.py",
    "claripy/simplifications.py",
    "claripy/backends/backend_vsa/strided_interval.py",
    "claripy/backends/backend_vsa/discrete_strided_interval_set.py",
    "claripy/backends/backend_vsa/valueset.py",
    "claripy/backends/backend_vsa/balancer.py",
    "claripy/backends/backend_vsa/backend_vsa.py",
    "claripy/backends/backend_vsa/warren_methods.py",
    "claripy/backends/backend_vsa/bool_result.py",
)

_EXEMPT = {
    ("claripy/backends/backend_vsa/strided_interval.py", "StridedInterval.min_bits"): "estimates a bit count with log2 (inexact from 2**49 on); no transfer function, query or other module of claripy calls it",
}

_FLOAT_CALLS = {"math.sqrt", "math.log", "math.log2", "math.log10", "math.pow", "math.exp", "math.fsum", "math.floor", "math.ceil", "math.trunc", "round"}


_TO_INT = {"int", "math.floor", "math.ceil", "math.trunc", "round", "float"}


def _numeric_use(div):
    """the quotient is used as a Python number (bit-vector and interval objects overload `/` with an integer meaning:
    only a quotient that is converted with int()/floor()/ceil()/round(), directly or through a local, or that has a
    float() operand, is float arithmetic for certain)"""
    if any(isinstance(o, ast.Call) and (dotted(o.func) or "") == "float" for o in (div.left, div.right)):
        return True
    node, parent = div, getattr(div, "_parent", None)
    while parent is not None and isinstance(parent, (ast.BinOp, ast.UnaryOp, ast.IfExp)):
        node, parent = parent, getattr(parent, "_parent", None)
    if isinstance(parent, ast.Call) and (dotted(parent.func) or "") in _TO_INT:
        return True
    if isinstance(parent, ast.Assign) and len(parent.targets) == 1 and isinstance(parent.targets[0], ast.Name):
        name = parent.targets[0].id
        fn = parent
        while fn is not None and not isinstance(fn, FuncTypes):
            fn = getattr(fn, "_parent", None)
        if fn is not None:
            for c in ast.walk(fn):
                if isinstance(c, ast.Call) and (dotted(c.func) or "") in _TO_INT and any(isinstance(x, ast.Name) and x.id == name for a in c.args for x in ast.walk(a)):
                    return True
    return False


def _qual(node):
    names = []
    while node is not None:
        if isinstance(node, FuncTypes + (ast.ClassDef,)):
            names.append(node.name)
        node = getattr(node, "_parent", None)
    return ".".join(reversed(names))


@rule(
    "C22.exactint",
    props=("C22", "C21", "C01", "C25"),
    floor=9,
    family="WHO",
    desc="the modules that implement integer semantics (concrete bit-vector backend, simplifier, the VSA domain) contain "
    "no float arithmetic on values: no true division `/`, no float(x) of a value, no math.sqrt/log/floor/ceil/round - a "
    "float keeps 53 bits, bit-vector values and the products of interval bounds have 64 and more",
)
def c22_exactint(R):
    tree = R.tree
    n = 0
    for path in MODULES:
        try:
            m = tree.mod(path)
        except Exception:  # noqa: BLE001
            continue
        n += 1
        bad = []
        for node in ast.walk(m.tree):
            why = None
            if isinstance(node, ast.BinOp) and isinstance(node.op, ast.Div) and _numeric_use(node):
                why = "true division"
            elif isinstance(node, ast.Call):
                d = dotted(node.func) or ""
                if d == "float" and node.args and not (isinstance(node.args[0], ast.Constant) and isinstance(node.args[0].value, str)):
                    why = "conversion of a value to float"
                elif d in _FLOAT_CALLS:
                    # floor/ceil/round of an exact rational or of an int are exact: only flag them over a float source
                    if d in ("math.floor", "math.ceil", "math.trunc", "round"):
                        src = node.args[0] if node.args else None
                        floaty = src is not None and any(
                            (isinstance(x, ast.BinOp) and isinstance(x.op, ast.Div)) or (isinstance(x, ast.Call) and (dotted(x.func) or "") in ("float", "math.sqrt", "math.log", "math.log2")) for x in ast.walk(src)
                        )
                        if floaty:
                            why = f"{d} of a float quotient"
                    else:
                        why = f"{d} (float function)"
            if why is None:
                continue
            q = _qual(node)
            if (path, q) in _EXEMPT:
                R.ok(m, node, f"{q}: {_EXEMPT[(path, q)]}")
                continue
            bad.append((node, why, q))
        if not bad:
            R.ok(m, m.tree, f"{path}: no float arithmetic on values")
        for node, why, q in bad:
            R.bad(
                m,
                node,
                f"{q or path} computes `{norm(node)[:80]}` ({why}) in a module that implements integer semantics: a float keeps 53 bits, "
                f"so the result is wrong for wide values only (int(a / b) from 2**53 on; the Diophantine bounds of the interval meet "
                f"lost the common members of 64-bit intervals)",
                construct=f"{q or '<module>'}: {why}",
            )
    R.need(n >= 8, f"only {n} integer-semantics modules found")
